"""C17 - reading the label mechanism from the deep view.

Events: a *label store* `labels[key] = value` (also `setdefault`, `update` with an unrolled mapping) inside a loop over the nodes.
For every store whose value involves an alias the rule derives
  * the shape of the label      alias(m) + rest-of-name-after(m)                                 (R1)
  * the selection of m          candidate domain D, its order, the match predicate P, the discipline (first / every / longest)
  * what the selection establishes: m is the most specific aliased ancestor-or-self of the node  (R1: P, R2: order x discipline)
and for the stores as a whole that every node gets a label on every path through the node loop, the full name by default (R3).
"""

from __future__ import annotations

import ast
from dataclasses import dataclass, field

from core.guards import FALSE, atom, atoms_of, evaluate, f_and, f_not, f_or, implies, to_formula
from core.loader import AnalysisError, norm, parent

from .c17_inductive import has_recursive_call, reads_label, rule_inductive
from .c17_model import Model, const_str, parse_atom
from .c17_rules import remaining_helper_calls
from .c17_view import _walk_own
from .common import cfg_of


@dataclass
class Event:
    node: ast.AST  # statement
    key: ast.expr
    value: ast.expr | None
    how: str  # store | setdefault
    n: str | None = None  # name of the node variable the key resolves to
    nloop: ast.For | None = None
    domain: str | None = None  # all | filtered | aliased | None
    kind: str = ""  # default | aliased | other
    extra: list = field(default_factory=list)  # further (test, polarity) conditions from conditional expressions in the value
    inline_sel: tuple | None = None  # (candidate var, domain, ifs) when the value is the element of `next(<generator>, default)`
    store: ast.AST | None = None  # the statement that writes the mapping (differs from `node` when the value is a local assigned on several paths)


@dataclass
class Selection:
    cand: str  # candidate variable
    D: ast.expr  # resolved domain expression
    P: tuple  # formula
    discipline: str  # first | every | longest | shortest | last
    loop: ast.AST | None
    where: ast.AST
    srcs: list = field(default_factory=list)  # expressions the analysis has read (for the lint's unknown sites)
    known: tuple | None = None  # (domain, order) when the candidates are not given by an expression (walk up the parents in a while loop)


# =========================================================================== events


def _dict_names(M: Model, root: str) -> set[str]:
    out = {root}
    for name in M.binds:
        if M.root_name(ast.Name(id=name, ctx=ast.Load())) == root:
            out.add(name)
    return out


def collect_events(M: Model, root: str, depth: int = 0) -> tuple[list[Event], list[str]]:
    names_ = _dict_names(M, root)
    events: list[Event] = []
    odd: list[str] = []
    for n in _walk_own(M.fn.body):
        if isinstance(n, ast.Subscript) and isinstance(n.ctx, ast.Store) and isinstance(n.value, ast.Name) and n.value.id in names_:
            st = M.stmt_of(n)
            if isinstance(st, ast.Assign) and len(st.targets) == 1 and st.targets[0] is n:
                events.append(Event(st, n.slice, st.value, "store"))
            elif isinstance(st, ast.AnnAssign) and st.target is n and st.value is not None:
                events.append(Event(st, n.slice, st.value, "store"))
            else:
                odd.append(f"`{norm(st, 60)}` writes labels in a form that is not read")
        elif isinstance(n, ast.Call) and isinstance(n.func, ast.Attribute) and isinstance(n.func.value, ast.Name) and n.func.value.id in names_:
            a = n.func.attr
            if a == "setdefault" and len(n.args) == 2:
                events.append(Event(M.stmt_of(n), n.args[0], n.args[1], "setdefault"))
            elif a == "update" and len(n.args) == 1 and not n.keywords and isinstance(n.args[0], ast.Name) and depth < 2:
                r2 = M.root_name(n.args[0])
                if r2 is not None and r2 != root:
                    ev, od = collect_events(M, r2, depth + 1)
                    events += ev
                    odd += od
                else:
                    odd.append(f"`{norm(n, 60)}` merges labels from a mapping that is not built locally")
            elif a in ("update", "pop", "popitem", "clear", "__setitem__", "__delitem__"):
                odd.append(f"`{norm(n, 60)}` changes the label mapping in a form that is not read")
        elif isinstance(n, ast.AugAssign) and isinstance(n.target, ast.Name) and n.target.id in names_:
            odd.append(f"`{norm(n, 60)}` changes the label mapping in a form that is not read")
        elif isinstance(n, ast.Subscript) and isinstance(n.ctx, ast.Del) and isinstance(n.value, ast.Name) and n.value.id in names_:
            odd.append(f"`{norm(M.stmt_of(n), 60)}` removes labels")
    return events, odd


def expand_event(M: Model, ev: Event, depth: int = 0) -> list[Event]:
    """Splits a store whose value is a conditional expression / `next((label for m in D if P), default)` into one event per case."""
    if ev.value is None or depth > 4:
        return [ev]
    rv = M.resolve(ev.value)

    def clone(value, extra=None, inline_sel=None, node=None) -> Event:
        return Event(node or ev.node, ev.key, value, ev.how, extra=list(ev.extra) + (extra or []), inline_sel=inline_sel or ev.inline_sel, store=ev.store or ev.node)

    # a local that is assigned on several paths (`label = name` ... `label = alias + rest`): one event per assignment
    if isinstance(ev.value, ast.Name) and ev.store is None:
        bs = M.binds.get(ev.value.id, [])
        if len(bs) > 1 and all(b.kind == "assign" and b.value is not None for b in bs) and not any(M.depends_on_name(b.value, ev.value.id) for b in bs):
            out: list[Event] = []
            for b in bs:
                out += expand_event(M, clone(b.value, node=b.stmt), depth + 1)
            return out

    if isinstance(rv, ast.IfExp):
        return expand_event(M, clone(rv.body, [(rv.test, True)]), depth + 1) + expand_event(M, clone(rv.orelse, [(rv.test, False)]), depth + 1)
    if isinstance(rv, ast.Call) and isinstance(rv.func, ast.Name) and rv.func.id == "next" and len(rv.args) == 2 and isinstance(rv.args[0], ast.GeneratorExp) and len(rv.args[0].generators) == 1 and ev.inline_sel is None:
        g = rv.args[0].generators[0]
        if isinstance(g.target, ast.Name):
            return [clone(rv.args[0].elt, inline_sel=(g.target.id, g.iter, list(g.ifs))), *expand_event(M, clone(rv.args[1]), depth + 1)]
    return [ev]


def ev_guard(M: Model, ev: Event, relative_to=None):
    fs = [M.guard(ev.node, relative_to=relative_to)]
    for e, pol in ev.extra:
        fs.append(M.formula(e, pol))
    return f_and(fs)


def place_event(M: Model, ev: Event) -> None:
    k = M.resolve(ev.key)
    if isinstance(k, ast.Call) and isinstance(k.func, ast.Name) and k.func.id == "str" and len(k.args) == 1:
        k = k.args[0]
    if not isinstance(k, ast.Name):
        return
    for L in reversed(M.loops_around(ev.node)):
        if isinstance(L.target, ast.Name) and L.target.id == k.id:
            ev.n, ev.nloop = k.id, L
            it = M.resolve(L.iter)
            ev.domain = M.nodes_coll(it)
            if ev.domain is None and M.keys_of_A(it):
                ev.domain = "aliased"
            return
        if isinstance(L.target, (ast.Tuple, ast.List)) and any(isinstance(x, ast.Name) and x.id == k.id for x in L.target.elts):
            ev.n, ev.nloop = k.id, L
            it = M.resolve(L.iter)
            if M.keys_of_A(it):
                ev.domain = "aliased"
            return


# =========================================================================== alias / rest shapes


def alias_of(M: Model, e: ast.expr) -> ast.expr | None:
    """resolved `e` = the alias given for module <m>  ->  <m> (an expression)"""
    if isinstance(e, ast.Subscript) and not isinstance(e.slice, ast.Slice) and M.is_A(e.value):
        return e.slice
    if isinstance(e, ast.Call) and isinstance(e.func, ast.Attribute) and e.func.attr == "get" and len(e.args) == 1 and not e.keywords and M.is_A(e.func.value):
        return e.args[0]
    if isinstance(e, ast.Name):
        b = M.loop_binding(e.id)
        if b is not None and M.keys_of_A(M.resolve(b.value)) == "items":
            tgt = b.stmt.target
            if isinstance(tgt, (ast.Tuple, ast.List)) and len(tgt.elts) == 2 and tgt.elts[1] is b.node and isinstance(tgt.elts[0], ast.Name):
                return ast.Name(id=tgt.elts[0].id, ctx=ast.Load())
    if isinstance(e, ast.Call) and isinstance(e.func, ast.Name) and e.func.id == "str" and len(e.args) == 1:
        return alias_of(M, e.args[0])
    # item.alias where item is a per-alias object
    if isinstance(e, ast.Attribute) and isinstance(e.value, ast.Name):
        info = obj_var(M, e.value.id)
        if info is not None and e.attr == info["alias"]:
            return ast.Attribute(value=ast.Name(id=e.value.id, ctx=ast.Load()), attr=info["module"], ctx=ast.Load())
    # pair[1] where pair is an (aliased module, alias) item
    if isinstance(e, ast.Subscript) and isinstance(e.slice, ast.Constant) and e.slice.value == 1 and isinstance(e.value, ast.Name) and pair_var(M, e.value.id) is not None:
        return ast.Subscript(value=ast.Name(id=e.value.id, ctx=ast.Load()), slice=ast.Constant(value=0), ctx=ast.Load())
    return None


def object_items(M: Model, e: ast.expr) -> dict | None:
    """resolved `e` = one small object per aliased module: `[Item(m, a) for m, a in aliases.items()]` / `(Item(m, aliases[m]) for m in aliases)`
    ->  {'module': field holding the module name, 'alias': field holding the alias, 'elt': the constructor call}"""
    while isinstance(e, ast.Call) and isinstance(e.func, ast.Name) and e.func.id in ("list", "tuple", "sorted", "reversed", "iter") and len(e.args) == 1:
        e = e.args[0]
    if not (isinstance(e, (ast.ListComp, ast.GeneratorExp)) and len(e.generators) == 1 and not e.generators[0].ifs and isinstance(e.elt, ast.Call)):
        return None
    g = e.generators[0]
    kind = M.keys_of_A(g.iter)
    if kind == "items" and isinstance(g.target, (ast.Tuple, ast.List)) and len(g.target.elts) == 2 and all(isinstance(x, ast.Name) for x in g.target.elts):
        m, a = g.target.elts[0].id, g.target.elts[1].id
    elif kind == "keys" and isinstance(g.target, ast.Name):
        m, a = g.target.id, None
    else:
        return None
    from .common import types_of

    ctx, orig = getattr(e.elt, "_src", None) or getattr(e.elt, "_orig", None) or (M.V, e.elt)
    try:
        ci = types_of(M.repo).ctor_class(ctx, orig) if isinstance(orig, ast.Call) else None
    except Exception:  # noqa: BLE001
        ci = None
    if ci is None:
        return None
    fields = list(dict.fromkeys([f for c in M.repo.mro(ci) for f in c.ann_attrs] + [n.attr for meth in ci.methods.values() if meth.name == "__init__" for n in ast.walk(meth.node) if isinstance(n, ast.Attribute) and isinstance(n.ctx, ast.Store)]))
    out = {"elt": e.elt, "module": None, "alias": None}
    for f in fields:
        v = M._field_of_new_object(e.elt, f)
        if v is None:
            continue
        if _is_name(v, m):
            out["module"] = f
        elif (a is not None and _is_name(v, a)) or (isinstance(v, ast.Subscript) and M.is_A(v.value) and _is_name(v.slice, m)):
            out["alias"] = f
    props = {}
    for c in M.repo.mro(ci):
        for name_, meth in c.methods.items():
            if meth.is_property and name_ not in props:
                body = [s_ for s_ in meth.node.body if not (isinstance(s_, ast.Expr) and isinstance(s_.value, ast.Constant))]
                if len(body) == 1 and isinstance(body[0], ast.Return) and body[0].value is not None and meth.param_names:
                    props[name_] = (meth.param_names[0], body[0].value)
    out["props"] = props
    return out if out["module"] and out["alias"] else None


def obj_var(M: Model, name: str) -> dict | None:
    """`name` holds one per-alias object (see object_items): a loop variable over them or the result of next()/max()/min() over them"""
    b = M.loop_binding(name)
    if b is not None and b.node is getattr(b.stmt, "target", None):
        return object_items(M, M.resolve(b.value))
    v = M.single_value(name)
    if isinstance(v, ast.Call) and isinstance(v.func, ast.Name) and v.func.id in ("next", "max", "min") and v.args:
        comp = _comp_of(M, v.args[0])
        if comp is not None:
            return object_items(M, comp[1])
    return None


def pair_var(M: Model, name: str):
    """`name` holds one (aliased module, alias) item of the alias mapping: the variable of a loop over aliases.items() (possibly
    sorted), or the result of next()/max()/min() over such items.  -> ('loop', binding) | ('sel', call) | None"""
    b = M.loop_binding(name)
    if b is not None and b.node is getattr(b.stmt, "target", None):
        d, _o = domain_order(M, M.resolve(b.value), "")
        if d == "items":
            return ("loop", b)
    v = M.single_value(name)
    if isinstance(v, ast.Call) and isinstance(v.func, ast.Name) and v.func.id in ("next", "max", "min") and v.args:
        comp = _comp_of(M, v.args[0])
        if comp is not None:
            d, _o = domain_order(M, comp[1], "")
            if d == "items":
                return ("sel", v)
    return None


def mentions_alias(M: Model, e: ast.AST) -> bool:
    return any(isinstance(x, ast.expr) and (alias_of(M, x) is not None or M.is_A(x)) for x in ast.walk(e))


def _is_name(e: ast.AST, name: str) -> bool:
    """`e` is the variable `name` (or, for selected candidates that are expressions, textually the expression `name`)"""
    if isinstance(e, ast.Name):
        return e.id == name
    return isinstance(e, ast.expr) and not name.isidentifier() and norm(e, 400) == name


def _split_of(e: ast.AST, name: str) -> bool:
    return isinstance(e, ast.Call) and isinstance(e.func, ast.Attribute) and e.func.attr == "split" and _is_name(e.func.value, name) and len(e.args) == 1 and const_str(e.args[0]) == "."


def _ncomp_of(e: ast.AST, name: str) -> bool:
    """number of dotted components of <name>: name.count('.') + 1 | len(name.split('.'))"""
    if isinstance(e, ast.BinOp) and isinstance(e.op, ast.Add):
        for a, b in ((e.left, e.right), (e.right, e.left)):
            if isinstance(b, ast.Constant) and b.value == 1 and isinstance(a, ast.Call) and isinstance(a.func, ast.Attribute) and a.func.attr == "count" and _is_name(a.func.value, name) and len(a.args) == 1 and const_str(a.args[0]) == ".":
                return True
    if isinstance(e, ast.Call) and isinstance(e.func, ast.Name) and e.func.id == "len" and len(e.args) == 1 and _split_of(e.args[0], name):
        return True
    return False


def _tail_components(e: ast.AST, n: str, m: str) -> bool:
    """components of n below m:  n.split('.')[ncomp(m):]"""
    return isinstance(e, ast.Subscript) and isinstance(e.slice, ast.Slice) and e.slice.upper is None and e.slice.step is None and e.slice.lower is not None and _split_of(e.value, n) and _ncomp_of(e.slice.lower, m)


def rest_of(e: ast.expr, n: str, m: str) -> str | None:
    """resolved `e` = the part of name n after its ancestor-or-self m (starting at the '.')  ->  description"""
    if isinstance(e, ast.Subscript) and isinstance(e.slice, ast.Slice) and e.slice.upper is None and e.slice.step is None and _is_name(e.value, n):
        lo = e.slice.lower
        if isinstance(lo, ast.Call) and isinstance(lo.func, ast.Name) and lo.func.id == "len" and len(lo.args) == 1 and _is_name(lo.args[0], m):
            return f"{n}[len({m}):]"
    if isinstance(e, ast.Call) and isinstance(e.func, ast.Attribute) and e.func.attr == "removeprefix" and _is_name(e.func.value, n) and len(e.args) == 1 and _is_name(e.args[0], m):
        return f"{n}.removeprefix({m})"
    # n.partition(m)[2] / n.split(m, 1)[1]: the first occurrence of m is the matched prefix
    if isinstance(e, ast.Subscript) and isinstance(e.slice, ast.Constant) and isinstance(e.value, ast.Call) and isinstance(e.value.func, ast.Attribute) and _is_name(e.value.func.value, n):
        c_ = e.value
        if c_.func.attr == "partition" and e.slice.value == 2 and len(c_.args) == 1 and _is_name(c_.args[0], m):
            return f"{n}.partition({m})[2]"
        if c_.func.attr == "split" and e.slice.value == 1 and len(c_.args) == 2 and _is_name(c_.args[0], m) and isinstance(c_.args[1], ast.Constant) and c_.args[1].value == 1:
            return f"{n}.split({m}, 1)[1]"
    # "".join(f".{c}" for c in n.split(".")[ncomp(m):])
    if isinstance(e, ast.Call) and isinstance(e.func, ast.Attribute) and e.func.attr == "join" and const_str(e.func.value) == "" and len(e.args) == 1 and isinstance(e.args[0], (ast.GeneratorExp, ast.ListComp)):
        comp = e.args[0]
        if len(comp.generators) == 1 and not comp.generators[0].ifs and isinstance(comp.generators[0].target, ast.Name) and _tail_components(comp.generators[0].iter, n, m):
            c = comp.generators[0].target.id
            el = comp.elt
            dotted_c = (isinstance(el, ast.JoinedStr) and len(el.values) == 2 and const_str(el.values[0]) == "." and isinstance(el.values[1], ast.FormattedValue) and _is_name(el.values[1].value, c)) or (
                isinstance(el, ast.BinOp) and isinstance(el.op, ast.Add) and const_str(el.left) == "." and _is_name(el.right, c)
            )
            if dotted_c:
                return "'.'-joined components below the ancestor"
    return None


def parse_label(M: Model, v: ast.expr, n: str):
    """resolved label value  ->  (m expression, description) if it is `alias(m) + rest(n, m)` in one of the accepted spellings;
    ('bad', reason) if it is recognisably something else; None if not understood."""

    def pair(a: ast.expr, r: ast.expr):
        m = alias_of(M, a)
        if m is None:
            return None
        # the matched ancestor given by an index into the name: alias(n[:L]) + n[L:]
        if isinstance(m, ast.Subscript) and isinstance(m.slice, ast.Slice) and m.slice.lower is None and m.slice.step is None and m.slice.upper is not None and _is_name(m.value, n):
            if isinstance(r, ast.Subscript) and isinstance(r.slice, ast.Slice) and r.slice.upper is None and r.slice.step is None and r.slice.lower is not None and _is_name(r.value, n):
                if norm(r.slice.lower) == norm(m.slice.upper):
                    return m, f"{norm(a, 40)} + {norm(r, 30)} (ancestor and remainder split the name at one index)"
                return "bad", f"`{norm(a, 40)} + {norm(r, 30)}`: the ancestor ends at `{norm(m.slice.upper, 20)}` but the remainder starts at `{norm(r.slice.lower, 20)}` - the part of the name in between (the separator) is lost or doubled"
        d = rest_of(r, n, m.id if isinstance(m, ast.Name) else norm(m, 400))
        if d is not None:
            return m, f"{norm(a, 40)} + {d}"
        return None

    if isinstance(v, ast.BinOp) and isinstance(v.op, ast.Add):
        got = pair(v.left, v.right)
        if got:
            return got
        if alias_of(M, v.left) is not None and _is_name(v.right, n):
            return "bad", f"`{norm(v, 70)}` appends the whole module name to the alias instead of the part after the aliased ancestor"
    if isinstance(v, ast.JoinedStr) and len(v.values) == 2 and all(isinstance(x, ast.FormattedValue) for x in v.values):
        got = pair(v.values[0].value, v.values[1].value)
        if got:
            return got
    # ".".join([alias, *tail]) / ".".join([alias] + tail)
    if isinstance(v, ast.Call) and isinstance(v.func, ast.Attribute) and v.func.attr == "join" and const_str(v.func.value) == "." and len(v.args) == 1:
        a = v.args[0]
        first, tail = None, None
        if isinstance(a, (ast.List, ast.Tuple)) and len(a.elts) == 2 and isinstance(a.elts[1], ast.Starred):
            first, tail = a.elts[0], a.elts[1].value
        elif isinstance(a, ast.BinOp) and isinstance(a.op, ast.Add) and isinstance(a.left, ast.List) and len(a.left.elts) == 1:
            first, tail = a.left.elts[0], a.right
        if first is not None:
            m = alias_of(M, first)
            if m is not None and _tail_components(tail, n, m.id if isinstance(m, ast.Name) else norm(m, 400)):
                return m, f"'.'.join of {norm(first, 40)} and the components below the ancestor"
    # n.replace(m, alias(m), 1): the first occurrence of m is the matched prefix
    if isinstance(v, ast.Call) and isinstance(v.func, ast.Attribute) and v.func.attr == "replace" and _is_name(v.func.value, n) and len(v.args) == 3 and isinstance(v.args[2], ast.Constant) and v.args[2].value == 1:
        m = alias_of(M, v.args[1])
        if m is not None and norm(m, 400) == norm(v.args[0], 400):
            return m, f"{n}.replace({norm(m, 30)}, {norm(v.args[1], 30)}, 1) (first occurrence = the matched prefix)"
    m = alias_of(M, v)
    if m is not None:
        if _is_name(m, n):
            return m, f"{norm(v, 40)} (alias of the module itself)"
        return "bare", m
    return None


# =========================================================================== selection of the aliased ancestor


def _followed_by_break(M: Model, st: ast.AST, loop: ast.AST) -> bool:
    """After `st` control leaves `loop` without running another iteration (break in the same block, loop is the innermost)."""
    inner = M.loops_around(st, whiles=True)
    if not inner or inner[-1] is not loop:
        return False
    p = parent(st)
    for fld in ("body", "orelse", "finalbody"):
        blk = getattr(p, fld, None)
        if isinstance(blk, list) and st in blk:
            after = blk[blk.index(st) + 1:]
            for s in after:
                if isinstance(s, ast.Break):
                    return True
                if isinstance(s, (ast.If, ast.For, ast.While, ast.Try, ast.With, ast.Continue, ast.Return, ast.Raise)):
                    return False
            return False
    if isinstance(p, ast.ExceptHandler) and st in p.body:
        return False
    return False


def _comp_of(M: Model, e: ast.expr):
    """(candidate var, domain, ifs) of a single-generator comprehension / filter whose element is its own variable"""
    e2 = M.resolve(e) if not isinstance(e, (ast.GeneratorExp, ast.ListComp, ast.SetComp)) else e
    while isinstance(e2, ast.Call) and isinstance(e2.func, ast.Name) and e2.func.id in ("list", "tuple", "iter") and len(e2.args) == 1 and not e2.keywords:
        e2 = e2.args[0]
    if isinstance(e2, ast.Call) and ((isinstance(e2.func, ast.Name) and e2.func.id == "dropwhile") or (isinstance(e2.func, ast.Attribute) and e2.func.attr == "dropwhile")) and len(e2.args) == 2:
        # next(dropwhile(pred, D)) is the first element of D for which pred does NOT hold
        pred = _predicate_as_lambda(M, e2.args[0])
        if pred is not None:
            var = pred.args.args[0].arg
            return var, M.resolve(e2.args[1]), [ast.UnaryOp(op=ast.Not(), operand=M.resolve(pred.body, frozenset({var})))]
    if isinstance(e2, ast.Call) and isinstance(e2.func, ast.Name) and e2.func.id == "filter" and len(e2.args) == 2:
        pred = _predicate_as_lambda(M, e2.args[0])
        if pred is not None:
            var = pred.args.args[0].arg
            return var, M.resolve(e2.args[1]), [M.resolve(pred.body, frozenset({var}))]
    if isinstance(e2, (ast.GeneratorExp, ast.ListComp, ast.SetComp)) and len(e2.generators) == 1:
        g = e2.generators[0]
        if isinstance(g.target, ast.Name) and isinstance(e2.elt, ast.Name) and e2.elt.id == g.target.id:
            return g.target.id, M.resolve(g.iter), [M.resolve(c, frozenset({g.target.id})) for c in g.ifs]
    return None


def _index_walk(M: Model, idx: str, ev: Event):
    """The matched ancestor is `n[:idx]` where idx walks over the ends of the name's own dotted prefixes:
        w = len(n)                       (the name itself first;  n.rfind('.') : its parent first)
        while ...: if n[:w] in aliased: <hit: idx = w / use w>; break
                   w = n.rfind('.', 0, w)      (next shorter prefix: nearest ancestor first;  n.find('.', w + 1): root first)
    -> Selection with the candidates known as the module's lineage, or a reason (str), or None if this is not such a walk."""
    n = ev.n
    bs = M.binds.get(idx, [])
    if not bs or any(b.kind != "assign" or b.value is None for b in bs):
        return None

    def walk_var(name: str):
        wb = M.binds.get(name, [])
        if len(wb) != 2 or any(b.kind != "assign" or b.value is None for b in wb):
            return None
        inside = [b for b in wb if any(isinstance(x, ast.While) for x in M.loops_around(b.stmt, whiles=True))]
        outside = [b for b in wb if b not in inside]
        if len(inside) != 1 or len(outside) != 1:
            return None
        if not any(isinstance(x, ast.Name) and x.id == name for x in ast.walk(inside[0].value)):
            return None  # the step computes the next index from the current one
        return outside[0], inside[0]

    hits = []
    if walk_var(idx) is not None:
        w = idx
        hits = [ev.node]
    else:
        ws = {b.value.id for b in bs if isinstance(b.value, ast.Name)}
        rest = [b for b in bs if not isinstance(b.value, ast.Name)]
        if len(ws) != 1 or any(not isinstance(b.value, ast.Constant) for b in rest):
            return None
        w = next(iter(ws))
        if walk_var(w) is None:
            return None
        hits = [b.stmt for b in bs if isinstance(b.value, ast.Name)]
    start, step = walk_var(w)
    W = [x for x in M.loops_around(step.stmt, whiles=True) if isinstance(x, ast.While)][-1]
    if not all(any(x is W for x in M.loops_around(h, whiles=True)) for h in hits):
        return f"the index `{idx}` of the matched ancestor is not set inside the walk over the prefixes of `{n}`"

    def dot_search(e: ast.expr, which: str) -> bool:
        return isinstance(e, ast.Call) and isinstance(e.func, ast.Attribute) and e.func.attr == which and _is_name(e.func.value, n) and e.args and const_str(e.args[0]) == "."

    sv, tv = M.resolve(start.value), step.value
    if isinstance(sv, ast.Call) and isinstance(sv.func, ast.Name) and sv.func.id == "len" and len(sv.args) == 1 and _is_name(sv.args[0], n):
        domain = "lineage"
    elif dot_search(sv, "rfind") and len(sv.args) == 1:
        domain = "parents"  # starts at the last separator: the name itself is never a candidate
    else:
        return f"the walk over the prefixes of `{n}` starts at `{norm(start.value, 40)}`: not recognised"
    if dot_search(tv, "rfind") and len(tv.args) == 3 and isinstance(tv.args[1], ast.Constant) and tv.args[1].value == 0 and _is_name(tv.args[2], w):
        order = "near"  # the last separator before the current end: the next shorter prefix
    elif dot_search(tv, "find"):
        order = "far"  # searching from the left visits the root first
    else:
        return f"the step `{w} = {norm(step.value, 50)}` of the walk over the prefixes of `{n}` is not recognised"
    cand = f"{n}[:{w}]"
    cs = [c for h in hits for c in M.cond_list(h) if id(c[0]) != id(W.test)]
    outer = {id(c[0]) for c in M.cond_list(W)}
    within = {id(x) for x in ast.walk(W)}
    P = f_or([f_and([M.formula(e, pol) for e, pol in M.cond_list(h) if id(e) != id(W.test) and id(e) not in outer and id(e) in within]) for h in hits])
    disc = "first" if all(_followed_by_break(M, h, W) for h in hits) else "every"
    return Selection(cand, ast.Name(id=w, ctx=ast.Load()), P, disc, W, W, [c[0] for c in cs] + [start.value, step.value], known=(domain, order))


def _predicate_as_lambda(M: Model, pred: ast.expr) -> ast.Lambda | None:
    """one-argument predicate given as a lambda, a bound method (`name.startswith`), a local closure or a repo function"""
    if isinstance(pred, ast.Lambda):
        return pred if len(pred.args.args) == 1 and not pred.args.defaults else None
    mk = lambda body, p: ast.Lambda(args=ast.arguments(posonlyargs=[], args=[ast.arg(arg=p)], kwonlyargs=[], kw_defaults=[], defaults=[]), body=body)  # noqa: E731
    if isinstance(pred, ast.Attribute) and pred.attr in ("startswith", "__eq__", "__contains__"):
        p = "candidate__pred"
        if pred.attr == "startswith":
            return mk(ast.Call(func=pred, args=[ast.Name(id=p, ctx=ast.Load())], keywords=[]), p)
        if pred.attr == "__eq__":
            return mk(ast.Compare(left=pred.value, ops=[ast.Eq()], comparators=[ast.Name(id=p, ctx=ast.Load())]), p)
    if isinstance(pred, ast.Name):
        for n in ast.walk(M.fn):
            if isinstance(n, ast.FunctionDef) and n is not M.fn and n.name == pred.id:
                body = [s_ for s_ in n.body if not (isinstance(s_, ast.Expr) and isinstance(s_.value, ast.Constant))]
                params = [a.arg for a in n.args.args]
                if len(params) == 1 and len(body) == 1 and isinstance(body[0], ast.Return) and body[0].value is not None:
                    return mk(body[0].value, params[0])
                return None
    if isinstance(pred, (ast.Name, ast.Attribute)):
        return _function_as_lambda(M, pred)
    return None


def find_selection(M: Model, m_expr: ast.expr, ev: Event) -> Selection | str:
    sub = M.helper_subst()
    if isinstance(m_expr, ast.Subscript) and isinstance(m_expr.slice, ast.Constant) and m_expr.slice.value == 0 and isinstance(m_expr.value, ast.Name) and pair_var(M, m_expr.value.id) is not None:
        # pair[0] of an (aliased module, alias) item: the selection is the selection of the pair
        got = find_selection(M, ast.Name(id=m_expr.value.id, ctx=ast.Load()), ev)
        if isinstance(got, str):
            return got
        got.cand = f"{got.cand}[0]"
        return got
    if isinstance(m_expr, ast.Attribute) and isinstance(m_expr.value, ast.Name):
        info = obj_var(M, m_expr.value.id)
        if info is not None and m_expr.attr == info["module"]:
            got = find_selection(M, ast.Name(id=m_expr.value.id, ctx=ast.Load()), ev)
            if isinstance(got, str):
                return got
            got.cand = f"{got.cand}.{info['module']}"
            return got
    if isinstance(m_expr, ast.Subscript) and isinstance(m_expr.slice, ast.Slice) and m_expr.slice.lower is None and m_expr.slice.step is None and isinstance(m_expr.slice.upper, ast.Name) and ev.n is not None and _is_name(m_expr.value, ev.n):
        got = _index_walk(M, m_expr.slice.upper.id, ev)
        if not isinstance(got, Selection):
            from .c17_walks import index_walk_after

            got2 = index_walk_after(M, m_expr.slice.upper.id, ev)  # result used after the loop, None sentinel, memo
            if got2 is not None:
                return got2
        if got is not None:
            return got
    if not isinstance(m_expr, ast.Name):
        # <filtered candidates>[0] / [-1]
        if isinstance(m_expr, ast.Subscript) and isinstance(m_expr.slice, (ast.Constant, ast.UnaryOp)):
            idx = m_expr.slice.value if isinstance(m_expr.slice, ast.Constant) else (-m_expr.slice.operand.value if isinstance(m_expr.slice.op, ast.USub) and isinstance(m_expr.slice.operand, ast.Constant) else None)
            inner, outer_sort = m_expr.value, None
            if isinstance(inner, ast.Call) and isinstance(inner.func, ast.Name) and inner.func.id == "sorted" and len(inner.args) == 1:
                outer_sort, inner = inner, inner.args[0]
            comp = _comp_of(M, inner)
            if comp is not None and idx in (0, -1):
                cand, D, ifs = comp
                P = f_and([to_formula(c, sub) for c in ifs])
                disc = "first" if idx == 0 else "last"
                if outer_sort is not None:
                    o = _sorted_order(M, outer_sort.keywords, False)
                    if o is None:
                        return f"`{norm(m_expr, 70)}`: sort order of the matching candidates not recognised"
                    disc = "longest" if (o == "desc") == (idx == 0) else "shortest"
                return Selection(cand, D, P, disc, None, ev.node, [m_expr])
        # an expression computed from the variable of an enclosing loop (the local it was bound to has been substituted)
        text = norm(m_expr, 400)
        for L in reversed(M.loops_around(ev.node)):
            if isinstance(L.target, ast.Name) and any(isinstance(x, ast.Name) and x.id == L.target.id for x in ast.walk(m_expr)):
                i = L.target.id
                D = ast.ListComp(elt=m_expr, generators=[ast.comprehension(target=ast.Name(id=i, ctx=ast.Store()), iter=M.resolve(L.iter), ifs=[], is_async=0)])
                disc = "first" if _followed_by_break(M, ev.node, L) else "every"
                return Selection(text, D, ev_guard(M, ev, L), disc, L, L, [c[0] for c in M.cond_list(ev.node)])
        return f"how `{norm(m_expr, 60)}` is chosen among the aliased modules is not recognised"
    m = m_expr.id
    if ev.inline_sel is not None and ev.inline_sel[0] == m:
        cand, D, ifs = ev.inline_sel
        return Selection(cand, M.resolve(D), f_and([to_formula(M.resolve(c, frozenset({cand})), sub) for c in ifs]), "first", None, ev.node, [D, *ifs])
    bs = M.binds.get(m, [])
    if not bs:
        return f"`{m}` is not bound in draw()"
    # (a) loop variable of an enclosing loop
    if len(bs) == 1 and bs[0].kind == "for" and any(L is bs[0].stmt for L in M.loops_around(ev.node)):
        L = bs[0].stmt
        P = ev_guard(M, ev, L)
        disc = "first" if _followed_by_break(M, ev.node, L) else "every"
        srcs = [c[0] for c in M.cond_list(ev.node)]
        return Selection(m, M.resolve(L.iter), P, disc, L, L, srcs)
    # (b) bound once to next(...) / max(...) / min(...)
    if len(bs) == 1 and bs[0].kind == "assign" and isinstance(bs[0].value, ast.Call) and isinstance(bs[0].value.func, ast.Name):
        call = bs[0].value
        fn = call.func.id
        if fn in ("next", "max", "min") and call.args:
            comp = _comp_of(M, call.args[0])
            if comp is None:
                return f"`{norm(call, 70)}`: the candidates are not a filter over a collection"
            cand, D, ifs = comp
            P = f_and([to_formula(c, sub) for c in ifs])
            if fn == "next":
                disc = "first"
            else:
                key = next((k.value for k in call.keywords if k.arg == "key"), None)
                sk = _spec_key(M, key, False)
                if sk not in ("spec", "lex"):
                    return f"`{norm(call, 70)}`: the key of {fn}() is not the length / depth of the name"
                disc = "longest" if fn == "max" else "shortest"
            return Selection(cand, D, P, disc, None, bs[0].stmt, [call])
    # (c) selection variable: assigned the loop variable of a search loop (and None / a default elsewhere)
    assigns = [b for b in bs if b.kind == "assign" and b.value is not None]
    if len(assigns) == len(bs) and len(bs) >= 1:
        hits = []
        for b in assigns:
            v = M.resolve(b.value) if not isinstance(b.value, ast.Name) else b.value
            if isinstance(v, ast.Name):
                lb = M.loop_binding(v.id)
                if lb is not None and lb.kind == "for" and any(L is lb.stmt for L in M.loops_around(b.stmt)):
                    hits.append((b, v.id, lb.stmt))
                    continue
            if isinstance(b.value, ast.Constant):
                continue
            hits = []
            break
        if hits and len({(cand, id(L)) for _b, cand, L in hits}) == 1:
            # one or several hit sites in the same search loop (`if n == c: m = c; break` / `if n.startswith(c + "."): m = c; break`)
            _b0, cand, L = hits[0]
            P = f_or([M.guard(b.stmt, relative_to=L) for b, _c, _l in hits])
            disc = "first" if all(_followed_by_break(M, b.stmt, L) for b, _c, _l in hits) else "last"
            srcs = [c[0] for b, _c, _l in hits for c in M.cond_list(b.stmt)]
            return Selection(cand, M.resolve(L.iter), P, disc, L, L, srcs)
    # (d) candidate computed from the variable of an enclosing loop:  for i in R: m = f(i); ...
    if len(bs) == 1 and bs[0].kind == "assign":
        for L in reversed(M.loops_around(ev.node)):
            if any(L is x for x in M.loops_around(bs[0].stmt)) and isinstance(L.target, ast.Name):
                i = L.target.id
                val = M.resolve(bs[0].value)
                if any(isinstance(x, ast.Name) and x.id == i for x in ast.walk(val)):
                    D = ast.ListComp(elt=val, generators=[ast.comprehension(target=ast.Name(id=i, ctx=ast.Store()), iter=M.resolve(L.iter), ifs=[], is_async=0)])
                    P = ev_guard(M, ev, L)
                    disc = "first" if _followed_by_break(M, ev.node, L) else "every"
                    return Selection(m, D, P, disc, L, L, [c[0] for c in M.cond_list(ev.node)] + [bs[0].value])
                break
    # (e) walk up the parents in a while loop:  m = n; while ...: <use m>; m = parent_of(m)      or
    #     m = n; while m not in aliases: m = parent_of(m); if not m: <default>   else/afterwards: <use m>
    if len(bs) == 2 and all(b.kind == "assign" for b in bs) and ev.n is not None:
        inside = [b for b in bs if any(isinstance(x, ast.While) for x in M.loops_around(b.stmt, whiles=True))]
        outside = [b for b in bs if b not in inside]
        if len(inside) == 1 and len(outside) == 1 and _is_name(M.resolve(outside[0].value), ev.n) and _parent_of(M.resolve(inside[0].value) if not _parent_of(inside[0].value, m) else inside[0].value, m):
            W = [x for x in M.loops_around(inside[0].stmt, whiles=True) if isinstance(x, ast.While)][-1]
            if any(x is W for x in M.loops_around(ev.node, whiles=True)):
                cs = [c for c in M.cond_list(ev.node) if id(c[0]) != id(W.test)]
                outer = {id(c[0]) for c in M.cond_list(W)}
                within = {id(x) for x in ast.walk(W)}
                P = f_and([M.formula(e, pol) for e, pol in cs if id(e) not in outer and id(e) in within] + [M.formula(e, pol) for e, pol in ev.extra])
                disc = "first" if _followed_by_break(M, ev.node, W) else "every"
                return Selection(m, ast.Name(id=m, ctx=ast.Load()), P, disc, W, W, [c[0] for c in cs], known=("lineage", "near"))
            after = M.in_else_of(ev.node) is W or (not _own_breaks_of(W) and _follows(ev.node, W))
            if after:
                # the loop runs while the candidate does NOT match: what follows it sees the first candidate that does
                P = f_not(M.formula(W.test))
                return Selection(m, ast.Name(id=m, ctx=ast.Load()), P, "first", W, W, [W.test], known=("lineage", "near"))
    return f"how `{m}` is chosen among the aliased modules is not recognised"


def _own_breaks_of(loop: ast.AST) -> bool:
    from .c17_view import _own_breaks

    return _own_breaks(loop)


def _follows(node: ast.AST, loop: ast.AST) -> bool:
    """`node` is (inside) a statement that comes after `loop` in the same block"""
    p = parent(loop)
    for fld in ("body", "orelse", "finalbody"):
        blk = getattr(p, fld, None)
        if isinstance(blk, list) and loop in blk:
            later = blk[blk.index(loop) + 1:]
            return any(any(x is node for x in ast.walk(st)) for st in later)
    return False


def _parent_of(e: ast.expr, m: str) -> bool:
    """`e` = the dotted name `m` without its last component: m.rpartition('.')[0] | m.rsplit('.', 1)[0] | m[:m.rindex('.')] | '.'.join(m.split('.')[:-1])"""
    if isinstance(e, ast.Subscript) and isinstance(e.slice, ast.Constant) and e.slice.value == 0 and isinstance(e.value, ast.Call) and isinstance(e.value.func, ast.Attribute) and _is_name(e.value.func.value, m):
        c = e.value
        if c.func.attr == "rpartition" and len(c.args) == 1 and const_str(c.args[0]) == ".":
            return True
        if c.func.attr == "rsplit" and len(c.args) == 2 and const_str(c.args[0]) == "." and isinstance(c.args[1], ast.Constant) and c.args[1].value == 1:
            return True
    if isinstance(e, ast.Subscript) and isinstance(e.slice, ast.Slice) and e.slice.lower is None and e.slice.step is None and _is_name(e.value, m):
        u = e.slice.upper
        if isinstance(u, ast.Call) and isinstance(u.func, ast.Attribute) and u.func.attr in ("rindex", "rfind") and _is_name(u.func.value, m) and len(u.args) == 1 and const_str(u.args[0]) == ".":
            return True
    if isinstance(e, ast.Call) and isinstance(e.func, ast.Attribute) and e.func.attr == "join" and const_str(e.func.value) == "." and len(e.args) == 1:
        a = e.args[0]
        if isinstance(a, ast.Subscript) and isinstance(a.slice, ast.Slice) and a.slice.lower is None and a.slice.step is None and _split_of(a.value, m):
            u = a.slice.upper
            if isinstance(u, ast.UnaryOp) and isinstance(u.op, ast.USub) and isinstance(u.operand, ast.Constant) and u.operand.value == 1:
                return True
    return False


# =========================================================================== candidate domain and order


def _spec_key(M: Model, key: ast.expr | None, items: bool) -> str | None:
    """sort key: 'spec' = length or number of components of the name, 'negspec' = its negation, 'lex' = the name itself, None = unknown"""
    if key is None:
        return "lex"
    if isinstance(key, ast.Name) and key.id == "len" and not items:
        return "spec"
    if isinstance(key, ast.Name) and key.id == "len" and items is True:
        return "constant"  # len of a (module, alias) pair is always 2: the sort keeps the order of the mapping
    if isinstance(key, ast.Attribute) and key.attr == "__len__" and isinstance(key.value, ast.Name) and key.value.id == "str" and not items:
        return "spec"
    if isinstance(key, (ast.Name, ast.Attribute)) and not isinstance(key, ast.Lambda):
        lam = _function_as_lambda(M, key)
        if lam is not None:
            key = lam
    if isinstance(key, ast.Lambda) and len(key.args.args) == 1 and not key.args.defaults:
        p = key.args.args[0].arg

        if isinstance(items, tuple) and len(items) > 2 and items[2] is not None:
            # properties of the per-alias object (`alias.depth`) stand for their bodies
            props = items[2]

            class PX(ast.NodeTransformer):
                def visit_Attribute(self, node):  # noqa: N802
                    self.generic_visit(node)
                    if isinstance(node.value, ast.Name) and node.value.id == p and node.attr in props:
                        selfname, body = props[node.attr]

                        class S(ast.NodeTransformer):
                            def visit_Name(self, n2):  # noqa: N802
                                return ast.Name(id=p, ctx=ast.Load()) if n2.id == selfname else n2

                        from .c17_model import _copy_node

                        return S().visit(_copy_node(body, keep=()))
                    return node

            from .c17_model import _copy_node as _cn

            key = ast.Lambda(args=key.args, body=PX().visit(_cn(key.body, keep=())))

        def is_name_expr(e: ast.AST) -> bool:
            if isinstance(items, tuple):
                return isinstance(e, ast.Attribute) and _is_name(e.value, p) and e.attr == items[1]
            if items:
                return isinstance(e, ast.Subscript) and _is_name(e.value, p) and isinstance(e.slice, ast.Constant) and e.slice.value == 0
            return _is_name(e, p)

        def spec(e: ast.AST) -> str | None:
            if isinstance(e, ast.UnaryOp) and isinstance(e.op, ast.USub):
                s = spec(e.operand)
                return {"spec": "negspec", "negspec": "spec"}.get(s or "")
            if isinstance(e, ast.Tuple) and e.elts:
                return spec(e.elts[0])
            if isinstance(e, ast.Call) and isinstance(e.func, ast.Name) and e.func.id == "len" and len(e.args) == 1:
                a = e.args[0]
                if is_name_expr(a):
                    return "spec"
                if isinstance(a, ast.Call) and isinstance(a.func, ast.Attribute) and a.func.attr == "split" and is_name_expr(a.func.value) and len(a.args) == 1 and const_str(a.args[0]) == ".":
                    return "spec"
            if isinstance(e, ast.Call) and isinstance(e.func, ast.Attribute) and e.func.attr == "count" and is_name_expr(e.func.value) and len(e.args) == 1 and const_str(e.args[0]) == ".":
                return "spec"
            if isinstance(e, ast.BinOp) and isinstance(e.op, ast.Add) and isinstance(e.right, ast.Constant) and isinstance(e.right.value, int):
                return spec(e.left)
            if is_name_expr(e):
                return "lex"
            return None

        got = spec(key.body)
        if got is None and M.mentions_A(key.body):
            return "foreign"  # e.g. the length of the alias text
        return got
    return None


def _function_as_lambda(M: Model, ref: ast.expr) -> ast.Lambda | None:
    """`key=self._depth` / `key=_depth` where the repo function is `def _depth(x): return <expr>`  ->  `lambda x: <expr>`"""
    from .common import types_of

    ctx, orig = getattr(ref, "_src", None) or getattr(ref, "_orig", None) or (M.V, ref)
    try:
        t = types_of(M.repo).expr(ctx, orig)
    except Exception:  # noqa: BLE001
        return None
    from core.types import members

    fns = [m[1] for m in members(t) if m[0] == "fn"]
    if len(fns) != 1 or isinstance(fns[0].node, ast.Lambda):
        return None
    f = fns[0]
    params = list(f.param_names)
    if f.cls is not None and f.outer is None and not f.is_staticmethod and params:
        params = params[1:]
    body = [s for s in f.node.body if not (isinstance(s, ast.Expr) and isinstance(s.value, ast.Constant))]
    if len(params) != 1 or len(body) != 1 or not isinstance(body[0], ast.Return) or body[0].value is None:
        return None
    return ast.Lambda(args=ast.arguments(posonlyargs=[], args=[ast.arg(arg=params[0])], kwonlyargs=[], kw_defaults=[], defaults=[]), body=body[0].value)


def _sorted_order(M: Model, keywords, items: bool) -> str | None:
    kw = {k.arg: k.value for k in keywords}
    if set(kw) - {"key", "reverse"}:
        return None
    sk = _spec_key(M, kw.get("key"), items)
    rev = kw.get("reverse")
    if rev is None:
        r = False
    elif isinstance(rev, ast.Constant) and isinstance(rev.value, bool):
        r = rev.value
    else:
        return None
    if sk in ("spec", "lex"):
        return "desc" if r else "asc"
    if sk == "negspec":
        return "asc" if r else "desc"
    if sk == "foreign":
        return "foreign"
    if sk == "constant":
        return "mapping"
    return None


def _flip(o: str | None) -> str | None:
    return {"desc": "asc", "asc": "desc", "near": "far", "far": "near", "mapping": "mapping"}.get(o or "")


def _parents_call(e: ast.AST, n: str) -> bool:
    return isinstance(e, ast.Call) and ((isinstance(e.func, ast.Name) and e.func.id == "get_parent_modules") or (isinstance(e.func, ast.Attribute) and e.func.attr == "get_parent_modules")) and len(e.args) == 1 and _is_name(e.args[0], n)


def filtered_keys(M: Model, e: ast.expr, n: str):
    """resolved `e` = the aliased modules (or items) restricted by a condition: `(k for k, a in aliases.items() if a != k)`,
    `[k for k in aliases if ...]`, `filter(lambda k: ..., aliases)`.
    -> (kind 'keys' | 'items', status, text of the filter);  status: 'nodes' = only existing graph nodes are kept (implied by the
    existence check), 'match' = the condition relates the candidate to the module being labelled (a pre-match), 'foreign' = a
    condition on the aliased module / the alias alone: some aliased module can never be chosen."""
    var, ifs, kind = None, None, None
    if isinstance(e, (ast.ListComp, ast.SetComp, ast.GeneratorExp)) and len(e.generators) == 1 and e.generators[0].ifs:
        g = e.generators[0]
        base = M.keys_of_A(g.iter)
        if base == "keys" and isinstance(g.target, ast.Name) and isinstance(e.elt, ast.Name) and e.elt.id == g.target.id:
            var, ifs, kind = g.target.id, g.ifs, "keys"
        elif base == "items" and isinstance(g.target, (ast.Tuple, ast.List)) and len(g.target.elts) == 2 and all(isinstance(x, ast.Name) for x in g.target.elts):
            if isinstance(e.elt, ast.Name) and e.elt.id == g.target.elts[0].id:
                var, ifs, kind = g.target.elts[0].id, g.ifs, "keys"
            elif isinstance(e.elt, (ast.Tuple, ast.List)) and len(e.elt.elts) == 2 and all(isinstance(x, ast.Name) for x in e.elt.elts) and [x.id for x in e.elt.elts] == [x.id for x in g.target.elts]:
                var, ifs, kind = g.target.elts[0].id, g.ifs, "items"
    elif isinstance(e, ast.Call) and isinstance(e.func, ast.Name) and e.func.id == "filter" and len(e.args) == 2 and M.keys_of_A(e.args[1]) == "keys":
        pred = _predicate_as_lambda(M, e.args[0])
        if pred is not None:
            var, ifs, kind = pred.args.args[0].arg, [pred.body], "keys"
    if var is None:
        return None
    f = f_and([to_formula(c, M.helper_subst()) for c in ifs])
    text = " and ".join(norm(c, 60) for c in ifs)
    statuses = set()
    for a in atoms_of(f):
        pa = parse_atom(a)
        m = M.node_membership(pa) if pa is not None else None
        if m is not None and _is_name(m[0], var) and m[2] == "all":
            statuses.add("nodes")
        elif n and classify_atom(M, a, n, var, set()) not in ("other", "in-keys", "alias-truthy", "label-text", "labelled"):
            statuses.add("match")
        elif n and pa is not None and any(isinstance(x, ast.Name) and x.id == n for x in ast.walk(pa)):
            statuses.add("unknown")  # depends on the module being labelled in a way that is not read
        else:
            statuses.add("foreign")
    if "foreign" in statuses:
        return kind, "foreign", text
    if statuses == {"nodes"}:
        return kind, "nodes", text
    return kind, ("match" if statuses == {"match"} else "unknown"), text


def domain_order(M: Model, e: ast.expr, n: str, depth: int = 0) -> tuple[str | None, str | None]:
    """(domain, order) of a resolved candidate collection.
    domain: 'keys' | 'items' (all aliased names) | 'lineage' (n and its ancestors) | 'parents' (ancestors of n only)
    order:  'desc' | 'asc' (by specificity) | 'mapping' (order of the alias dict) | 'near' | 'far' (distance from n)"""
    if depth > 8:
        return None, None
    if n and depth < 4:
        from .c17_domain import indexed_candidates

        got = indexed_candidates(M, e, n, lambda M_, e_, n_: domain_order(M_, e_, n_, depth + 1))
        if got is not None:
            return got  # the aliased modules of the module's top-level package, looked up in an index built with groupby
    if isinstance(e, ast.Call) and isinstance(e.func, ast.Name) and e.func.id in ("list", "tuple", "iter") and len(e.args) == 1 and not e.keywords:
        return domain_order(M, e.args[0], n, depth + 1)
    if isinstance(e, ast.Call) and isinstance(e.func, ast.Name) and e.func.id == "sorted" and len(e.args) == 1:
        d, _o = domain_order(M, e.args[0], n, depth + 1)
        if d is not None and d.startswith("filtered:"):
            kind = d.split(":", 1)[1]
            return d, _sorted_order(M, e.keywords, kind == "items")
        if d == "objs":
            info = object_items(M, e.args[0])
            return d, (_sorted_order(M, e.keywords, ("attr", info["module"], info.get("props"))) if info and info.get("module") else None)
        if d in ("keys", "items"):
            return d, _sorted_order(M, e.keywords, d == "items")
        if d in ("lineage", "parents"):
            o = _sorted_order(M, e.keywords, False)
            return d, {"desc": "near", "asc": "far"}.get(o or "")
        return None, None
    if isinstance(e, ast.Call) and isinstance(e.func, ast.Name) and e.func.id == "reversed" and len(e.args) == 1:
        d, o = domain_order(M, e.args[0], n, depth + 1)
        return d, _flip(o)
    if isinstance(e, ast.Subscript) and isinstance(e.slice, ast.Slice):
        s = e.slice
        if s.lower is None and s.upper is None and isinstance(s.step, ast.UnaryOp) and isinstance(s.step.op, ast.USub) and isinstance(s.step.operand, ast.Constant) and s.step.operand.value == 1:
            d, o = domain_order(M, e.value, n, depth + 1)
            return d, _flip(o)
        return None, None
    k = M.keys_of_A(e)
    if k is not None and not (isinstance(e, ast.Call) and isinstance(e.func, ast.Name) and e.func.id in ("sorted", "reversed")):
        return k, "mapping"
    fk = filtered_keys(M, e, n)
    if fk is not None:
        kind, status, text = fk
        if status == "nodes":
            return kind, "mapping"  # restricted to existing nodes: implied by the existence check
        if status == "foreign":
            M.__dict__.setdefault("_domain_filters", {})[kind] = text
            return "filtered:" + kind, "mapping"
        return None, None
    if object_items(M, e) is not None:
        return "objs", "mapping"
    if _parents_call(e, n):
        return "parents", "far"  # get_parent_modules lists the root first
    # [n] + <parents>   /   [n, *<parents>]
    head, tail = None, None
    if isinstance(e, ast.BinOp) and isinstance(e.op, ast.Add) and isinstance(e.left, (ast.List, ast.Tuple)) and len(e.left.elts) == 1:
        head, tail = e.left.elts[0], e.right
    elif isinstance(e, (ast.List, ast.Tuple)) and len(e.elts) == 2 and isinstance(e.elts[1], ast.Starred):
        head, tail = e.elts[0], e.elts[1].value
    if head is not None and _is_name(head, n):
        d, o = domain_order(M, tail, n, depth + 1)
        if d == "parents":
            # n, parent ... root = nearest first;  n, root ... parent: the module itself, then its ancestors root first
            return "lineage", {"near": "near", "far": "self-then-far"}.get(o or "")
        return None, None
    if isinstance(e, (ast.List, ast.Tuple)) and len(e.elts) == 2 and isinstance(e.elts[0], ast.Starred) and _is_name(e.elts[1], n):
        # [*<parents>, n]  is  <parents> + [n]
        e = ast.BinOp(left=e.elts[0].value, op=ast.Add(), right=ast.List(elts=[e.elts[1]], ctx=ast.Load()))
    if isinstance(e, ast.BinOp) and isinstance(e.op, ast.Add) and isinstance(e.right, (ast.List, ast.Tuple)) and len(e.right.elts) == 1 and _is_name(e.right.elts[0], n):
        d, o = domain_order(M, e.left, n, depth + 1)
        if d == "parents":
            # root ... parent, n  is the exact reverse of  n, parent ... root
            return "lineage", {"far": "far", "near": "mixed"}.get(o or "")
    # itertools.chain([n], <parents>)
    if isinstance(e, ast.Call) and ((isinstance(e.func, ast.Name) and e.func.id == "chain") or (isinstance(e.func, ast.Attribute) and e.func.attr == "chain")) and len(e.args) == 2 and not e.keywords:
        h = e.args[0]
        if isinstance(h, (ast.List, ast.Tuple)) and len(h.elts) == 1 and _is_name(h.elts[0], n):
            d, o = domain_order(M, e.args[1], n, depth + 1)
            if d == "parents":
                return "lineage", {"near": "near", "far": "self-then-far"}.get(o or "")
        return None, None
    # dotted prefixes by component count:  ".".join(parts[:i]) for i in range(len(parts), 0, -1)   (parts = n.split("."))
    if isinstance(e, (ast.ListComp, ast.GeneratorExp)) and len(e.generators) == 1 and not e.generators[0].ifs and isinstance(e.generators[0].target, ast.Name):
        g = e.generators[0]
        i = g.target.id
        el = e.elt
        if isinstance(el, ast.Call) and isinstance(el.func, ast.Attribute) and el.func.attr == "join" and const_str(el.func.value) == "." and len(el.args) == 1:
            a = el.args[0]
            if isinstance(a, ast.Subscript) and isinstance(a.slice, ast.Slice) and a.slice.lower is None and a.slice.step is None and _is_name(a.slice.upper, i) and _split_of(a.value, n):
                r = g.iter
                if isinstance(r, ast.Call) and isinstance(r.func, ast.Name) and r.func.id == "reversed" and len(r.args) == 1:
                    d, o = _prefix_range(r.args[0], n)
                    return d, _flip(o)
                return _prefix_range(r, n)
    # a generator helper that yields the module and then its parents
    if isinstance(e, ast.Call):
        from .c17_chain import chain_call

        ch = chain_call(M, e, n)
        if ch is not None:
            return ch  # a generator that cuts the name at its last '.' again and again (rules/c17_chain.py)
        syn = _generator_as_list(M, e)
        if syn is not None:
            return domain_order(M, syn, n, depth + 1)
    # a list bound once and then sorted / reversed in place
    if isinstance(e, ast.Name):
        v = M.single_value(e.id)
        sorts = M.in_place_sorts(e.id)
        if v is not None and sorts:
            d, o = domain_order(M, M.resolve(v), n, depth + 1)
            for s in sorts:
                if s.func.attr == "reverse":
                    o = _flip(o)
                elif d in ("keys", "items"):
                    o = _sorted_order(M, s.keywords, d == "items")
                elif d in ("lineage", "parents"):
                    o = {"desc": "near", "asc": "far"}.get(_sorted_order(M, s.keywords, False) or "")
            return d, o
    return None, None


def _len_parts(e: ast.AST, n: str, plus: int = 0) -> bool:
    """len(n.split('.')) + plus"""
    if plus and isinstance(e, ast.BinOp) and isinstance(e.op, ast.Add) and isinstance(e.right, ast.Constant) and e.right.value == plus:
        return _len_parts(e.left, n)
    if plus:
        return False
    if isinstance(e, ast.Call) and isinstance(e.func, ast.Name) and e.func.id == "len" and len(e.args) == 1 and _split_of(e.args[0], n):
        return True
    return _ncomp_of(e, n)


def _prefix_range(r: ast.AST, n: str) -> tuple[str | None, str | None]:
    if not (isinstance(r, ast.Call) and isinstance(r.func, ast.Name) and r.func.id == "range" and not r.keywords):
        return None, None
    a = r.args
    const = lambda x, v: isinstance(x, ast.Constant) and x.value == v or (v < 0 and isinstance(x, ast.UnaryOp) and isinstance(x.op, ast.USub) and isinstance(x.operand, ast.Constant) and x.operand.value == -v)  # noqa: E731
    if len(a) == 3 and _len_parts(a[0], n) and const(a[1], 0) and const(a[2], -1):
        return "lineage", "near"
    if len(a) == 2 and const(a[0], 1) and _len_parts(a[1], n, plus=1):
        return "lineage", "far"
    if len(a) == 3 and const(a[0], 1) and _len_parts(a[1], n, plus=1) and const(a[2], 1):
        return "lineage", "far"
    if len(a) == 2 and const(a[0], 1) and _len_parts(a[1], n):
        return "parents", "far"
    return None, None


def _generator_as_list(M: Model, call: ast.Call) -> ast.expr | None:
    """`helper(x)` where helper is a repo generator `yield p; yield from E` / `yield p; for a in E: yield a`  ->  `[x] + list(E[p:=x])`"""
    from .common import types_of

    ctx, orig = getattr(call, "_src", getattr(call, "_orig", (M.V, call)))
    if not isinstance(orig, ast.Call):
        return None
    try:
        cs, how = types_of(M.repo).callees(ctx, orig, byname_fallback=False)
    except Exception:  # noqa: BLE001
        return None
    if len(cs) != 1 or how != "repo" or isinstance(cs[0].node, ast.Lambda):
        return None
    f = cs[0]
    params = [p for p in f.param_names]
    if f.cls is not None and f.outer is None and not f.is_staticmethod and params:
        params = params[1:]
    if len(params) != 1 or len(call.args) != 1 or call.keywords:
        return None
    p = params[0]
    body = [s for s in f.node.body if not (isinstance(s, ast.Expr) and isinstance(s.value, ast.Constant))]
    if len(body) != 2 or not (isinstance(body[0], ast.Expr) and isinstance(body[0].value, ast.Yield) and isinstance(body[0].value.value, ast.Name) and body[0].value.value.id == p):
        return None
    second = body[1]
    tail = None
    if isinstance(second, ast.Expr) and isinstance(second.value, ast.YieldFrom):
        tail = second.value.value
    elif isinstance(second, ast.For) and isinstance(second.target, ast.Name) and len(second.body) == 1 and isinstance(second.body[0], ast.Expr) and isinstance(second.body[0].value, ast.Yield) and isinstance(second.body[0].value.value, ast.Name) and second.body[0].value.value.id == second.target.id and not second.orelse:
        tail = second.iter
    if tail is None:
        return None
    arg = call.args[0]

    class S(ast.NodeTransformer):
        def visit_Name(self, node):  # noqa: N802
            return arg if node.id == p else node

    from .c17_model import _copy_node

    tail2 = S().visit(_copy_node(tail, keep=()))
    return ast.BinOp(left=ast.List(elts=[arg], ctx=ast.Load()), op=ast.Add(), right=tail2)


# =========================================================================== match predicate


def _dotted(e: ast.AST, c: str) -> bool:
    """`e` is the text "<c>." """
    if isinstance(e, ast.JoinedStr) and len(e.values) >= 2 and isinstance(e.values[0], ast.FormattedValue) and _is_name(e.values[0].value, c) and e.values[0].conversion == -1:
        # f"{c}." / f"{c}{SEPARATOR}" with the separator constant folded in
        rest = [const_str(v) if not isinstance(v, ast.FormattedValue) else (const_str(v.value) if v.conversion == -1 and v.format_spec is None else None) for v in e.values[1:]]
        if all(r is not None for r in rest) and "".join(rest) == ".":
            return True
    if isinstance(e, ast.BinOp) and isinstance(e.op, ast.Add) and _is_name(e.left, c) and const_str(e.right) == ".":
        return True
    if isinstance(e, ast.Call) and isinstance(e.func, ast.Attribute) and e.func.attr == "format" and const_str(e.func.value) == "{}." and len(e.args) == 1 and _is_name(e.args[0], c):
        return True
    if isinstance(e, ast.BinOp) and isinstance(e.op, ast.Mod) and const_str(e.left) == "%s." and _is_name(e.right, c):
        return True
    return False


def classify_atom(M: Model, text: str, n: str, c: str, label_names: set[str]) -> str:
    """self | proper | self+proper | raw | in-keys | label-text | labelled | other"""
    e = parse_atom(text)
    if e is None:
        return "other"
    if isinstance(e, ast.Call) and isinstance(e.func, ast.Name) and e.func.id == "bool" and len(e.args) == 1:
        e = e.args[0]
    # truthiness of the alias text / `aliases.get(c) is None`
    am = alias_of(M, e) if isinstance(e, ast.expr) else None
    if am is not None and _is_name(am, c):
        return "alias-truthy"
    if isinstance(e, ast.Compare) and len(e.ops) == 1 and isinstance(e.ops[0], ast.Is) and isinstance(e.comparators[0], ast.Constant) and e.comparators[0].value is None:
        am = alias_of(M, e.left)
        if am is not None and _is_name(am, c) and isinstance(e.left, ast.Call):
            return "neg:in-keys"
    if isinstance(e, ast.Compare) and len(e.ops) == 1:
        l, op, r = e.left, e.ops[0], e.comparators[0]
        if isinstance(op, ast.Eq):
            if {norm(l), norm(r)} == {n, c}:
                return "self"
            for a, b in ((l, r), (r, l)):
                # n.split(".")[:ncomp(c)] == c.split(".")
                if isinstance(a, ast.Subscript) and isinstance(a.slice, ast.Slice) and a.slice.lower is None and a.slice.step is None and a.slice.upper is not None and _split_of(a.value, n) and _split_of(b, c):
                    up = a.slice.upper
                    if _ncomp_of(up, c) or (isinstance(up, ast.Call) and isinstance(up.func, ast.Name) and up.func.id == "len" and len(up.args) == 1 and _split_of(up.args[0], c)):
                        return "self+proper"
                # label text compared with the name
                if isinstance(a, ast.Subscript) and isinstance(a.value, ast.Name) and a.value.id in label_names and _is_name(b, n):
                    return "label-text"
                if isinstance(a, ast.Call) and isinstance(a.func, ast.Attribute) and a.func.attr == "get" and isinstance(a.func.value, ast.Name) and a.func.value.id in label_names and _is_name(b, n):
                    return "label-text"
        if isinstance(op, ast.Is) and isinstance(l, ast.Subscript) and isinstance(l.value, ast.Name) and l.value.id in label_names and _is_name(r, n):
            return "label-text"
        if isinstance(op, ast.In):
            if _is_name(l, c) and _parents_call(r, n):
                return "proper"
            if _is_name(l, c) and M.keys_of_A(r) == "keys":
                return "in-keys"
            if _is_name(l, n) and isinstance(r, ast.Name) and r.id in label_names:
                return "labelled"
            if _is_name(l, n) and isinstance(r, ast.Name) and any(
                isinstance(x, ast.Call) and isinstance(x.func, ast.Attribute) and x.func.attr in ("add", "append") and isinstance(x.func.value, ast.Name) and x.func.value.id == r.id and len(x.args) == 1 and _is_name(x.args[0], n)
                for x in _walk_own(M.fn.body)
            ):
                return "labelled"  # a 'done' collection the module is put into when its label is written
    if isinstance(e, ast.Call) and isinstance(e.func, ast.Attribute) and e.func.attr == "startswith" and _is_name(e.func.value, n) and len(e.args) == 1:
        if _dotted(e.args[0], c):
            return "proper"
        if _is_name(e.args[0], c):
            return "raw"
        if isinstance(e.args[0], ast.Tuple) and e.args[0].elts:
            # str.startswith(tuple): true if ANY element is a prefix - with the bare name among them it is a plain prefix test
            if any(_is_name(x, c) for x in e.args[0].elts):
                return "raw"
            if all(_dotted(x, c) for x in e.args[0].elts):
                return "proper"
    # n.removeprefix("<c>.") == n   <=>   n is NOT a proper sub module of c
    if isinstance(e, ast.Compare) and len(e.ops) == 1 and isinstance(e.ops[0], ast.Eq):
        for a, b in ((e.left, e.comparators[0]), (e.comparators[0], e.left)):
            if _is_name(b, n) and isinstance(a, ast.Call) and isinstance(a.func, ast.Attribute) and a.func.attr == "removeprefix" and _is_name(a.func.value, n) and len(a.args) == 1 and _dotted(a.args[0], c):
                return "neg:proper"
    # companions of a raw prefix test: what follows the prefix
    if isinstance(e, ast.Compare) and len(e.ops) == 1:
        l, op, r = e.left, e.ops[0], e.comparators[0]
        if isinstance(op, ast.Eq):
            for a, b in ((l, r), (r, l)):
                if _len_of(a, n) and _len_of(b, c):
                    return "raw:self"  # same length (with the prefix test: the module itself)
                if const_str(b) == "." and isinstance(a, ast.Subscript) and _is_name(a.value, n) and _len_of(a.slice, c):
                    return "raw:proper"  # the character after the prefix is the separator
                if const_str(b) == "" and _after_prefix(a, n, c):
                    return "raw:self"
        if isinstance(op, ast.In) and isinstance(r, (ast.Tuple, ast.List, ast.Set)) and sorted("?" if const_str(x) is None else const_str(x) for x in r.elts) == ["", "."]:
            a = l
            if isinstance(a, ast.Subscript) and isinstance(a.slice, ast.Slice) and _is_name(a.value, n) and a.slice.lower is not None and _len_of(a.slice.lower, c) and a.slice.upper is not None and isinstance(a.slice.upper, ast.BinOp) and isinstance(a.slice.upper.op, ast.Add) and _len_of(a.slice.upper.left, c) and isinstance(a.slice.upper.right, ast.Constant) and a.slice.upper.right.value == 1:
                return "raw:both"
            if isinstance(a, ast.Subscript) and isinstance(a.slice, ast.Slice) and a.slice.lower is None and isinstance(a.slice.upper, ast.Constant) and a.slice.upper.value == 1 and _after_prefix(a.value, n, c):
                return "raw:both"
    if isinstance(e, ast.Call) and isinstance(e.func, ast.Attribute) and e.func.attr == "startswith" and len(e.args) == 1 and const_str(e.args[0]) == "." and _after_prefix(e.func.value, n, c):
        return "raw:proper"
    if _after_prefix(e, n, c):
        return "raw:not-self"  # truthiness of the remainder
    return "other"


def _len_of(e: ast.AST, name: str) -> bool:
    return isinstance(e, ast.Call) and isinstance(e.func, ast.Name) and e.func.id == "len" and len(e.args) == 1 and _is_name(e.args[0], name)


def _after_prefix(e: ast.AST, n: str, c: str) -> bool:
    """n[len(c):]"""
    return isinstance(e, ast.Subscript) and isinstance(e.slice, ast.Slice) and _is_name(e.value, n) and e.slice.upper is None and e.slice.step is None and e.slice.lower is not None and _len_of(e.slice.lower, c)


# =========================================================================== the rule


def labels(C) -> None:
    M: Model = C.M
    r1, r2, r3 = "C17.R1", "C17.R2", "C17.R3"
    if C.label_value is None:
        if any(not o.ok for o in C.res.obligations if o.rule == "C17.R5"):
            return  # nothing is handed to the backend: reported by R5
        C.unsure(r3, "one label per node", "the value handed to the backend as 'labels' was not identified")
        return
    mode, roots = label_roots(M, C.label_value)
    outside = _outside_mapping(C, C.label_value)
    if outside is not None:
        C.res.add("C17.R6", C.base + "label mapping", False, f"the labels are accumulated in `{outside}`, an object that outlives the call: labels of earlier visualize calls (other aliases, other graphs) stay in it", M.where(C.label_store) if C.label_store is not None else "", kind="effect")
        return
    if not roots:
        C.unsure(r3, "one label per node", f"the labels handed to the backend (`{norm(C.label_value, 60)}`) are not a mapping built in the flattened draw()", C.label_store)
        return
    events: list[Event] = []
    label_names: set[str] = set()
    verdicts = []
    for root in roots:
        bs = M.binds.get(root, [])
        init_ok = len(bs) == 1 and bs[0].kind == "assign" and (
            (isinstance(bs[0].value, ast.Dict) and not bs[0].value.keys) or (isinstance(bs[0].value, ast.Call) and isinstance(bs[0].value.func, ast.Name) and bs[0].value.func.id == "dict" and not bs[0].value.args and not bs[0].value.keywords)
        )
        if not init_ok:
            C.unsure(r3, "one label per node", f"the label mapping `{root}` does not start out as an empty dict filled in draw() (`{norm(bs[0].value, 60) if bs and bs[0].value is not None else (bs[0].kind if bs else 'unbound')}`)", bs[0].stmt if bs else C.label_store)
            return
        evs, odd = collect_events(M, root)
        evs = [x for ev in evs for x in expand_event(M, ev)]
        for ev in evs:
            place_event(M, ev)
        names_ = _dict_names(M, root)
        hidden = remaining_helper_calls(C, about=lambda e, names_=names_: isinstance(e, ast.Name) and e.id in names_)
        if hidden:
            odd.append(f"`{norm(hidden[0], 60)}` receives the label mapping but could not be flattened into draw()")
        verdicts.append(_rule_every_node(C, evs, odd, root))
        events += evs
        label_names |= names_
    # ---- R3: every node, exactly one label (alternative mappings: each of them; merged mappings: one of them covers all nodes)
    what = "one label per node"
    oks = [v for v in verdicts if v[0] == "ok"]
    bads = [v for v in verdicts if v[0] == "bad"]
    uns = [v for v in verdicts if v[0] == "unsure"]
    if (mode == "merge" and oks) or (mode != "merge" and len(oks) == len(verdicts)):
        C.ok(r3, what, oks[0][1], oks[0][2])
    elif uns or (mode == "merge" and len(roots) > 1):
        v = (uns or bads)[0]
        C.unsure(r3, what, v[1], v[2])
    else:
        C.bad(r3, what, bads[0][1], bads[0][2])
    # ---- kinds of events
    for ev in events:
        if ev.value is None:
            ev.kind = "other"
            continue
        v = M.resolve(ev.value)
        if ev.n is not None and (_is_name(v, ev.n) or (isinstance(v, ast.Call) and isinstance(v.func, ast.Name) and v.func.id == "str" and len(v.args) == 1 and _is_name(v.args[0], ev.n))):
            ev.kind = "default"
        elif has_recursive_call(C, v, ev.n):
            ev.kind = "inductive"  # the label function calls itself (rules/c17_inductive.py)
        elif mentions_alias(M, v) or _uses_selection(M, v):
            ev.kind = "aliased"
        elif reads_label(C, v, label_names, ev.n):
            ev.kind = "inductive"  # derived from the label of another module (rules/c17_inductive.py)
        else:
            ev.kind = "other"
    _rule_default(C, events)
    C.all_events = events
    aliased = [ev for ev in events if ev.kind == "aliased"]
    inductive = [ev for ev in events if ev.kind == "inductive"]
    if not aliased:
        opaque = [ev for ev in events if ev.kind in ("other", "inductive")] or remaining_helper_calls(C)
        if any(ev.kind == "default" for ev in events) and not odd and not opaque:
            C.bad(r1, "label shape", "no label is ever built from an alias: the 'aliases' option has no effect on the labels", C.label_store)
        else:
            C.unsure(r1, "label shape", "no store of a label built from an alias was found in the flattened draw()", C.label_store)
        return
    self_event, n_selections, shape_open = _rule_aliased(C, aliased, events, label_names)
    if inductive:
        rule_inductive(C, inductive, events, label_names)
    elif self_event is not None and not n_selections and not shape_open and not any(ev.kind == "other" for ev in events) and not remaining_helper_calls(C):
        C.bad(r1, "ancestor test", f"an alias is only applied to the aliased module itself (`{norm(self_event.node, 70)}`): no store labels a module with the alias of an aliased ancestor, its sub modules keep their full names", self_event.node)


def _outside_mapping(C, e: ast.expr) -> str | None:
    """The mapping handed over as labels is (an alias of) a module-level object or an attribute of the graph object."""
    M: Model = C.M
    for _ in range(8):
        if isinstance(e, ast.Name):
            bs = M.binds.get(e.id, [])
            if not bs:
                mod = C.draw.module
                if e.id in mod.constants or e.id in getattr(mod, "imports", {}):
                    return e.id
                return None
            if len(bs) == 1 and bs[0].kind == "assign" and isinstance(bs[0].value, (ast.Name, ast.Attribute)):
                e = bs[0].value
                continue
            return None
        if isinstance(e, ast.Attribute) and isinstance(e.value, ast.Name) and e.value.id == M.selfname:
            return norm(e)
        return None
    return None


def label_roots(M: Model, e: ast.expr, depth: int = 0) -> tuple[str, list[str]]:
    """Locals that hold the label mapping: ('one', [x]) | ('alt', [...]) when different paths hand over different mappings |
    ('merge', [...]) for `{**a, **b}` / `a | b`."""
    if depth > 6:
        return "one", []
    if isinstance(e, ast.Dict) and e.keys and all(k is None for k in e.keys):
        out: list[str] = []
        for v in e.values:
            _m, r = label_roots(M, v, depth + 1)
            if not r:
                return "merge", []
            out += r
        return "merge", out
    if isinstance(e, ast.BinOp) and isinstance(e.op, ast.BitOr):
        _m1, r1_ = label_roots(M, e.left, depth + 1)
        _m2, r2_ = label_roots(M, e.right, depth + 1)
        return "merge", (r1_ + r2_ if r1_ and r2_ else [])
    if isinstance(e, ast.Call) and ((isinstance(e.func, ast.Name) and e.func.id == "dict" and len(e.args) == 1 and not e.keywords) or (isinstance(e.func, ast.Attribute) and e.func.attr == "copy" and not e.args)):
        return label_roots(M, e.args[0] if isinstance(e.func, ast.Name) else e.func.value, depth + 1)
    if isinstance(e, ast.Name):
        bs = M.binds.get(e.id, [])
        if len(bs) == 1 and bs[0].kind == "assign" and bs[0].value is not None:
            v = bs[0].value
            if isinstance(v, (ast.Name, ast.BinOp)) or (isinstance(v, ast.Dict) and v.keys and all(k is None for k in v.keys)) or (isinstance(v, ast.Call) and ((isinstance(v.func, ast.Name) and v.func.id == "dict" and len(v.args) == 1) or (isinstance(v.func, ast.Attribute) and v.func.attr == "copy"))):
                return label_roots(M, v, depth + 1)
            return "one", [e.id]
        if len(bs) > 1 and all(b.kind == "assign" and b.value is not None for b in bs):
            out = []
            mode = "alt"
            for b in bs:
                m_, r = label_roots(M, b.value, depth + 1)
                if not r:
                    return "alt", []
                if m_ == "merge":
                    mode = "merge-alt"
                out += r
            return ("alt" if mode == "alt" else "merge"), list(dict.fromkeys(out))
    return "one", []


def _uses_selection(M: Model, v: ast.AST) -> bool:
    for x in ast.walk(v):
        if isinstance(x, ast.Name):
            sv = M.single_value(x.id)
            if isinstance(sv, ast.Call) and isinstance(sv.func, ast.Name) and sv.func.id in ("next", "max", "min") and M.mentions_A(M.resolve(sv)):
                return True
    return False


def _rule_every_node(C, events: list[Event], odd: list[str], root: str) -> tuple:
    M: Model = C.M
    r3 = "C17.R3"
    what = "one label per node"
    cfg = cfg_of(M.V)
    groups: dict[int, tuple[ast.For, list[Event]]] = {}
    for ev in events:
        if ev.nloop is not None and ev.domain == "all":
            groups.setdefault(id(ev.nloop), (ev.nloop, []))[1].append(ev)
    total = None
    gaps = []
    for _k, (L, evs) in groups.items():
        S = {e.store or e.node for e in evs}
        # `if n not in labels: labels[n] = <...>` completes the mapping: on the other branch the node has its label already
        lnames = {x.value.id for e in evs for x in ast.walk(e.store or e.node) if isinstance(x, ast.Subscript) and isinstance(x.ctx, ast.Store) and isinstance(x.value, ast.Name)}
        for st in ast.walk(L):
            if isinstance(st, ast.If) and isinstance(st.test, ast.Compare) and len(st.test.ops) == 1 and isinstance(st.test.ops[0], ast.NotIn) and isinstance(st.test.comparators[0], ast.Name) and st.test.comparators[0].id in lnames and isinstance(L.target, ast.Name) and isinstance(st.test.left, ast.Name) and st.test.left.id == L.target.id:
                if any(any(x is s_ for x in ast.walk(st)) for s_ in list(S)) and not st.orelse:
                    S.add(st)
        inside = {id(x) for st in L.body for x in ast.walk(st)} | {id(x) for st in L.orelse for x in ast.walk(st)}
        starts = [m for m in cfg.g.successors(L) if True in cfg.g[L][m].get("labels", set())]
        seen, stack, leak = set(), list(starts), None
        while stack and leak is None:
            x = stack.pop()
            if id(x) in seen:
                continue
            seen.add(id(x))
            if x in S:
                continue
            if x is L:
                leak = "a path through the loop body stores no label"
                break
            if not isinstance(x, ast.AST):
                if x == "<RAISE>":
                    continue
                leak = "a path leaves draw() from inside the loop without a label"
                break
            if id(x) not in inside:
                leak = "a path leaves the loop without storing a label for the current node"
                break
            stack.extend(cfg.g.successors(x))
        if leak is None:
            total = (L, evs)
        else:
            # `if n not in labels: labels[n] = n`: the other branch means the node already has its label from an earlier pass
            names_ = {x.id for e in evs for x in ast.walk(e.store or e.node) if isinstance(x, ast.Subscript) and isinstance(x.ctx, ast.Store) and isinstance(x.value, ast.Name) for x in [x.value]}
            fills_rest = any(isinstance(t, ast.Compare) and len(t.ops) == 1 and isinstance(t.ops[0], (ast.In, ast.NotIn)) and isinstance(t.comparators[0], ast.Name) and t.comparators[0].id in names_ for st in L.body for t in ast.walk(st))
            if fills_rest and len(groups) > 1 or fills_rest and any(e2.nloop is not L for e2 in events if e2.domain == "all"):
                odd.append(f"labels are filled in several passes (`for {norm(L.target)} in {norm(L.iter, 40)}` only completes what an earlier pass left open)")
            gaps.append((L, leak))
    if total is not None:
        return ("ok", f"every node of the graph gets a label on every path through `{norm(total[0].target)} in {norm(total[0].iter, 40)}`", total[0])
    filt = [ev for ev in events if ev.domain == "filtered"]
    al = [ev for ev in events if ev.domain == "aliased"]
    if odd:
        return ("unsure", "; ".join(odd[:2]), C.label_store)
    elif filt:
        return ("bad", f"not every node of the graph gets a label: labels are stored for `{norm(M.resolve(filt[0].nloop.iter), 80)}` only", filt[0].node)
    elif gaps:
        return ("bad", f"not every node of the graph gets a label: {gaps[0][1]} (`for {norm(gaps[0][0].target)} in {norm(gaps[0][0].iter, 40)}`)", gaps[0][0])
    elif al:
        return ("bad", "not every node of the graph gets a label: labels are keyed by the aliased modules only", al[0].node)
    elif not events:
        return ("unsure", f"nothing is stored into the label mapping `{root}` in the flattened draw()", C.label_store)
    else:
        return ("unsure", f"`{norm(events[0].node, 70)}`: the key is not the variable of a loop over the graph's nodes", events[0].node)


def _rule_default(C, events: list[Event]) -> None:
    M: Model = C.M
    r3 = "C17.R3"
    what = "default label"
    dflt = [ev for ev in events if ev.kind == "default" and ev.domain == "all"]
    other = [ev for ev in events if ev.kind == "other" and ev.domain == "all" and ev.value is not None]
    if dflt:
        C.ok(r3, what, "modules without an aliased ancestor keep their full name", dflt[0].node)
    elif other and not _has_helper_call(C, other[0].value) and {x.id for x in ast.walk(M.resolve(other[0].value)) if isinstance(x, ast.Name)} == {other[0].n}:
        C.bad(r3, what, f"a module without an aliased ancestor is labelled `{norm(other[0].value, 60)}`, not with its full name", other[0].node)
    elif any(ev.domain == "all" for ev in events):
        C.unsure(r3, what, "no store of the unchanged module name as label was recognised", events[0].node)
    else:
        C.unsure(r3, what, "no label store over the nodes of the graph found", C.label_store)


def _has_helper_call(C, e: ast.AST) -> bool:
    for c in ast.walk(e):
        if isinstance(c, ast.Call):
            ctx, orig = getattr(c, "_src", (C.M.V, c))
            try:
                cs, how = C.types.callees(ctx, orig, byname_fallback=False)
            except Exception:  # noqa: BLE001
                return True
            if cs or how in ("unresolved", "byname", "callable-param"):
                return True
    return False


def label_reads(M: Model, ev: Event, label_names: set[str]) -> list[str]:
    """expressions (as text) that read the CURRENT label of the module `ev.n` back from the label mapping:
    the value variable of `for n, label in labels.items()`, `labels[n]`, `labels.get(n)`"""
    out: list[str] = []
    if ev.n is None:
        return out
    for L in M.loops_around(ev.node):
        t = L.target
        if isinstance(t, (ast.Tuple, ast.List)) and len(t.elts) == 2 and all(isinstance(x, ast.Name) for x in t.elts) and t.elts[0].id == ev.n:
            it = strip_items(M.resolve(L.iter))
            if it is not None and isinstance(it, ast.Name) and it.id in label_names:
                out.append(t.elts[1].id)
    for L_ in sorted(label_names):
        out += [f"{L_}[{ev.n}]", f"{L_}.get({ev.n})"]
    return out


def strip_items(e: ast.expr):
    """`list(X.items())` / `X.items()` / `tuple(X.copy().items())`  ->  X"""
    for _ in range(4):
        if isinstance(e, ast.Call) and isinstance(e.func, ast.Name) and e.func.id in ("list", "tuple", "sorted", "iter") and len(e.args) == 1:
            e = e.args[0]
        else:
            break
    if isinstance(e, ast.Call) and isinstance(e.func, ast.Attribute) and e.func.attr == "items" and not e.args:
        e = e.func.value
        for _ in range(3):
            if isinstance(e, ast.Call) and ((isinstance(e.func, ast.Name) and e.func.id == "dict" and len(e.args) == 1) or (isinstance(e.func, ast.Attribute) and e.func.attr == "copy" and not e.args)):
                e = e.args[0] if isinstance(e.func, ast.Name) else e.func.value
        return e
    return None


READ_BACK = ("the current label is read back from the label mapping (`{read}`) and used {use}: a label that a more specific alias has already "
             "written is matched / cut again by a less specific alias whenever the written alias equals or extends that module's name - "
             "the test and the cut must be taken on the module's name")


def _rule_aliased(C, aliased: list[Event], events: list[Event], label_names: set[str]) -> tuple:
    """-> (the store of the module's own alias if there is one, number of stores that select an aliased ancestor, shape not settled?)"""
    M: Model = C.M
    r1, r2 = "C17.R1", "C17.R2"
    shape_msgs, shape_bad, shape_unsure = [], [], []
    sel_results = []  # (status, rule, what, detail, node)
    parsed = []  # (event, m expression)
    self_event = None
    for ev in aliased:
        if ev.n is None:
            shape_unsure.append((ev, f"`{norm(ev.node, 70)}`: the labelled node is not the variable of a loop"))
            continue
        v = M.resolve(ev.value)
        got = parse_label(M, v, ev.n)
        if got is None:
            # the same shape taken on the label read back from the mapping instead of on the module's name?
            reread = next((t for t in label_reads(M, ev, label_names) if (g2 := parse_label(M, v, t)) is not None and g2[0] not in ("bad", "bare")), None)
            if reread is not None:
                shape_bad.append((ev, READ_BACK.format(read=reread, use=f"as the source of the remainder in `{norm(ev.value, 60)}`")))
                continue
            shape_unsure.append((ev, f"the aliased label is built as `{norm(ev.value, 70)}` (= `{norm(v, 90)}`): not recognised as 'alias of the matched ancestor + the rest of the name after it'"))
            continue
        if got[0] == "bare":
            # the bare alias is the whole label only where the module *is* the aliased module
            m = got[1]
            g = ev_guard(M, ev, None)
            mt = m.id if isinstance(m, ast.Name) else norm(m, 400)
            try:
                selfs = [a for a in atoms_of(g) if classify_atom(M, a, ev.n, mt, set()) == "self"]
                fine = bool(selfs) and implies(g, atom(selfs[0]))
            except AnalysisError:
                fine = False
            if not fine:
                shape_bad.append((ev, f"`{norm(v, 70)}` is the bare alias: the part of the module name below the aliased ancestor is dropped"))
                continue
            got = (m, f"{norm(v, 40)} where the module equals the aliased module")
        if got[0] == "bad":
            shape_bad.append((ev, got[1]))
            continue
        m_expr, desc = got
        shape_msgs.append(desc)
        # the module's own alias: `labels[n] = aliases[n]` under `n in aliases`
        if _is_name(m_expr, ev.n):
            g = ev_guard(M, ev, ev.nloop)
            ins = [a for a in atoms_of(g) if _self_in_keys(M, a, ev.n)]
            if ins and implies(g, atom(ins[0])):
                self_event = ev
                continue
            shape_unsure.append((ev, f"`{norm(ev.node, 70)}` uses the module's own alias under a condition that is not `{ev.n} in aliases`"))
            continue
        parsed.append((ev, m_expr))
    # ---- selections, grouped: several stores inside one search loop (`if n == m: ... elif n.startswith(m + "."): ...`) are one selection
    groups: dict[tuple, list] = {}
    for ev, m_expr in parsed:
        from .c17_carried import carried_state, judge_carried

        st_ = carried_state(M, m_expr, ev)
        if st_ is not None:
            # the enclosing aliased module is remembered from the modules visited before (stack / 'current' variable)
            got = judge_carried(C, ev, m_expr, st_)
            sel_results += got
            if got and all(x[0] == "ok" for x in got):
                _mark_sources(C, M, ev.value)
            continue
        sel = find_selection(M, m_expr, ev)
        if isinstance(sel, str):
            # not a selection that is read - but if the aliased module is reached from the module along the graph's edges and never
            # compared with it by name, the selection is by reachability, not by name (rules/c17_domain.py)
            via = _structural_choice(M, m_expr, ev, label_names)
            if via is not None:
                sel_results.append(("bad", r1, "ancestor test", f"the aliased module `{norm(m_expr, 40)}` whose alias labels `{ev.n}` is found by following the structure of the graph (`{via}`), and never compared with `{ev.n}` by name: hierarchy edges are not the dotted-prefix relation, so a module can get the alias of a module whose name it does not extend, cut at a non-boundary", ev.node))
                continue
            sel_results.append(("unsure", r2, "most specific first", sel, ev.node))
            continue
        groups.setdefault((id(sel.loop) if sel.loop is not None else id(ev.node), sel.cand), []).append((ev, sel))
    for _key, items in groups.items():
        ev0, sel0 = items[0]
        if len(items) > 1:
            discs = {s_.discipline for _e, s_ in items}
            sel0 = Selection(sel0.cand, sel0.D, f_or([s_.P for _e, s_ in items]), discs.pop() if len(discs) == 1 else "every", sel0.loop, sel0.where, [x for _e, s_ in items for x in s_.srcs], sel0.known)
        got = _judge_selection(C, ev0, sel0, label_names, self_event is not None)
        sel_results += got
        if all(st == "ok" for st, rule, *_ in got if rule == r1) and any(rule == r1 for _st, rule, *_ in got):
            for ev, s_ in items:
                for src in [*s_.srcs, ev.value]:
                    _mark_sources(C, M, src)
    # ---- R1: label shape
    if shape_bad:
        C.bad(r1, "label shape", shape_bad[0][1], shape_bad[0][0].node)
    elif shape_unsure:
        C.unsure(r1, "label shape", shape_unsure[0][1], shape_unsure[0][0].node)
    else:
        C.ok(r1, "label shape", "label = " + "; ".join(dict.fromkeys(shape_msgs)), aliased[0].node)
    # ---- selection verdicts: one obligation per aspect, the worst status wins
    by_what: dict[tuple[str, str], list] = {}
    for st, rule, what, detail, node in sel_results:
        by_what.setdefault((rule, what), []).append((st, detail, node))
    for (rule, what), items_ in by_what.items():
        bad = [i for i in items_ if i[0] == "bad"]
        uns = [i for i in items_ if i[0] == "unsure"]
        if bad:
            C.bad(rule, what, bad[0][1], bad[0][2])
        elif uns:
            C.unsure(rule, what, uns[0][1], uns[0][2])
        else:
            C.ok(rule, what, items_[0][1], items_[0][2])
    return self_event, len(parsed), bool(shape_bad or shape_unsure)


def _structural_choice(M: Model, m_expr: ast.expr, ev: Event, label_names: set[str]) -> str | None:
    """the read of the graph's edge structure through which the local `m_expr` gets its values, if it has one, starts out as the
    module itself, and no condition of the store relates it to the module by name"""
    from .c17_domain import provenance

    if not isinstance(m_expr, ast.Name) or ev.n is None or ev.nloop is None:
        return None
    names_, reads = provenance(M, m_expr)
    if not reads or ev.n not in names_:
        return None
    try:
        g = ev_guard(M, ev, ev.nloop)
        kinds = {a: classify_atom(M, a, ev.n, m_expr.id, label_names) for a in atoms_of(g)}
    except AnalysisError:
        return None
    if set(kinds.values()) & {"self", "proper", "self+proper", "raw", "neg:proper", "raw:self", "raw:proper", "raw:both", "raw:not-self"}:
        return None
    for a, k in kinds.items():
        pe = parse_atom(a) if k == "other" else None
        if k == "other" and (pe is None or any(isinstance(x, ast.Name) and x.id == ev.n for x in ast.walk(pe))):
            return None  # a test that involves the module itself and is not read: it may be the comparison by name
    return reads[0]


def _self_in_keys(M: Model, atom_text: str, n: str) -> bool:
    e = parse_atom(atom_text)
    return isinstance(e, ast.Compare) and len(e.ops) == 1 and isinstance(e.ops[0], ast.In) and _is_name(e.left, n) and M.keys_of_A(e.comparators[0]) == "keys"


def _mark_sources(C, M: Model, e) -> None:
    """Remembers the original nodes of the expressions (and of the locals they use) the analysis has read."""
    seen: set[str] = set()

    def walk(x: ast.AST, depth: int = 0) -> None:
        for n in ast.walk(x):
            src = getattr(n, "_src", None)
            if src is not None:
                C.proved_sites.add(id(src[1]))
            if isinstance(n, ast.Name) and isinstance(n.ctx, ast.Load) and n.id not in seen and depth < 8:
                seen.add(n.id)
                v = M.single_value(n.id)
                if v is not None:
                    walk(v, depth + 1)

    if isinstance(e, ast.AST):
        walk(e)


def _judge_selection(C, ev: Event, sel: Selection, label_names: set[str], has_self_event: bool):
    """[(status, rule, what, detail, node)] for one aliased store."""
    M: Model = C.M
    r1, r2 = "C17.R1", "C17.R2"
    out = []
    n, c = ev.n, sel.cand
    domain, order = sel.known if sel.known is not None else domain_order(M, sel.D, n)
    P = sel.P
    try:
        kinds = {a: classify_atom(M, a, n, c, label_names) for a in atoms_of(P)}
    except AnalysisError as e:  # too many atoms
        return [("unsure", r1, "ancestor test", f"match condition too large to enumerate ({e})", sel.where)]
    by = lambda *ks: [atom(a) for a, k in kinds.items() if k in ks] + [f_not(atom(a)) for a, k in kinds.items() if k.startswith("neg:") and k[4:] in ks]  # noqa: E731
    guards = by("label-text", "labelled")
    # the match predicate proper: P with the 'already labelled' guards assumed to let the store through
    env_fix = {a: (k == "label-text") for a, k in kinds.items() if k in ("label-text", "labelled")}

    # which polarity of the guard atoms lets the store through?  try both, keep the one under which P is satisfiable
    if guards:
        chosen = None
        import itertools

        gnames = [g[1] for g in guards]
        for vals in itertools.product([False, True], repeat=len(gnames)):
            trial = dict(zip(gnames, vals))
            rest = sorted(a for a in atoms_of(P) if a not in trial)
            if any(evaluate(P, {**dict(zip(rest, v2)), **trial}) for v2 in itertools.product([False, True], repeat=len(rest))):
                chosen = trial if chosen is None else chosen
        env_fix = chosen or {}
    selfs, propers, both, raws, inkeys, others = by("self"), by("proper"), by("self+proper"), by("raw"), by("in-keys"), by("other")
    what_t = "ancestor test"
    if others:
        for t in label_reads(M, ev, label_names):
            hit = [a for a, k in kinds.items() if k == "other" and classify_atom(M, a, t, c, label_names) in ("self", "proper", "self+proper", "raw")]
            if hit:
                return [("bad", r1, what_t, READ_BACK.format(read=t, use=f"as the tested string of the ancestor test `{hit[0]}`"), sel.where)]
    truthy = by("alias-truthy")
    if truthy:
        return [("bad", r1, what_t, f"whether an alias applies depends on the alias text being non-empty (`{truthy[0][1]}`): an empty alias is ignored, the module keeps its name or takes a parent's alias", sel.where)]
    if domain in ("lineage", "parents"):
        # candidates are ancestors of the node by construction: the test is membership in the aliases
        target = f_or(inkeys)
        if not inkeys or others or raws:
            out.append(("unsure", r1, what_t, f"candidates are the module's ancestors, but the condition `{_show(P)}` is not 'the candidate has an alias'", sel.where))
        elif _equiv_under(P, target, env_fix):
            if domain == "parents" and not has_self_event:
                out.append(("bad", r1, what_t, f"only proper ancestors of `{n}` are candidates (`{norm(sel.D, 60)}`): a module that has an alias itself keeps its full name", sel.where))
            else:
                out.append(("ok", r1, what_t, "candidates are the module itself and its ancestors (get_parent_modules): whole dotted components by construction", sel.where))
        else:
            out.append(("unsure", r1, what_t, f"the condition `{_show(P)}` is not equivalent to 'the candidate has an alias'", sel.where))
    elif domain in ("keys", "items", "objs"):
        # a raw prefix test is boundary-safe together with a test of what follows the prefix
        r_self, r_proper, r_both, r_notself = by("raw:self"), by("raw:proper"), by("raw:both"), by("raw:not-self")
        comp_self = f_or([*r_self, *r_both, *[f_not(x) for x in r_notself]])
        comp_proper = f_or([*r_proper, *r_both])
        guarded_raw = [f_and([rw, f_or([comp_self, comp_proper])]) for rw in raws] if (r_self or r_proper or r_both or r_notself) else []
        safe = f_or([*selfs, *propers, *both, *guarded_raw])
        if guarded_raw:
            selfs = selfs + ([guarded_raw[0]] if comp_self != FALSE else [])
            propers = propers + ([guarded_raw[0]] if comp_proper != FALSE else [])
        if others:
            out.append(("unsure", r1, what_t, f"the match condition `{_show(P)}` contains tests that are not recognised ({', '.join(o[1] for o in others)[:80]})", sel.where))
        elif raws and _sat_under(f_and([P, f_not(safe)]), env_fix):
            out.append(("bad", r1, what_t, f"`{raws[0][1]}`: raw string prefix test between module names - 'pkg.ab' is relabelled with the alias of 'pkg.a'", sel.where))
        elif not (selfs or propers or both):
            # no test on the two names at all: is the module taken from a collection computed from the candidate along the graph's edges?
            from .c17_domain import provenance

            via = None
            if ev.nloop is not None and ev.domain is None and not raws and not atoms_of(P) - {a for a, k in kinds.items() if k in ("label-text", "labelled")}:
                names_, reads = provenance(M, ev.nloop.iter)
                root_c = c.split("[")[0].split(".")[0]
                if reads and (root_c in names_ or any(isinstance(x, ast.Name) and x.id == root_c for x in ast.walk(M.resolve(ev.nloop.iter)))):
                    via = reads[0]
            if via is not None:
                out.append(("bad", r1, what_t, f"which modules receive the alias of `{c}` is decided by the structure of the graph (`{n}` ranges over `{norm(ev.nloop.iter, 50)}`, computed from `{c}` through `{via}`), not by the names: no test that `{n}` equals `{c}` or starts with `{c}` + '.' - a module reachable over a hierarchy edge whose name does not extend the aliased name gets the alias, cut at a non-boundary (`{n}[len({c}):]`)", ev.nloop))
            else:
                out.append(("unsure", r1, what_t, f"the match condition `{_show(P)}` does not relate the module to the aliased candidate", sel.where))
        elif _equiv_under(P, safe, env_fix):
            covers_self = bool(selfs or both) or has_self_event
            covers_proper = bool(propers or both)
            if not covers_self:
                out.append(("bad", r1, what_t, f"the match condition `{_show(P)}` holds for sub modules only: the aliased module itself keeps its full name", sel.where))
            elif not covers_proper:
                out.append(("bad", r1, what_t, f"the match condition `{_show(P)}` holds for the aliased module only: its sub modules keep their full names", sel.where))
            else:
                out.append(("ok", r1, what_t, "a candidate matches iff the module equals it or extends it by whole dotted components", sel.where))
        elif _implies_under(P, safe, env_fix):
            out.append(("unsure", r1, what_t, f"the match condition `{_show(P)}` is stronger than 'equals or extends by whole components'", sel.where))
        else:
            out.append(("unsure", r1, what_t, f"the match condition `{_show(P)}` is not recognised as a whole-component ancestor test", sel.where))
    elif domain is not None and domain.startswith("lossy:"):
        out.append(("bad", r2, "most specific first", f"the candidates for a module are looked up in an index of the aliased modules by top-level package that is built with itertools.groupby over a sequence that is not sorted by that key ({domain[6:]}): groupby only groups consecutive runs, every further run of a package overwrites the one stored before, so aliased modules are missing from the candidates - a module whose nearest aliased ancestor was dropped takes an outer alias or keeps its name", sel.where))
        return out
    elif domain is not None and domain.startswith("filtered:"):
        flt = M.__dict__.get("_domain_filters", {}).get(domain.split(":", 1)[1], "")
        out.append(("bad", r2, "most specific first", f"the candidates are only the aliased modules with `{flt}` (`{norm(sel.D, 70)}`): an aliased module that fails this test can never be chosen although it may be the nearest aliased ancestor - its sub modules take an outer alias or keep their names", sel.where))
        return out
    else:
        out.append(("unsure", r2, "most specific first", f"the candidates `{norm(sel.D, 80)}` are neither all aliased modules nor the ancestors of the module", sel.where))
        return out
    # ---- R2: order x discipline
    what_o, what_f = "most specific first", "first match wins"
    if others:
        out.append(("unsure", r2, what_o, f"which match wins depends on tests that are not recognised ({', '.join(o[1] for o in others)[:80]})", sel.where))
        return out
    disc = sel.discipline
    label_text = by("label-text")
    labelled = by("labelled")
    if disc == "every" and label_text:
        out.append(("bad", r2, what_f, f"whether a more specific alias has already been applied is decided by comparing the label text with the module name (`{label_text[0][1]}`): an alias that equals the module's own name looks like 'not labelled yet' and is overwritten by a less specific alias", ev.node))
        return out
    if disc == "every" and labelled:
        prefilled = [e2 for e2 in getattr(C, "all_events", []) if e2.kind == "default" and e2.domain == "all" and getattr(e2.store or e2.node, "lineno", 0) < getattr(ev.node, "lineno", 0) and e2.how == "store"]
        on_mapping = [x for x in labelled if (pe := parse_atom(x[1] if x[0] == "atom" else x[1][1])) is not None and isinstance(pe, ast.Compare) and isinstance(pe.comparators[0], ast.Name) and pe.comparators[0].id in label_names]
        if prefilled and on_mapping:
            out.append(("bad", r2, what_f, f"`{labelled[0][1]}` is meant to tell whether a more specific alias has been applied, but the mapping was filled with the default labels before (`{norm(prefilled[0].node, 60)}`): it holds for every module and no alias is ever applied", ev.node))
            return out
        disc = "first"  # a structural 'already labelled' test: only the first matching candidate stores
    if disc == "every":
        disc = "last"
    if domain in ("keys", "items", "objs"):
        good = (disc == "first" and order == "desc") or (disc == "last" and order == "asc") or disc == "longest"
        wrong = (disc == "first" and order in ("asc", "mapping", "foreign")) or (disc == "last" and order in ("desc", "mapping", "foreign")) or disc == "shortest"
        how = {"first": "the first match is used", "last": "later matches overwrite earlier ones", "longest": "the longest match is selected", "shortest": "the shortest match is selected"}[disc]
        ordtxt = {"desc": "most specific (longest) first", "asc": "least specific (shortest) first", "mapping": "in the order of the alias mapping", "foreign": "in an order computed from the alias texts, not from the module names", None: "in an order that is not recognised"}.get(order, "in an order that is not recognised")
        if good:
            out.append(("ok", r2, what_o, f"aliased modules are tried {ordtxt}" if disc != "longest" else "the longest matching aliased module is selected", sel.where))
            out.append(("ok", r2, what_f, how, ev.node))
        elif wrong:
            which = what_o if disc in ("first", "last") and order != "desc" or disc == "shortest" else what_f
            if disc == "last" and order == "desc":
                which = what_f
            out.append(("bad", r2, which, f"aliased modules are tried {ordtxt} and {how}: a parent's alias can win over a sub module's alias (`{norm(sel.D, 70)}`)", sel.where))
        else:
            out.append(("unsure", r2, what_o, f"order of the candidates `{norm(sel.D, 80)}` not recognised", sel.where))
    else:
        good = (disc == "first" and order == "near") or (disc == "last" and order == "far") or disc == "longest"
        wrong = (disc == "first" and order in ("far", "self-then-far")) or (disc == "last" and order == "near") or disc == "shortest"
        if good:
            out.append(("ok", r2, what_o, "the module's ancestors are walked from the module itself upwards" if disc == "first" else "the nearest aliased ancestor is selected", sel.where))
            out.append(("ok", r2, what_f, "the nearest ancestor that has an alias is used", ev.node))
        elif wrong:
            if disc == "last" and order == "near":
                out.append(("bad", r2, what_f, f"the module's ancestors are walked from the module itself upwards (`{norm(sel.D, 70)}`) but the walk does not stop at the first one with an alias - the last, root-most one is used: a parent's alias wins over a sub module's alias", sel.where))
            else:
                out.append(("bad", r2, what_o, f"the module's ancestors are tried root first (`{norm(sel.D, 70)}`) and {'the first' if disc == 'first' else 'the last'} one with an alias is used: a parent's alias wins over a sub module's alias", sel.where))
        else:
            out.append(("unsure", r2, what_o, f"order of the ancestors `{norm(sel.D, 80)}` not recognised", sel.where))
    return out


def _show(f) -> str:
    from core.guards import show

    return show(f)[:110]


def _envs(f_list, fixed: dict):
    import itertools

    names_ = sorted({a for f in f_list for a in atoms_of(f)} - set(fixed))
    if len(names_) > 12:
        raise AnalysisError("too many atoms")
    for vals in itertools.product([False, True], repeat=len(names_)):
        env = dict(zip(names_, vals))
        env.update(fixed)
        for f in f_list:
            for a in atoms_of(f):
                env.setdefault(a, False)
        yield env


def _equiv_under(a, b, fixed: dict) -> bool:
    return all(evaluate(a, env) == evaluate(b, env) for env in _envs([a, b], fixed))


def _implies_under(a, b, fixed: dict) -> bool:
    return all((not evaluate(a, env)) or evaluate(b, env) for env in _envs([a, b], fixed))


def _sat_under(a, fixed: dict) -> bool:
    return any(evaluate(a, env) for env in _envs([a], fixed))
