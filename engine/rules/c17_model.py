"""C17 - model of the deep view of `NetworkxGraph.draw`: bindings, symbolic resolution of locals, roles (options dict, alias
mapping, graph, node collection), guards as formulas over resolved expressions.

Roles are found by what cannot be renamed: the documented option names ('aliases', 'spacing'), the backend's keyword names
('labels', 'pos'), the backend function (networkx.draw_networkx) and its first argument (the graph).
"""

from __future__ import annotations

import ast
from dataclasses import dataclass

from core.cfg import always_exits
from core.guards import Formula, f_and, f_not, to_formula
from core.loader import FuncInfo, Repo, ancestors, norm, parent

from .c17_view import _walk_own
from .common import bool_inliner, conds

WRAPPERS = {"list", "tuple", "set", "frozenset", "iter", "sorted", "reversed"}
OPAQUE_DEFS = {"next", "max", "min"}


@dataclass
class Binding:
    name: str
    node: ast.AST  # the Name(Store) / arg node
    stmt: ast.AST | None  # statement (or comprehension) that binds
    kind: str  # assign | for | comp | param | aug | other
    value: ast.expr | None  # assigned value / iterated expression


def _copy_node(e, keep=("_orig", "_src")):
    if isinstance(e, list):
        return [_copy_node(x, keep) for x in e]
    if not isinstance(e, ast.AST):
        return e
    new = type(e)()
    for f in e._fields:
        if hasattr(e, f):
            setattr(new, f, _copy_node(getattr(e, f), keep))
    for a in ("lineno", "col_offset", "end_lineno", "end_col_offset"):
        if hasattr(e, a):
            setattr(new, a, getattr(e, a))
    for k in keep:
        if hasattr(e, k):
            setattr(new, k, getattr(e, k))
    return new


def _tagged_copy(e, ctx):
    """copy in which every node remembers the function and node it came from (so that calls in it can still be resolved)"""
    if isinstance(e, list):
        return [_tagged_copy(x, ctx) for x in e]
    if not isinstance(e, ast.AST):
        return e
    new = type(e)()
    for f in e._fields:
        if hasattr(e, f):
            setattr(new, f, _tagged_copy(getattr(e, f), ctx))
    for a in ("lineno", "col_offset", "end_lineno", "end_col_offset"):
        if hasattr(e, a):
            setattr(new, a, getattr(e, a))
    new._src = getattr(e, "_src", (ctx, e))  # type: ignore[attr-defined]
    new._orig = getattr(e, "_orig", new._src)  # type: ignore[attr-defined]
    return new


def strip_wrappers(e: ast.expr, allowed=WRAPPERS) -> ast.expr:
    """`list(x)`, `sorted(x, ...)`, `tuple(x)` ... -> x (one positional argument)."""
    while isinstance(e, ast.Call) and isinstance(e.func, ast.Name) and e.func.id in allowed and len(e.args) == 1:
        e = e.args[0]
    return e


def const_str(e: ast.AST) -> str | None:
    return e.value if isinstance(e, ast.Constant) and isinstance(e.value, str) else None


class Model:
    def __init__(self, repo: Repo, draw: FuncInfo, view: FuncInfo) -> None:
        self.repo = repo
        self.draw = draw
        self.V = view
        self.fn: ast.FunctionDef = view.node
        for n in ast.walk(self.fn):
            if hasattr(n, "_src") and not hasattr(n, "_orig"):
                n._orig = n._src  # type: ignore[attr-defined]  # origin convention of core/inline.py
        kw = self.fn.args.kwarg
        self.kw: str | None = kw.arg if kw is not None else None
        self.selfname: str | None = self.fn.args.args[0].arg if self.fn.args.args else None
        self.binds: dict[str, list[Binding]] = {}
        self._collect_bindings()
        self._nk_pc: dict | None = None
        self.backend_calls = [c for c in _walk_own(self.fn.body) if isinstance(c, ast.Call) and self._is_backend(c)]
        self.G: str | None = None
        if self.backend_calls and self.backend_calls[0].args:
            gs = {norm(self.resolve(c.args[0])) for c in self.backend_calls if c.args}
            self.G = gs.pop() if len(gs) == 1 else None
        self.A_names: set[str] = set()
        self._find_alias_mapping()

    # ------------------------------------------------------------------ bindings
    def _collect_bindings(self) -> None:
        a = self.fn.args
        for p in [*a.posonlyargs, *a.args, *a.kwonlyargs, *([a.vararg] if a.vararg else []), *([a.kwarg] if a.kwarg else [])]:
            self.binds.setdefault(p.arg, []).append(Binding(p.arg, p, None, "param", None))
        for n in _walk_own(self.fn.body):
            if isinstance(n, ast.ExceptHandler) and n.name:
                self.binds.setdefault(n.name, []).append(Binding(n.name, n, n, "other", None))
            if not (isinstance(n, ast.Name) and isinstance(n.ctx, (ast.Store, ast.Del))):
                continue
            p = parent(n)
            kind, value, stmt = "other", None, p
            top = n
            while isinstance(p, (ast.Tuple, ast.List, ast.Starred)):
                top, p = p, parent(p)
            stmt = p
            if isinstance(p, ast.Assign) and top in p.targets:
                if top is n:
                    kind, value = "assign", p.value
                elif isinstance(top, (ast.Tuple, ast.List)) and isinstance(p.value, (ast.Tuple, ast.List)) and len(top.elts) == len(p.value.elts) and n in top.elts:
                    kind, value = "assign", p.value.elts[top.elts.index(n)]
                elif isinstance(top, (ast.Tuple, ast.List)) and n in top.elts and not any(isinstance(x, ast.Starred) for x in top.elts) and isinstance(p.value, ast.Call) and isinstance(p.value.func, ast.Attribute) and p.value.func.attr in ("partition", "rpartition"):
                    # a, sep, b = s.partition(x): component i of the result
                    kind, value = "assign", ast.copy_location(ast.Subscript(value=p.value, slice=ast.Constant(value=top.elts.index(n)), ctx=ast.Load()), p.value)
            elif isinstance(p, ast.AnnAssign) and p.target is n and p.value is not None:
                kind, value = "assign", p.value
            elif isinstance(p, ast.AugAssign):
                kind = "aug"
            elif isinstance(p, (ast.For, ast.AsyncFor)) and p.target is top:
                kind, value = "for", p.iter
            elif isinstance(p, ast.comprehension) and p.target is top:
                kind, value = "comp", p.iter
            elif isinstance(p, ast.NamedExpr) and p.target is n:
                kind, value = "assign", p.value
            self.binds.setdefault(n.id, []).append(Binding(n.id, n, stmt, kind, value))

    def single_value(self, name: str) -> ast.expr | None:
        bs = self.binds.get(name, [])
        if len(bs) == 1 and bs[0].kind == "assign":
            return bs[0].value
        return None

    def loop_binding(self, name: str) -> Binding | None:
        bs = self.binds.get(name, [])
        if len(bs) == 1 and bs[0].kind in ("for", "comp"):
            return bs[0]
        return None

    # ------------------------------------------------------------------ roles
    def _is_backend(self, c: ast.Call) -> bool:
        ctx, orig = getattr(c, "_src", (self.V, c))
        if not isinstance(orig, ast.Call) or not isinstance(orig.func, (ast.Name, ast.Attribute)):
            return False
        fq = self.repo.resolve_name(ctx.module, orig.func) or ""
        return fq.startswith("networkx") and fq.endswith("draw_networkx")

    def option_source(self, e: ast.expr) -> tuple[str, str] | None:
        """(option name, how) if `e` reads one documented option from the options dict: kwargs.pop('k'[, d]) / kwargs['k'] / kwargs.get('k'[, d])."""
        if self.kw is None:
            return None
        if isinstance(e, ast.Call) and isinstance(e.func, ast.Attribute) and e.func.attr in ("pop", "get") and self.is_options(e.func.value) and e.args and const_str(e.args[0]) is not None:
            return const_str(e.args[0]), e.func.attr + ("-default" if len(e.args) > 1 else "")
        if isinstance(e, ast.Subscript) and isinstance(e.ctx, ast.Load) and self.is_options(e.value) and const_str(e.slice) is not None:
            return const_str(e.slice), "item"
        return None

    def is_options(self, e: ast.expr, _seen: frozenset = frozenset()) -> bool:
        """`e` denotes the caller's options dict (the **kwargs parameter, a local alias or a - possibly filtered - copy of it)."""
        for _ in range(8):
            if isinstance(e, ast.Name):
                if e.id in _seen:
                    return True  # `x = dict(x)`: builds on the earlier binding
                bs = [b for b in self.binds.get(e.id, []) if not self._merge_update(b)]
                if e.id == self.kw and len(bs) == 1 and bs[0].kind == "param":
                    return True
                if not bs or any(b.kind != "assign" or b.value is None for b in bs):
                    return False
                if len(bs) == 1:
                    _seen, e = _seen | {e.id}, bs[0].value
                    continue
                seen2 = _seen | {e.id}
                return all(self.is_options(b.value, seen2) for b in bs) and any(not self._mentions(b.value, e.id) for b in bs)
            if isinstance(e, ast.Call) and isinstance(e.func, ast.Name) and e.func.id == "dict" and len(e.args) == 1 and not e.keywords:
                e = e.args[0]
                continue
            if isinstance(e, ast.Call) and isinstance(e.func, ast.Attribute) and e.func.attr == "copy" and not e.args:
                e = e.func.value
                continue
            if isinstance(e, ast.Dict) and len(e.keys) == 1 and e.keys[0] is None:
                e = e.values[0]
                continue
            if self.filtered_options(e) is not None:
                e = e.generators[0].iter.func.value
                continue
            return False
        return False

    @staticmethod
    def _mentions(e: ast.AST, name: str) -> bool:
        return any(isinstance(x, ast.Name) and x.id == name for x in ast.walk(e))

    @staticmethod
    def _merge_update(b: "Binding") -> bool:
        """`kwargs |= {...}` updates the dict in place: not a re-binding"""
        return b.kind == "aug" and isinstance(b.stmt, ast.AugAssign) and isinstance(b.stmt.op, ast.BitOr)

    def filtered_options(self, e: ast.expr) -> list[str] | None:
        """`{k: v for k, v in <options>.items() if k not in ('a', 'b')}`  ->  ['a', 'b']"""
        if not (isinstance(e, ast.DictComp) and len(e.generators) == 1):
            return None
        g = e.generators[0]
        it = g.iter
        if not (isinstance(it, ast.Call) and isinstance(it.func, ast.Attribute) and it.func.attr == "items" and not it.args and isinstance(g.target, ast.Tuple) and len(g.target.elts) == 2 and all(isinstance(x, ast.Name) for x in g.target.elts)):
            return None
        k, v = g.target.elts[0].id, g.target.elts[1].id
        if not (isinstance(e.key, ast.Name) and e.key.id == k and isinstance(e.value, ast.Name) and e.value.id == v):
            return None
        keys: list[str] = []
        for c in g.ifs:
            parts = c.values if isinstance(c, ast.BoolOp) and isinstance(c.op, ast.And) else [c]
            for p_ in parts:
                if isinstance(p_, ast.Compare) and len(p_.ops) == 1 and isinstance(p_.left, ast.Name) and p_.left.id == k:
                    r = p_.comparators[0]
                    if isinstance(p_.ops[0], ast.NotIn) and isinstance(r, (ast.Tuple, ast.List, ast.Set)) and all(const_str(x) is not None for x in r.elts):
                        keys += [const_str(x) for x in r.elts]
                        continue
                    if isinstance(p_.ops[0], ast.NotEq) and const_str(r) is not None:
                        keys.append(const_str(r))
                        continue
                return None
        return keys

    def alias_sources(self) -> list[ast.AST]:
        """expressions that read the 'aliases' option from the options dict"""
        out = []
        for n in _walk_own(self.fn.body):
            if isinstance(n, ast.expr):
                src = self.option_source(n)
                if src is not None and src[0] == "aliases":
                    out.append(n)
        return out

    def _find_alias_mapping(self) -> None:
        for name, bs in self.binds.items():
            if len(bs) == 1 and bs[0].kind == "assign" and bs[0].value is not None:
                src = self.option_source(bs[0].value)
                if src is not None and src[0] == "aliases":
                    self.A_names.add(name)

    def is_A(self, e: ast.expr) -> bool:
        """resolved `e` is the alias mapping itself"""
        if isinstance(e, ast.Name) and e.id in self.A_names:
            return True
        src = self.option_source(e)
        return src is not None and src[0] == "aliases"

    def mentions_A(self, e: ast.AST) -> bool:
        return any(isinstance(n, ast.expr) and self.is_A(n) for n in ast.walk(e))

    def keys_of_A(self, e: ast.expr) -> str | None:
        """'keys' if resolved `e` is a collection of all aliased module names (any order), 'items' for (name, alias) pairs."""
        e = strip_wrappers(e)
        if self.is_A(e):
            return "keys"
        if isinstance(e, ast.Call) and isinstance(e.func, ast.Attribute) and not e.args and self.is_A(e.func.value):
            if e.func.attr == "keys":
                return "keys"
            if e.func.attr == "items":
                return "items"
        if isinstance(e, ast.Call) and isinstance(e.func, ast.Name) and e.func.id == "dict" and len(e.args) == 1 and self.is_A(e.args[0]):
            return "keys"
        if isinstance(e, (ast.ListComp, ast.SetComp, ast.GeneratorExp)) and len(e.generators) == 1 and not e.generators[0].ifs and isinstance(e.elt, ast.Name) and isinstance(e.generators[0].target, ast.Name) and e.elt.id == e.generators[0].target.id:
            return self.keys_of_A(e.generators[0].iter)
        return None

    def nodes_coll(self, e: ast.expr) -> str | None:
        """'all' if resolved `e` is the collection of all nodes of the drawn graph, 'filtered' if a filtered part of it."""
        if self.G is None:
            return None
        e = strip_wrappers(e)
        if norm(e) == self.G:
            return "all"
        if isinstance(e, ast.Name) and self.in_place_sorts(e.id) and self._only_reordered(e.id):
            # a list that is only sorted / reversed in place holds what it was bound to
            v = self.single_value(e.id)
            return self.nodes_coll(self.resolve(v)) if v is not None else None
        if isinstance(e, ast.Attribute) and e.attr == "nodes" and norm(e.value) == self.G:
            return "all"
        if isinstance(e, ast.Call) and isinstance(e.func, ast.Attribute) and not e.keywords:
            f = e.func
            if f.attr == "nodes" and not e.args and norm(f.value) == self.G:
                return "all"
            if f.attr == "keys" and not e.args and isinstance(f.value, ast.Attribute) and f.value.attr == "nodes" and norm(f.value.value) == self.G:
                return "all"
        if isinstance(e, (ast.ListComp, ast.SetComp, ast.GeneratorExp)) and len(e.generators) == 1:
            g = e.generators[0]
            inner = self.nodes_coll(g.iter)
            if inner is not None:
                identity = isinstance(e.elt, ast.Name) and isinstance(g.target, ast.Name) and e.elt.id == g.target.id
                if not identity:
                    return None  # a mapped collection: not read
                return inner if not g.ifs else "filtered"
        if isinstance(e, ast.Call) and isinstance(e.func, ast.Name) and e.func.id == "filter" and len(e.args) == 2 and self.nodes_coll(e.args[1]):
            return "filtered"
        if isinstance(e, ast.Subscript) and isinstance(e.slice, ast.Slice) and self.nodes_coll(e.value):
            return "filtered"
        return None

    def node_membership(self, e: ast.expr) -> tuple[ast.expr, bool, str] | None:
        """resolved test `x in <all nodes>` / `G.has_node(x)`  ->  (x, positive?, 'all' | 'filtered' | 'other:<text>')"""
        if isinstance(e, ast.Call) and isinstance(e.func, ast.Name) and e.func.id == "bool" and len(e.args) == 1 and not e.keywords:
            return self.node_membership(e.args[0])
        if isinstance(e, ast.UnaryOp) and isinstance(e.op, ast.Not):
            r = self.node_membership(e.operand)
            return None if r is None else (r[0], not r[1], r[2])
        if isinstance(e, ast.Compare) and len(e.ops) == 1 and isinstance(e.ops[0], (ast.In, ast.NotIn)):
            coll = e.comparators[0]
            k = self.nodes_coll(coll)
            return e.left, isinstance(e.ops[0], ast.In), k if k else "other:" + norm(coll, 60)
        if isinstance(e, ast.Call) and isinstance(e.func, ast.Attribute) and e.func.attr == "has_node" and len(e.args) == 1 and self.G is not None and norm(e.func.value) == self.G:
            return e.args[0], True, "all"
        return None

    # ------------------------------------------------------------------ symbolic resolution
    def transparent(self, v: ast.expr) -> bool:
        """May a local bound once to `v` be replaced by `v` when matching shapes?  Selections (next/max/min) and option reads stay names."""
        if self.option_source(v) is not None:
            return False
        if isinstance(v, ast.Call) and isinstance(v.func, ast.Name) and v.func.id in OPAQUE_DEFS:
            return False
        if isinstance(v, (ast.Dict, ast.List, ast.Set)) and not (v.keys if isinstance(v, ast.Dict) else v.elts):
            return False  # an accumulator that is filled later
        if isinstance(v, ast.Call) and isinstance(v.func, ast.Name) and v.func.id in ("dict", "list", "set") and not v.args and not v.keywords:
            return False
        return True

    def resolve(self, e: ast.expr, bound: frozenset = frozenset(), depth: int = 0) -> ast.expr:
        if depth > 16:
            return _copy_node(e)
        if isinstance(e, ast.Name):
            if isinstance(e.ctx, ast.Load) and e.id not in bound:
                v = self.single_value(e.id)
                if v is not None and self.transparent(v) and not self._mutated_after_def(e.id):
                    return self.resolve(v, frozenset(), depth + 1)
                if not self.binds.get(e.id):
                    c = self.module_constant(e)
                    if c is not None:
                        return _copy_node(c)
            return _copy_node(e)
        if isinstance(e, ast.Attribute) and isinstance(e.value, ast.Name) and e.value.id == self.selfname and isinstance(e.ctx, ast.Load) and self.draw.cls is not None:
            m = self.repo.lookup_method(self.draw.cls, e.attr)
            if m is not None and m.is_property:
                body = [s for s in m.node.body if not (isinstance(s, ast.Expr) and isinstance(s.value, ast.Constant))]
                if len(body) == 1 and isinstance(body[0], ast.Return) and body[0].value is not None and m.param_names and m.param_names[0] == self.selfname:
                    return _copy_node(body[0].value)
        if isinstance(e, ast.Attribute) and isinstance(e.ctx, ast.Load):
            base = self.resolve(e.value, bound, depth + 1)
            if isinstance(base, ast.Call):
                fld = self._field_of_new_object(base, e.attr)
                if fld is not None:
                    return self.resolve(fld, bound, depth + 1)
                prop = self._property_of_new_object(base, e.attr)
                if prop is not None:
                    return self.resolve(prop, bound, depth + 1)
        if isinstance(e, (ast.ListComp, ast.SetComp, ast.GeneratorExp, ast.DictComp)):
            new = _copy_node(e)
            inner = bound
            for i, g in enumerate(e.generators):
                new.generators[i].iter = self.resolve(g.iter, inner if i else bound, depth + 1)
                inner = inner | {x.id for x in ast.walk(g.target) if isinstance(x, ast.Name)}
                new.generators[i].ifs = [self.resolve(c, inner, depth + 1) for c in g.ifs]
            if isinstance(e, ast.DictComp):
                new.key, new.value = self.resolve(e.key, inner, depth + 1), self.resolve(e.value, inner, depth + 1)
            else:
                new.elt = self.resolve(e.elt, inner, depth + 1)
            return new
        if isinstance(e, ast.Lambda):
            own = {a.arg for a in [*e.args.posonlyargs, *e.args.args, *e.args.kwonlyargs]}
            new = _copy_node(e)
            new.body = self.resolve(e.body, bound | own, depth + 1)
            return new
        new = type(e)()
        for f in e._fields:
            if not hasattr(e, f):
                continue
            val = getattr(e, f)
            if isinstance(val, ast.expr):
                setattr(new, f, self.resolve(val, bound, depth + 1))
            elif isinstance(val, list):
                setattr(new, f, [self.resolve(x, bound, depth + 1) if isinstance(x, ast.expr) else self._resolve_other(x, bound, depth) for x in val])
            elif isinstance(val, ast.AST):
                setattr(new, f, self._resolve_other(val, bound, depth))
            else:
                setattr(new, f, val)
        for a in ("lineno", "col_offset", "end_lineno", "end_col_offset", "_orig", "_src"):
            if hasattr(e, a):
                setattr(new, a, getattr(e, a))
        return new

    def _property_of_new_object(self, call: ast.Call, attr: str) -> ast.expr | None:
        """`Helper(args).prop` for a repo class with `@property def prop(self): return <expr>`: the expression with `self` := the call"""
        from .common import types_of

        ctx, orig = getattr(call, "_src", None) or getattr(call, "_orig", None) or (self.V, call)
        if not isinstance(orig, ast.Call):
            return None
        try:
            ci = types_of(self.repo).ctor_class(ctx, orig)
        except Exception:  # noqa: BLE001
            return None
        meth = self.repo.lookup_method(ci, attr) if ci is not None else None
        if meth is None or not meth.is_property or not meth.param_names:
            return None
        body = [s_ for s_ in meth.node.body if not (isinstance(s_, ast.Expr) and isinstance(s_.value, ast.Constant))]
        if len(body) != 1 or not isinstance(body[0], ast.Return) or body[0].value is None:
            return None
        selfname = meth.param_names[0]

        class S(ast.NodeTransformer):
            def visit_Name(self, node):  # noqa: N802
                return _copy_node(call) if node.id == selfname else node

        return S().visit(_tagged_copy(body[0].value, meth))

    def module_constant(self, e: ast.Name) -> ast.Constant | None:
        """a module-level name (of the module the expression came from, possibly imported) bound to a str / int literal"""
        ctx = (getattr(e, "_src", None) or getattr(e, "_orig", None) or (self.V, e))[0]
        mod = ctx.module
        for _ in range(3):
            v = mod.constants.get(e.id) if hasattr(mod, "constants") else None
            if isinstance(v, ast.Constant) and isinstance(v.value, (str, int)) and not isinstance(v.value, bool):
                return v
            fq = getattr(mod, "imports", {}).get(e.id)
            if not fq or "." not in fq:
                return None
            modname, name = fq.rsplit(".", 1)
            m2 = self.repo.modules.get(modname) if isinstance(getattr(self.repo, "modules", None), dict) else None
            if m2 is None or name != e.id:
                return None
            mod = m2
        return None

    def depends_on_aliases(self, e: ast.AST, depth: int = 0, seen: frozenset = frozenset()) -> bool:
        """`e` is computed (through any chain of locals, also opaque ones such as next(...) results and loop variables) from the alias mapping"""
        if depth > 8:
            return False
        for x in ast.walk(e):
            if isinstance(x, ast.expr) and self.is_A(x):
                return True
            if isinstance(x, ast.Name) and isinstance(x.ctx, ast.Load) and x.id not in seen:
                for b in self.binds.get(x.id, []):
                    if b.value is not None and self.depends_on_aliases(b.value, depth + 1, seen | {x.id}):
                        return True
        return False

    def depends_on_name(self, e: ast.AST, name: str, depth: int = 0, seen: frozenset = frozenset()) -> bool:
        """`e` reads local `name`, directly or through other locals (a value carried from one loop iteration / branch to the next)"""
        if depth > 8:
            return False
        for x in ast.walk(e):
            if isinstance(x, ast.Name) and isinstance(x.ctx, ast.Load):
                if x.id == name:
                    return True
                if x.id not in seen:
                    for b in self.binds.get(x.id, []):
                        if b.kind == "assign" and b.value is not None and self.depends_on_name(b.value, name, depth + 1, seen | {x.id}):
                            return True
        return False

    def _field_of_new_object(self, call: ast.Call, attr: str) -> ast.expr | None:
        """`Helper(args).attr` for a repo class whose constructor stores `self.attr = <expr over its parameters>`: that expression
        with the arguments substituted (a helper object created for one call is just a bundle of locals)."""
        from .common import types_of

        ctx, orig = getattr(call, "_src", None) or getattr(call, "_orig", None) or (self.V, call)
        if not isinstance(orig, ast.Call):
            return None
        try:
            ci = types_of(self.repo).ctor_class(ctx, orig)
        except Exception:  # noqa: BLE001
            return None
        if ci is None:
            return None
        init = self.repo.lookup_method(ci, "__init__")
        if any(isinstance(a, ast.Starred) for a in call.args) or any(k.arg is None for k in call.keywords):
            return None
        if init is None:
            fields = [a for c in reversed(self.repo.mro(ci)) for a in c.ann_attrs]
            env = dict(zip(fields, call.args))
            env.update({k.arg: k.value for k in call.keywords})
            return env.get(attr)
        params = [p.arg for p in [*init.node.args.posonlyargs, *init.node.args.args]][1:]
        if len(call.args) > len(params):
            return None
        env: dict[str, ast.expr] = dict(zip(params, call.args))
        env.update({k.arg: k.value for k in call.keywords})
        selfname = init.param_names[0]
        stores = []
        for st in init.node.body:
            tgts = st.targets if isinstance(st, ast.Assign) else ([st.target] if isinstance(st, ast.AnnAssign) and st.value is not None else [])
            for t in tgts:
                if isinstance(t, ast.Attribute) and isinstance(t.value, ast.Name) and t.value.id == selfname and t.attr == attr:
                    stores.append(st.value)
                elif isinstance(t, ast.Name) and isinstance(st, ast.Assign) and len(st.targets) == 1:
                    env.setdefault(t.id, None)  # a local of the constructor: not followed
                    env[t.id] = st.value if env[t.id] is None else env[t.id]
        all_stores = [n for n in ast.walk(init.node) if isinstance(n, ast.Attribute) and isinstance(n.ctx, ast.Store) and isinstance(n.value, ast.Name) and n.value.id == selfname and n.attr == attr]
        if len(stores) != 1 or len(all_stores) != 1:
            return None
        # fields read inside the stored expression (self.other) are resolved the same way
        outer = self

        class S(ast.NodeTransformer):
            def __init__(self, depth=0):
                self.depth = depth

            def visit_Name(self, node):  # noqa: N802
                if isinstance(node.ctx, ast.Load) and node.id in env and env[node.id] is not None and self.depth < 6:
                    return S(self.depth + 1).visit(_copy_node(env[node.id])) if node.id not in params else _copy_node(env[node.id])
                return node

            def visit_Attribute(self, node):  # noqa: N802
                if isinstance(node.value, ast.Name) and node.value.id == selfname:
                    inner = outer._field_of_new_object(call, node.attr) if node.attr != attr else None
                    return inner if inner is not None else node
                return self.generic_visit(node)

            def visit_Lambda(self, node):  # noqa: N802
                return node

        return S().visit(_tagged_copy(stores[0], init))

    def _resolve_other(self, x, bound, depth):
        if isinstance(x, ast.keyword):
            return ast.keyword(arg=x.arg, value=self.resolve(x.value, bound, depth + 1))
        if isinstance(x, ast.Slice):
            return ast.Slice(lower=self.resolve(x.lower, bound, depth + 1) if x.lower else None, upper=self.resolve(x.upper, bound, depth + 1) if x.upper else None, step=self.resolve(x.step, bound, depth + 1) if x.step else None)
        if isinstance(x, ast.FormattedValue):
            return ast.FormattedValue(value=self.resolve(x.value, bound, depth + 1), conversion=x.conversion, format_spec=x.format_spec)
        return _copy_node(x)

    def _mutated_after_def(self, name: str) -> bool:
        """A list bound once but sorted / extended in place afterwards is not the value it was bound to."""
        for n in _walk_own(self.fn.body):
            if isinstance(n, ast.Call) and isinstance(n.func, ast.Attribute) and isinstance(n.func.value, ast.Name) and n.func.value.id == name and n.func.attr in ("sort", "reverse", "append", "extend", "insert", "remove", "pop", "clear", "add", "update", "discard", "setdefault"):
                if name == self.kw or self.is_options(n.func.value):
                    continue
                return True
            if isinstance(n, ast.Subscript) and isinstance(n.ctx, (ast.Store, ast.Del)) and isinstance(n.value, ast.Name) and n.value.id == name:
                return True
        return False

    def _only_reordered(self, name: str) -> bool:
        """the only in-place changes of the list held by local `name` are sort() / reverse()"""
        for n in _walk_own(self.fn.body):
            if isinstance(n, ast.Call) and isinstance(n.func, ast.Attribute) and isinstance(n.func.value, ast.Name) and n.func.value.id == name and n.func.attr in ("append", "extend", "insert", "remove", "pop", "clear", "add", "update", "discard", "setdefault"):
                return False
            if isinstance(n, ast.Subscript) and isinstance(n.ctx, (ast.Store, ast.Del)) and isinstance(n.value, ast.Name) and n.value.id == name:
                return False
            if isinstance(n, ast.AugAssign) and isinstance(n.target, ast.Name) and n.target.id == name:
                return False
        return True

    def in_place_sorts(self, name: str) -> list[ast.Call]:
        return [n for n in _walk_own(self.fn.body) if isinstance(n, ast.Call) and isinstance(n.func, ast.Attribute) and isinstance(n.func.value, ast.Name) and n.func.value.id == name and n.func.attr in ("sort", "reverse")]

    def root_name(self, e: ast.expr) -> str | None:
        """Follows `x = y` chains (and `dict(y)` / `y.copy()` copies): the local that holds the container."""
        for _ in range(10):
            if isinstance(e, ast.Call) and isinstance(e.func, ast.Name) and e.func.id == "dict" and len(e.args) == 1 and not e.keywords:
                e = e.args[0]
                continue
            if isinstance(e, ast.Call) and isinstance(e.func, ast.Attribute) and e.func.attr == "copy" and not e.args:
                e = e.func.value
                continue
            if not isinstance(e, ast.Name):
                return None
            v = self.single_value(e.id)
            if isinstance(v, ast.Name) or (isinstance(v, ast.Call) and ((isinstance(v.func, ast.Name) and v.func.id == "dict" and len(v.args) == 1 and isinstance(v.args[0], ast.Name)) or (isinstance(v.func, ast.Attribute) and v.func.attr == "copy" and isinstance(v.func.value, ast.Name)))):
                e = v
                continue
            return e.id
        return None

    # ------------------------------------------------------------------ guards
    def helper_subst(self):
        inl = bool_inliner(self.repo).subst(self.V, 0, None)

        def sub(e: ast.expr):
            try:
                return inl(e)
            except Exception:  # noqa: BLE001
                return None

        return sub

    def formula(self, e: ast.expr, pol: bool = True) -> Formula:
        f = to_formula(self.resolve(e), self.helper_subst())
        return f if pol else f_not(f)

    def cond_list(self, node: ast.AST) -> list[tuple[ast.expr, bool]]:
        return conds(self.V, node)

    def guard(self, node: ast.AST, relative_to: ast.AST | None = None) -> Formula:
        """Path condition of `node`; with `relative_to` (an enclosing loop) only the conditions established inside that loop."""
        cs = self.cond_list(node)
        if relative_to is not None:
            outer = {id(c[0]) for c in self.cond_list(relative_to)}
            inside = {id(x) for x in ast.walk(relative_to)}
            cs = [c for c in cs if id(c[0]) not in outer and id(c[0]) in inside]
        return f_and([self.formula(e, pol) for e, pol in cs])

    # path conditions that survive mutations of the objects they mention ("the test held when it was evaluated")
    def history_conds(self, node: ast.AST) -> list[tuple[ast.expr, bool]]:
        if self._nk_pc is None:
            out: dict[int, list] = {}

            def block(stmts, cs):
                cs = list(cs)
                for s in stmts:
                    out[id(s)] = list(cs)
                    if isinstance(s, ast.If):
                        block(s.body, cs + ([] if s.orelse and _always_raises(s.orelse) else [(s.test, True)]))
                        block(s.orelse, cs + ([] if _always_raises(s.body) else [(s.test, False)]))
                        # a branch that always raises does not make what follows conditional: there is no other way on
                        if always_exits(s.body) and not _always_raises(s.body):
                            cs = cs + [(s.test, False)]
                        if s.orelse and always_exits(s.orelse) and not _always_raises(s.orelse):
                            cs = cs + [(s.test, True)]
                    elif isinstance(s, (ast.For, ast.AsyncFor, ast.While)):
                        block(s.body, cs)
                        block(s.orelse, cs)
                    elif isinstance(s, ast.Try):
                        block(s.body, cs)
                        for h in s.handlers:
                            out[id(h)] = list(cs)
                            block(h.body, cs)
                        block(s.orelse, cs)
                        block(s.finalbody, cs)
                    elif isinstance(s, (ast.With, ast.AsyncWith)):
                        block(s.body, cs)
                return cs

            block(self.fn.body, [])
            self._nk_pc = out
        n = node
        while n is not None and not isinstance(n, (ast.stmt, ast.ExceptHandler)):
            n = parent(n)
        return list(self._nk_pc.get(id(n), []))

    # ------------------------------------------------------------------ structure
    def loops_around(self, node: ast.AST, whiles: bool = False) -> list[ast.For]:
        """Enclosing for-loops (optionally also while-loops), outermost first."""
        kinds = (ast.For, ast.AsyncFor, ast.While) if whiles else (ast.For, ast.AsyncFor)
        out = []
        child = node
        for a in ancestors(node):
            # a statement in the `else:` of a loop runs once, after the loop: it is not *in* the loop
            if isinstance(a, kinds) and not any(child is x for x in a.orelse):
                out.append(a)
            child = a
        return list(reversed(out))

    def in_else_of(self, node: ast.AST):
        """the loop in whose `else:` block `node` sits (directly or nested in ifs), if any"""
        child = node
        for a in ancestors(node):
            if isinstance(a, (ast.For, ast.AsyncFor, ast.While)):
                return a if any(child is x for x in a.orelse) else None
            child = a
        return None

    def stmt_of(self, node: ast.AST) -> ast.AST:
        n = node
        while n is not None and not isinstance(n, (ast.stmt, ast.ExceptHandler)):
            n = parent(n)
        return n

    def shown(self, node: ast.AST, limit: int = 90) -> str:
        return norm(node, limit)

    def where(self, node: ast.AST) -> str:
        ctx, orig = getattr(node, "_src", (self.draw, node))
        return f"{ctx.relpath}:{getattr(orig, 'lineno', getattr(node, 'lineno', 0))}"


def _always_raises(stmts: list) -> bool:
    for s in stmts:
        if isinstance(s, ast.Raise):
            return True
        if isinstance(s, ast.If) and s.orelse and _always_raises(s.body) and _always_raises(s.orelse):
            return True
    return False


def parse_atom(text: str) -> ast.expr | None:
    try:
        return ast.parse(text, mode="eval").body
    except SyntaxError:
        return None
