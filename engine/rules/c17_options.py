"""C17.R5 - what reaches the backend: a symbolic evaluation of the dict that is spliced into `draw_networkx(graph, **X)`.

The options dict may be the caller's **kwargs mutated in place (`pop`, `del`, `[k] = v`, `update`, `|=`), a copy of it, a filtered
copy (`{k: v for k, v in kwargs.items() if k not in OWN}`), a merge (`{**kwargs, **layout, **labels}`, `a | b`, `x.update(y)`),
built in helpers that return `{}` or `{"pos": ...}` - or any mixture.  The evaluation yields

    passthrough     the caller's options are part of X
    consumed[k]     where option k is taken out of them (pop / del / filter)
    stored[k]       where key k is added, with the value and the statements whose path conditions apply
    odd             parts that could not be read (-> undecided, never a violation)
"""

from __future__ import annotations

import ast

from core.loader import norm

from .c17_model import Model, const_str
from .c17_view import _walk_own


class OptionsEval:
    def __init__(self, C) -> None:
        self.C = C
        self.M: Model = C.M
        self.passthrough = False
        self.consumed: dict[str, list] = {}  # key -> [node | ("always", node)]
        self.stored: dict[str, list] = {}  # key -> [(nodes tuple, value expr)]
        self.odd: list[str] = []
        self._visiting: set[str] = set()
        self._mutations_done: set[str] = set()

    # ------------------------------------------------------------------ constants
    def consts_of(self, e: ast.expr, depth: int = 0) -> list[str] | None:
        """option names listed by `e`: a tuple/list/set/frozenset literal, the keys of a dict literal, a local or class attribute bound to one"""
        M = self.M
        if depth > 5:
            return None
        if isinstance(e, (ast.Tuple, ast.List, ast.Set)):
            ks = [const_str(x) for x in e.elts]
            return None if any(k is None for k in ks) else ks
        if isinstance(e, ast.Dict):
            ks = [const_str(k) if k is not None else None for k in e.keys]
            return None if any(k is None for k in ks) else ks
        if isinstance(e, ast.Call) and isinstance(e.func, ast.Name) and e.func.id in ("frozenset", "set", "tuple", "list", "sorted") and len(e.args) == 1 and not e.keywords:
            return self.consts_of(e.args[0], depth + 1)
        if isinstance(e, (ast.GeneratorExp, ast.ListComp, ast.SetComp)) and len(e.generators) == 1 and not e.generators[0].ifs and isinstance(e.generators[0].target, ast.Name):
            # one column of a constant table: `row.name for row in TABLE` / `row[0] for row in TABLE` / `name for name, _ in TABLE`
            rows = self._table_rows(e.generators[0].iter)
            if rows is None:
                return None
            ks = [const_str(v) if v is not None else None for v in (self._column(e.elt, e.generators[0].target.id, r) for r in rows)]
            return None if any(k is None for k in ks) else ks
        if isinstance(e, ast.Call) and isinstance(e.func, ast.Attribute) and e.func.attr == "keys" and not e.args:
            return self.consts_of(e.func.value, depth + 1)
        if isinstance(e, ast.Call) and isinstance(e.func, ast.Attribute) and e.func.attr == "values" and not e.args:
            d = e.func.value
            for _ in range(4):
                if isinstance(d, ast.Dict):
                    vs = [const_str(v) for v in d.values]
                    return None if any(v is None for v in vs) else vs
                nxt = None
                if isinstance(d, ast.Name):
                    nxt = M.single_value(d.id) or (self.C.draw.module.constants.get(d.id) if not M.binds.get(d.id) else None)
                elif isinstance(d, ast.Attribute) and isinstance(d.value, ast.Name) and self.C.draw.cls is not None:
                    nxt = next((c.class_attrs[d.attr] for c in self.C.repo.mro(self.C.draw.cls) if d.attr in c.class_attrs), None)
                if nxt is None:
                    return None
                d = nxt
            return None
        if isinstance(e, ast.Name):
            v = M.single_value(e.id)
            if v is not None:
                return self.consts_of(v, depth + 1)
            mod = self.C.draw.module
            if e.id in mod.constants and not M.binds.get(e.id):
                return self.consts_of(mod.constants[e.id], depth + 1)
            return None
        if isinstance(e, ast.Attribute) and isinstance(e.value, ast.Name) and self.C.draw.cls is not None:
            if e.value.id in (M.selfname, "cls", self.C.draw.cls.name):
                for c in self.C.repo.mro(self.C.draw.cls):
                    if e.attr in c.class_attrs:
                        return self.consts_of(c.class_attrs[e.attr], depth + 1)
            # a constant of another repo class (`DrawOptions.OWN_OPTIONS`)
            ctx = (getattr(e, "_src", None) or getattr(e, "_orig", None) or (M.V, e))[0]
            ci = ctx.module.classes.get(e.value.id)
            if ci is None:
                fq = ctx.module.imports.get(e.value.id)
                ci = self.C.repo.classes.get(fq) if fq else None
            if ci is not None:
                for c in self.C.repo.mro(ci):
                    if e.attr in c.class_attrs:
                        return self.consts_of(c.class_attrs[e.attr], depth + 1)
        return None

    def _table_rows(self, it: ast.expr, depth: int = 0) -> list[ast.expr] | None:
        """the rows of a constant table given as a tuple / list literal (directly, through a local bound once or a module-level name)"""
        M = self.M
        if depth > 4:
            return None
        if isinstance(it, (ast.Tuple, ast.List)) and it.elts and not any(isinstance(x, ast.Starred) for x in it.elts):
            return list(it.elts)
        if isinstance(it, ast.Name):
            v = M.single_value(it.id)
            if v is None and not M.binds.get(it.id):
                v = self.C.draw.module.constants.get(it.id)
            return self._table_rows(v, depth + 1) if v is not None else None
        return None

    def _column(self, elt: ast.expr, var: str, row: ast.expr) -> ast.expr | None:
        from .c17_view import record_fields_of

        if isinstance(elt, ast.Name) and elt.id == var:
            return row
        rec = record_fields_of(self.C.repo, self.C.draw.module, row)
        if isinstance(elt, ast.Attribute) and isinstance(elt.value, ast.Name) and elt.value.id == var and rec is not None:
            return rec.get(elt.attr)
        if isinstance(elt, ast.Subscript) and isinstance(elt.value, ast.Name) and elt.value.id == var and isinstance(elt.slice, ast.Constant) and isinstance(elt.slice.value, int):
            i = elt.slice.value
            if isinstance(row, (ast.Tuple, ast.List)) and 0 <= i < len(row.elts):
                return row.elts[i]
            if rec is not None and 0 <= i < len(rec["#order"]):
                return rec[rec["#order"][i]]
        return None

    # ------------------------------------------------------------------ evaluation
    def eval(self, e: ast.expr, ctx: tuple = (), depth: int = 0) -> None:
        M = self.M
        if depth > 12:
            self.odd.append("options built through too many indirections")
            return
        if isinstance(e, ast.Name):
            name = e.id
            if name in self._visiting:
                return
            bs = M.binds.get(name, [])
            real = [b for b in bs if not M._merge_update(b)]
            if name == M.kw and len(real) == 1 and real[0].kind == "param":
                self.passthrough = True
                self.mutations(name, ctx, depth)
                return
            if not real or any(b.kind != "assign" or b.value is None for b in real):
                self.odd.append(f"`{name}` (part of the backend options) is not bound by plain assignments")
                return
            self._visiting.add(name)
            try:
                # `x = <first>` ... `x = dict(x)`: the later binding builds on the earlier one (its own name is skipped while it is read)
                for b in real:
                    self.eval(b.value, ctx + ((b.stmt,) if len(real) > 1 else ()), depth + 1)
            finally:
                self._visiting.discard(name)
            self.mutations(name, ctx, depth)
            return
        if isinstance(e, ast.Call) and isinstance(e.func, ast.Name) and e.func.id == "dict" and not e.keywords and len(e.args) <= 1:
            if e.args:
                self.eval(e.args[0], ctx, depth + 1)
            return
        if isinstance(e, ast.Call) and isinstance(e.func, ast.Name) and e.func.id == "dict" and not e.args and all(k.arg is not None for k in e.keywords):
            for k in e.keywords:
                self.stored.setdefault(k.arg, []).append((ctx + (k.value,), k.value))
            return
        if isinstance(e, ast.Call) and isinstance(e.func, ast.Attribute) and e.func.attr == "copy" and not e.args:
            self.eval(e.func.value, ctx, depth + 1)
            return
        if isinstance(e, ast.Dict):
            for k, v in zip(e.keys, e.values):
                if k is None:
                    self.eval(v, ctx, depth + 1)
                elif const_str(k) is not None:
                    self.stored.setdefault(const_str(k), []).append((ctx + (e,), v))
                else:
                    self.odd.append(f"`{norm(e, 50)}` sets an option whose name is not a constant")
            return
        if isinstance(e, ast.DictComp):
            fk = self._filter_keys(e)
            if fk is not None:
                base, keys = fk
                self.eval(base, ctx, depth + 1)
                for k in keys:
                    self.consumed.setdefault(k, []).append(("always", e))
                return
            self.odd.append(f"`{norm(e, 60)}` builds options in a form that is not read")
            return
        if isinstance(e, ast.BinOp) and isinstance(e.op, ast.BitOr):
            self.eval(e.left, ctx, depth + 1)
            self.eval(e.right, ctx, depth + 1)
            return
        if isinstance(e, ast.IfExp):
            self.odd.append(f"`{norm(e, 60)}`: options chosen by a conditional expression are not read")
            return
        if isinstance(e, ast.Attribute):
            r = M.resolve(e)
            if not isinstance(r, ast.Attribute):
                self.eval(r, ctx, depth + 1)
                return
        self.odd.append(f"`{norm(e, 60)}` (part of the backend options) is not read")

    def _filter_keys(self, e: ast.DictComp):
        """`{k: v for k, v in X.items() if k not in OWN and k != 'x'}`  ->  (X, [names])"""
        if len(e.generators) != 1:
            return None
        g = e.generators[0]
        it = g.iter
        if not (isinstance(it, ast.Call) and isinstance(it.func, ast.Attribute) and it.func.attr == "items" and not it.args and isinstance(g.target, ast.Tuple) and len(g.target.elts) == 2 and all(isinstance(x, ast.Name) for x in g.target.elts)):
            return None
        k, v = g.target.elts[0].id, g.target.elts[1].id
        if not (isinstance(e.key, ast.Name) and e.key.id == k and isinstance(e.value, ast.Name) and e.value.id == v):
            return None
        keys: list[str] = []
        for c in g.ifs:
            parts = c.values if isinstance(c, ast.BoolOp) and isinstance(c.op, ast.And) else [c]
            for p_ in parts:
                if isinstance(p_, ast.UnaryOp) and isinstance(p_.op, ast.Not) and isinstance(p_.operand, ast.Compare) and len(p_.operand.ops) == 1 and isinstance(p_.operand.ops[0], ast.In):
                    p_ = ast.Compare(left=p_.operand.left, ops=[ast.NotIn()], comparators=p_.operand.comparators)
                if isinstance(p_, ast.Compare) and len(p_.ops) == 1 and isinstance(p_.left, ast.Name) and p_.left.id == k:
                    r = p_.comparators[0]
                    if isinstance(p_.ops[0], ast.NotIn):
                        cs = self.consts_of(r)
                        if cs is not None:
                            keys += cs
                            continue
                    if isinstance(p_.ops[0], ast.NotEq) and const_str(r) is not None:
                        keys.append(const_str(r))
                        continue
                return None
        return it.func.value, keys

    def mutations(self, name: str, ctx: tuple, depth: int) -> None:
        """in-place changes of the dict held by local `name` (anywhere in the flattened draw())"""
        if name in self._mutations_done:
            return
        self._mutations_done.add(name)
        M = self.M
        for n in _walk_own(M.fn.body):
            if isinstance(n, ast.Call) and isinstance(n.func, ast.Attribute) and isinstance(n.func.value, ast.Name) and n.func.value.id == name:
                a = n.func.attr
                st = M.stmt_of(n)
                if a == "pop":
                    k = const_str(n.args[0]) if n.args else None
                    if k is None and n.args:
                        k = const_str(M.resolve(n.args[0]))
                    if k is None:
                        self.odd.append(f"`{norm(n, 50)}` removes an option that is not a constant name")
                    else:
                        self.consumed.setdefault(k, []).append(n)
                elif a == "setdefault":
                    if n.args and const_str(n.args[0]) is not None:
                        self.stored.setdefault(const_str(n.args[0]), []).append((ctx + (n,), n.args[1] if len(n.args) > 1 else None))
                    else:
                        self.odd.append(f"`{norm(n, 50)}` sets an option whose name is not a constant")
                elif a == "update":
                    for k in n.keywords:
                        if k.arg is None:
                            self.eval(k.value, ctx + (st,), depth + 1)
                        else:
                            self.stored.setdefault(k.arg, []).append((ctx + (n,), k.value))
                    for arg in n.args:
                        self.eval(arg, ctx + (st,), depth + 1)
                elif a in ("clear", "popitem", "__delitem__", "__setitem__"):
                    self.odd.append(f"`{norm(n, 50)}` changes the options wholesale")
            elif isinstance(n, ast.AugAssign) and isinstance(n.target, ast.Name) and n.target.id == name:
                if isinstance(n.op, ast.BitOr):
                    self.eval(n.value, ctx + (n,), depth + 1)
                else:
                    self.odd.append(f"`{norm(n, 50)}` changes the options in a form that is not read")
            elif isinstance(n, ast.Subscript) and isinstance(n.value, ast.Name) and n.value.id == name and isinstance(n.ctx, (ast.Store, ast.Del)):
                k = const_str(n.slice)
                if k is None and isinstance(n.slice, ast.expr):
                    k = const_str(M.resolve(n.slice))  # a local bound once to the option's name
                if k is None:
                    self.odd.append(f"`{norm(M.stmt_of(n), 60)}` writes an option whose name is not a constant")
                elif isinstance(n.ctx, ast.Del):
                    self.consumed.setdefault(k, []).append(n)
                else:
                    st = M.stmt_of(n)
                    val = st.value if isinstance(st, (ast.Assign, ast.AnnAssign)) and not isinstance(getattr(st, "targets", [None])[0], ast.Tuple) else None
                    self.stored.setdefault(k, []).append((ctx + (n,), val))
