"""C17 - the rules that read the label mechanism from the deep view (R4: existence check; R1 shape / R2 / R3: labels)."""

from __future__ import annotations

import ast

from core.guards import TRUE, atom, atoms_of, equivalent, evaluate, f_and, f_not, implies
from core.loader import AnalysisError, norm, parent

from .c17_model import Model, parse_atom, strip_wrappers
from .c17_view import _walk_own
from .common import cfg_of

SET_WRAPPERS = {"list", "tuple", "set", "frozenset", "sorted", "iter", "reversed"}


# =========================================================================== shared recognisers


def remaining_helper_calls(C, about=None) -> list[ast.Call]:
    """Opaque calls (see opaque_calls), optionally only those that receive an argument for which `about(resolved argument)` holds."""
    M: Model = C.M
    out = []
    for c in opaque_calls(C):
        if about is None or any(about(M.resolve(a)) for a in [*c.args, *[k.value for k in c.keywords]]) or (isinstance(c.func, ast.Attribute) and about(M.resolve(c.func.value))):
            out.append(c)
    return out


def opaque_calls(C) -> list[ast.Call]:
    """Calls in the view whose target is not known (callables passed around, unresolved receivers) or a repo helper that was not
    flattened: anything may happen in there, so their presence forbids conclusions from *absence* ('nothing raises', 'nothing stores')."""
    M: Model = C.M
    out = []
    for c in _walk_own(M.fn.body):
        if not isinstance(c, ast.Call) or getattr(c, "_ctor_inlined", False):
            continue
        ctx, orig = getattr(c, "_src", (M.V, c))
        if not isinstance(orig, ast.Call):
            continue
        try:
            cs, how = C.types.callees(ctx, orig, byname_fallback=False)
        except Exception:  # noqa: BLE001
            out.append(c)
            continue
        if cs and how == "repo" and all(f.name in C.vocabulary for f in cs):
            continue
        if cs or how in ("unresolved", "callable-param", "byname"):
            out.append(c)
    return out


def key_loop_var(M: Model, loop) -> str | None:
    """Name that ranges over *all* aliased module names in `for <target> in <iter>` (a For statement or a comprehension generator)."""
    it = M.resolve(loop.iter)
    kind = M.keys_of_A(it)
    t = loop.target
    if kind == "keys" and isinstance(t, ast.Name):
        return t.id
    if kind == "items" and isinstance(t, (ast.Tuple, ast.List)) and len(t.elts) == 2 and isinstance(t.elts[0], ast.Name):
        return t.elts[0].id
    if kind == "items" and isinstance(t, ast.Name):
        return f"{t.id}[0]"
    if kind is None and isinstance(t, ast.Name):
        # one small object per aliased module: the name is a field of it
        from .c17_labels import object_items

        info = object_items(M, it)
        if info is not None:
            return f"{t.id}.{info['module']}"
    return None


def _is_var(e: ast.AST, var: str) -> bool:
    """`e` is the variable (or, for items / objects, the expression) `var`"""
    if isinstance(e, ast.Name):
        return e.id == var
    return isinstance(e, ast.expr) and not var.isidentifier() and norm(e, 300) == var


def _mentions_var(e: ast.AST, var: str) -> bool:
    return any(_is_var(x, var) for x in ast.walk(e))


def partial_key_loop_var(M: Model, loop) -> str | None:
    """Name that ranges over a *part* of the aliased names only (a slice of them)."""
    it = M.resolve(loop.iter)
    it = strip_wrappers(it, SET_WRAPPERS)
    if isinstance(it, ast.Subscript) and isinstance(it.slice, ast.Slice) and not (it.slice.lower is None and it.slice.upper is None) and M.keys_of_A(it.value) == "keys" and isinstance(loop.target, ast.Name):
        return loop.target.id
    return None


def membership_atoms(M: Model, f, var: str | None):
    """atoms of `f` that test `var in <collection>`: {atom text: 'all' | 'filtered' | 'other:<text>'}"""
    out = {}
    for a in atoms_of(f):
        e = parse_atom(a)
        if e is None:
            continue
        m = M.node_membership(e)
        tested = m[0] if m is not None else None
        while isinstance(tested, ast.Call) and isinstance(tested.func, ast.Name) and tested.func.id == "str" and len(tested.args) == 1 and not tested.keywords:
            tested = tested.args[0]  # str() of a name is the name
        if m is not None and (var is None or _is_var(tested, var)):
            out[a] = m[2]
    return out


def transformed_membership(M: Model, f, var: str):
    """a membership test in the graph's nodes whose tested value is computed FROM the aliased name `var` but is not the name itself
    (`flatten(var) in nodes`, `var.lower() in nodes`, `var.split('.')[0] in nodes`)  ->  (atom text, text of the tested value)"""
    for a in atoms_of(f):
        e = parse_atom(a)
        m = M.node_membership(e) if e is not None else None
        if m is None or m[2] != "all":
            continue
        tested = m[0]
        while isinstance(tested, ast.Call) and isinstance(tested.func, ast.Name) and tested.func.id == "str" and len(tested.args) == 1 and not tested.keywords:
            tested = tested.args[0]  # str() of a str is the same name
        if _is_var(tested, var):
            continue
        if _mentions_var(tested, var):
            return a, norm(m[0], 70)
    return None


def unknown_coll(M: Model, e: ast.expr):
    """resolved `e` = collection of the aliased names that are not nodes.  -> ('ok', None) | ('other', text) | None"""
    e = strip_wrappers(e, SET_WRAPPERS)
    if isinstance(e, (ast.ListComp, ast.SetComp, ast.GeneratorExp)) and len(e.generators) == 1:
        g = e.generators[0]
        var = key_loop_var(M, g)
        if var is None or not (isinstance(e.elt, ast.Name) and e.elt.id == var) or not g.ifs:
            return None
        from core.guards import to_formula

        f = f_and([to_formula(c, M.helper_subst()) for c in g.ifs])
        ms = membership_atoms(M, f, var)
        for a, kind in ms.items():
            if equivalent(f, f_not(atom(a))):
                return ("ok", None) if kind == "all" else ("other", kind.split(":", 1)[-1])
        tm = transformed_membership(M, f, var)
        if tm is not None and equivalent(f, f_not(atom(tm[0]))):
            return ("transformed", tm[1])
        return None
    if isinstance(e, ast.Call) and isinstance(e.func, ast.Name) and e.func.id == "filter" and len(e.args) == 2 and isinstance(e.args[0], ast.Lambda) and len(e.args[0].args.args) == 1:
        from core.guards import to_formula

        if M.keys_of_A(e.args[1]) != "keys":
            return None
        var = e.args[0].args.args[0].arg
        f = to_formula(e.args[0].body, M.helper_subst())
        for a, kind in membership_atoms(M, f, var).items():
            if equivalent(f, f_not(atom(a))):
                return ("ok", None) if kind == "all" else ("other", kind.split(":", 1)[-1])
        return None
    if isinstance(e, ast.BinOp) and isinstance(e.op, ast.Sub):
        l, r = strip_wrappers(e.left, SET_WRAPPERS), e.right
        if M.keys_of_A(l) == "keys":
            k = M.nodes_coll(r)
            if k == "all":
                return ("ok", None)
            return ("other", norm(r, 60))
    if isinstance(e, ast.Call) and isinstance(e.func, ast.Attribute) and e.func.attr == "difference" and len(e.args) == 1:
        if M.keys_of_A(strip_wrappers(e.func.value, SET_WRAPPERS)) == "keys":
            k = M.nodes_coll(e.args[0])
            return ("ok", None) if k == "all" else ("other", norm(e.args[0], 60))
    return None


def unknown_exists(M: Model, e: ast.expr):
    """resolved boolean `e` that is true iff some aliased name is not a node: any(k not in nodes for k in aliases), not all(k in nodes ...),
    not set(aliases) <= set(nodes), not set(aliases).issubset(nodes).   -> (('ok'|'other', text), polarity) | None"""
    from core.guards import to_formula

    if isinstance(e, ast.UnaryOp) and isinstance(e.op, ast.Not):
        r = unknown_exists(M, e.operand)
        return None if r is None else (r[0], not r[1])
    if isinstance(e, ast.Call) and isinstance(e.func, ast.Name) and e.func.id in ("any", "all") and len(e.args) == 1 and isinstance(e.args[0], (ast.GeneratorExp, ast.ListComp)) and len(e.args[0].generators) == 1:
        g = e.args[0].generators[0]
        var = key_loop_var(M, g)
        if var is None or g.ifs:
            return None
        f = to_formula(e.args[0].elt, M.helper_subst())
        for a, kind in membership_atoms(M, f, var).items():
            want = f_not(atom(a)) if e.func.id == "any" else atom(a)
            if equivalent(f, want):
                u = ("ok", None) if kind == "all" else ("other", kind.split(":", 1)[-1])
                return u, e.func.id == "any"
        return None
    l = r = None
    if isinstance(e, ast.Compare) and len(e.ops) == 1 and isinstance(e.ops[0], ast.LtE):
        l, r = e.left, e.comparators[0]
    elif isinstance(e, ast.Call) and isinstance(e.func, ast.Attribute) and e.func.attr == "issubset" and len(e.args) == 1:
        l, r = e.func.value, e.args[0]
    if l is not None and M.keys_of_A(strip_wrappers(l, SET_WRAPPERS)) == "keys":
        k = M.nodes_coll(r)
        return (("ok", None) if k == "all" else ("other", norm(r, 60))), False
    return None


def contains_unknown_coll(M: Model, e: ast.AST, depth: int = 0) -> bool:
    """`e` mentions the collection of unknown aliased names (directly or through a local bound to an element of it)"""
    for n in ast.walk(e):
        if isinstance(n, ast.expr) and unknown_coll(M, n) is not None:
            return True
        if isinstance(n, ast.Name) and isinstance(n.ctx, ast.Load) and depth < 4:
            v = M.single_value(n.id)
            if v is not None and contains_unknown_coll(M, M.resolve(v), depth + 1):
                return True
            b = M.loop_binding(n.id)
            if b is not None and b.value is not None and unknown_coll(M, M.resolve(b.value)) is not None:
                return True
    return False


def naming_of(M: Model, exc: ast.expr, named: bool) -> str:
    """'yes' | 'no' (the error text has no variable part that could be the module) | 'maybe'"""
    if named:
        return "yes"
    variable = [x for x in ast.walk(exc) if isinstance(x, ast.Name) and isinstance(x.ctx, ast.Load) and not (isinstance(parent(x), ast.Call) and parent(x).func is x)]
    variable = [x for x in variable if x.id not in ("KeyError", "ValueError", "Exception", "LookupError", "TypeError", "RuntimeError")]
    return "maybe" if variable else "no"


# =========================================================================== R4


def existence_check(C) -> None:
    M: Model = C.M
    rule = "C17.R4"
    first, naming = "existence check first", "raises naming the module"
    if not M.alias_sources():
        C.unsure(rule, first, "the alias mapping is not read from the options (kwargs.pop('aliases') / kwargs['aliases'] / kwargs.get('aliases'))")
        return
    findings = []  # (status, decision stmt, raise, detail)
    for r in _walk_own(M.fn.body):
        if isinstance(r, ast.Raise) and r.exc is not None:
            got = _analyse_raise(C, r)
            if got is not None:
                findings.append(got)
    good = [f for f in findings if f[0] == "ok"]
    if good:
        _st, decision, r, detail, named = good[0]
        nm = naming_of(M, M.resolve(r.exc), named)
        if nm == "yes":
            C.ok(rule, naming, "an alias for a module that is not in the graph raises an error naming it", r, kind="dominance")
        elif nm == "no":
            C.bad(rule, naming, f"`{norm(r.exc, 80)}` does not name the unknown module", r, kind="dominance")
        else:
            C.unsure(rule, naming, f"`{norm(r.exc, 80)}`: whether the error text names the unknown module was not established", r)
        call = M.backend_calls[0] if len(M.backend_calls) == 1 else None
        cfg = cfg_of(M.V)
        tgt = M.stmt_of(C.label_store) if C.label_store is not None else None
        ok = None
        if tgt is not None and cfg.dominates(decision, tgt):
            ok = True
        elif call is not None and cfg.dominates(decision, M.stmt_of(call)):
            ok = True
        elif tgt is not None and call is not None:
            # labels are stored before the check: fine as long as the backend is not reached without it
            ok = not cfg.paths_avoiding(tgt, M.stmt_of(call), {decision})
        if ok:
            C.ok(rule, first, "aliases are validated before labels are handed to the backend", decision, kind="dominance")
        elif ok is None:
            C.unsure(rule, first, "position of the existence check relative to the backend call not established", decision)
        else:
            C.bad(rule, first, "labels reach the backend on a path on which the aliased modules have not been checked for existence", decision, kind="dominance")
        return
    viol = [f for f in findings if f[0] == "violation"]
    if viol:
        _st, decision, r, detail, named = viol[0]
        C.bad(rule, naming, detail, r, kind="dominance")
        return
    unsure = [f for f in findings if f[0] == "unknown"]
    hidden = remaining_helper_calls(C, about=M.mentions_A)
    if not unsure:
        # a raise that depends on the aliases in a way that was not read is not 'no check'
        for r in _walk_own(M.fn.body):
            if isinstance(r, ast.Raise):
                around = [M.resolve(L.iter) for L in M.loops_around(r)] + [M.resolve(c[0]) for c in M.history_conds(r)] + ([M.resolve(r.exc)] if r.exc is not None else [])
                if any(M.mentions_A(x) or _mentions_a_key(M, x) or M.depends_on_aliases(x) for x in around):
                    unsure.append(("unknown", None, r, f"`{norm(r.exc, 60) if r.exc is not None else 'raise'}` depends on the aliases in a way that is not recognised as the existence check", False))
                    break
    if unsure:
        C.unsure(rule, naming, unsure[0][3], unsure[0][2])
    elif hidden or opaque_calls(C):
        h = (hidden or opaque_calls(C))[0]
        C.unsure(rule, first, f"`{norm(h, 60)}` could not be flattened into draw: the existence check may be in there", h)
    else:
        C.bad(rule, first, "labels are built without the aliased modules having been checked for existence: nothing between reading 'aliases' and the backend call raises for an unknown module", kind="dominance")
        C.bad(rule, naming, "an alias for an unknown module is not rejected with an error that names the module", kind="dominance")


def _mentions_a_key(M: Model, e: ast.AST) -> bool:
    """`e` mentions a variable that ranges over the aliased names"""
    for x in ast.walk(e):
        if isinstance(x, ast.Name):
            b = M.loop_binding(x.id)
            if b is not None and b.value is not None and M.mentions_A(M.resolve(b.value)):
                return True
    return False


def _analyse_raise(C, r: ast.Raise):
    M: Model = C.M
    exc = M.resolve(r.exc)
    # ---- shape (i): inside a loop over all aliased names
    for L in reversed(M.loops_around(r)):
        k = key_loop_var(M, L)
        pk = partial_key_loop_var(M, L) if k is None else None
        if pk is not None:
            f = M.guard(r, relative_to=L)
            if any(equivalent(f, f_not(atom(a))) for a in membership_atoms(M, f, pk)):
                return ("violation", L, r, f"only a part of the aliased modules is checked for existence (`{norm(L.iter, 60)}`)", True)
        if k is None:
            # shape (iv): loop over the collection of unknown names
            u = unknown_coll(M, M.resolve(L.iter))
            if u is not None and isinstance(L.target, ast.Name):
                f = M.guard(r, relative_to=L)
                named = any(isinstance(x, ast.Name) and x.id == L.target.id for x in ast.walk(exc))
                if u[0] == "transformed":
                    return ("violation", L, r, f"the existence check looks up `{u[1]}` - a value computed from the aliased module's name, not the name itself - in the graph's nodes: a module that does not exist passes the check whenever its transformed name is a node", named)
                if u[0] == "other" and M.G is not None and M.G in (u[1] or ""):
                    return ("unknown", L, r, f"`{u[1]}` is not recognised as the nodes of the drawn graph", named)
                if u[0] == "other":
                    return ("violation", L, r, f"the existence of aliased modules is checked against `{u[1]}`, not against the nodes of the drawn graph", named)
                if f == TRUE:
                    return ("ok", L, r, "", named)
                return ("unknown", L, r, f"raise inside a loop over the unknown aliased modules under a further condition `{norm(r, 60)}`", named)
            continue
        f = M.guard(r, relative_to=L)
        ms = membership_atoms(M, f, k)
        named = _mentions_var(exc, k)
        tm = transformed_membership(M, f, k)
        if tm is not None and not ms:
            try:
                decides = equivalent(f, f_not(atom(tm[0]))) or implies(f, f_not(atom(tm[0])))
            except AnalysisError:
                decides = False
            if decides:
                return ("violation", L, r, f"the existence check looks up `{tm[1]}` - a value computed from the aliased module's name, not the name itself - in the graph's nodes: a module that does not exist passes the check whenever its transformed name is a node", named)
        if not ms:
            if M.mentions_A(M.resolve(L.iter)):
                return ("unknown", L, r, f"`{norm(r.exc, 60)}` is raised in a loop over the aliases under a condition that is not a membership test of the aliased module in the graph's nodes", named)
            continue
        for a, kind in ms.items():
            try:
                eq = equivalent(f, f_not(atom(a)))
                stronger = implies(f, f_not(atom(a)))
            except AnalysisError:
                continue
            if eq and kind == "all":
                return ("ok", L, r, "", named)
            if eq and kind.startswith("other:") and M.G is not None and M.G not in kind:
                return ("violation", L, r, f"the existence of aliased modules is checked against `{kind.split(':', 1)[-1]}`, not against the nodes of the drawn graph", named)
            if eq:
                return ("unknown", L, r, f"the collection `{kind.split(':', 1)[-1]}` the aliased modules are looked up in is not recognised as the nodes of the drawn graph", named)
            if stronger and kind == "all":
                return ("violation", L, r, f"an alias for an unknown module is not rejected on every path: the error is only raised under the further condition `{norm(M.stmt_of(r) if False else _if_text(M, r), 70)}`", named)
        return ("unknown", L, r, f"condition of `{norm(r.exc, 50)}` not recognised as 'the aliased module is not a node'", named)
    # ---- shapes (ii) / (iii): a collected set of unknown names / the first unknown name
    # (conditions that already hold where the aliases are read - 'the option was given' in whatever spelling - are context)
    context = {id(c[0]) for x in M.alias_sources() for c in M.cond_list(M.stmt_of(x))} | {id(c[0]) for x in M.alias_sources() for c in M.history_conds(x)}
    f = f_and([M.formula(e, pol) for e, pol in M.cond_list(r) if id(e) not in context and not C.is_presence_test(e)])
    u_atoms, other = {}, []
    for a in atoms_of(f):
        e = parse_atom(a)
        inner = e.args[0] if isinstance(e, ast.Call) and isinstance(e.func, ast.Name) and e.func.id == "bool" and len(e.args) == 1 else e
        u = unknown_coll(M, inner) if inner is not None else None
        if u is not None:
            u_atoms[a] = (u, True)
            continue
        ue = unknown_exists(M, inner) if inner is not None else None
        if ue is not None:
            u_atoms[a] = ue
            continue
        # `x is <default>` where x = next(<unknown names>, <default>)   (None or a sentinel)
        if isinstance(e, ast.Compare) and len(e.ops) == 1 and isinstance(e.ops[0], ast.Is) and isinstance(e.left, ast.Name):
            v = M.single_value(e.left.id)
            if isinstance(v, ast.Call) and isinstance(v.func, ast.Name) and v.func.id == "next" and len(v.args) == 2 and norm(v.args[1]) == norm(e.comparators[0]):
                src = M.resolve(v.args[0])
                if isinstance(src, ast.Call) and isinstance(src.func, ast.Name) and src.func.id == "iter" and len(src.args) == 1:
                    src = src.args[0]
                u = unknown_coll(M, src)
                if u is not None:
                    u_atoms[a] = (u, False)
                    continue
        if a.startswith("'") and " in " in a:
            continue  # presence test of an option
        other.append(a)
    if not u_atoms:
        return None
    a, (u, pol) = next(iter(u_atoms.items()))
    named = contains_unknown_coll(M, exc) or any(isinstance(x, ast.Name) and (pe := parse_atom(a)) is not None and isinstance(pe, ast.Compare) and isinstance(pe.left, ast.Name) and x.id == pe.left.id for x in ast.walk(exc))
    decision = M.stmt_of(r)
    p = parent(decision)
    while p is not None and not isinstance(p, ast.If):
        p = parent(p)
    decision = p if p is not None else decision
    if u[0] == "transformed":
        return ("violation", decision, r, f"the existence check looks up `{u[1]}` - a value computed from the aliased module's name, not the name itself - in the graph's nodes: a module that does not exist passes the check whenever its transformed name is a node", named)
    if u[0] == "other" and M.G is not None and M.G in (u[1] or ""):
        return ("unknown", decision, r, f"`{u[1]}` is not recognised as the nodes of the drawn graph", named)
    if u[0] == "other":
        return ("violation", decision, r, f"the existence of aliased modules is checked against `{u[1]}`, not against the nodes of the drawn graph", named)
    env_t = {x: True for x in atoms_of(f)}
    env_f = dict(env_t)
    env_t[a], env_f[a] = pol, not pol
    if evaluate(f, env_t) and not evaluate(f, env_f) and not other:
        return ("ok", decision, r, "", named)
    if other and evaluate(f, env_t) and not evaluate(f, env_f):
        return ("violation", decision, r, f"an alias for an unknown module is not rejected on every path: the error is only raised under the further condition `{_if_text(M, r)}`", named)
    return ("unknown", decision, r, f"condition of `{norm(r.exc, 50)}` not recognised", named)


def _if_text(M: Model, r: ast.AST) -> str:
    p = parent(r)
    while p is not None and not isinstance(p, ast.If):
        p = parent(p)
    return norm(p.test, 70) if p is not None else ""


# =========================================================================== R1 shape / R2 / R3


def labels(C) -> None:
    from .c17_labels import labels as run_labels

    run_labels(C)
