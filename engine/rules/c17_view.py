"""C17 - the *deep view* of `NetworkxGraph.draw`: one flat function body in a canonical statement form.

`core/inline_stmt.py` makes extract-method / inline-method / move-helper refactorings invisible, but leaves three things in place
that matter for the label mechanism:

  * helpers that `return` from inside a `for` loop or a `try` block (the search for the aliased ancestor is such a helper in
    most spellings) - inlined here by the *exit rewrite*  `return e` -> `result = e; break`, rest of the helper -> `for ... else:`;
  * helper calls nested in expressions (`kwargs.update(labels=self._labels(a))`, `{n: self._label(n) for n in nodes}`) -
    hoisted into temporaries / the comprehension is unrolled into the equivalent loop;
  * indirections through local containers (`for a, b, c in [(m, f"{m}.", aliases[m]) for m in sorted(...)]`) - fused into the
    loop over the underlying iterable.

Every rewrite is semantics preserving for the purposes of the analysis (evaluation order of pure sub-expressions is not kept).
Nothing is executed.  The result is a synthetic FuncInfo like the one of `inline_view`.
"""

from __future__ import annotations

import ast

from core.inline_stmt import Inliner, _copy, _flip_empty, _is_docstring, _names_in, _recopy, _Rename
from core.loader import FuncInfo, Repo, set_parents
from core.types import Types

MAX_ROUNDS = 6


class Unsupported(Exception):
    pass


# --------------------------------------------------------------------------- small AST helpers


def _loc(new: ast.AST, like: ast.AST) -> ast.AST:
    ast.copy_location(new, like)
    if hasattr(like, "_src") and not hasattr(new, "_src"):
        new._src = like._src  # type: ignore[attr-defined]
    return new


def _walk_own(stmts):
    """Nodes of a statement list, not descending into nested defs / lambdas / classes."""
    stack = list(reversed(list(stmts)))
    while stack:
        n = stack.pop()
        yield n
        if isinstance(n, (ast.FunctionDef, ast.AsyncFunctionDef, ast.Lambda, ast.ClassDef)):
            continue
        stack.extend(reversed(list(ast.iter_child_nodes(n))))


def _has_return(stmts) -> bool:
    return any(isinstance(n, ast.Return) for n in _walk_own(stmts))


def _own_breaks(loop: ast.stmt) -> bool:
    """Does the loop contain a `break` of its own (not one of a nested loop)?"""

    def rec(stmts) -> bool:
        for st in stmts:
            if isinstance(st, ast.Break):
                return True
            if isinstance(st, (ast.For, ast.AsyncFor, ast.While)):
                if rec(st.orelse):
                    return True
                continue
            for fld in ("body", "orelse", "finalbody"):
                if rec(getattr(st, fld, []) or []):
                    return True
            for h in getattr(st, "handlers", []) or []:
                if rec(h.body):
                    return True
            for c in getattr(st, "cases", []) or []:
                if rec(c.body):
                    return True
        return False

    return rec(loop.body)


def _pass(like: ast.AST) -> ast.stmt:
    return ast.copy_location(ast.Pass(), like)


# --------------------------------------------------------------------------- exit rewrite


def _loop_returns(stmts: list[ast.stmt], on_return) -> list[ast.stmt]:
    """Inside a loop body: `return e` -> on_return(e); break.  Returns below nested loops / try / with are not supported."""
    out: list[ast.stmt] = []
    for st in stmts:
        if isinstance(st, ast.Return):
            out += on_return(st)
            out.append(ast.copy_location(ast.Break(), st))
            return out
        if isinstance(st, ast.If):
            st.body = _loop_returns(st.body, on_return) or [_pass(st)]
            st.orelse = _loop_returns(st.orelse, on_return)
            out.append(st)
            continue
        if _has_return([st]):
            raise Unsupported("return below a nested loop / try / with inside a loop")
        out.append(st)
    return out


def _loose_jumps(stmts: list[ast.stmt]) -> bool:
    """break / continue that would bind to an enclosing loop if the statements were moved into one"""
    for st in stmts:
        if isinstance(st, (ast.Break, ast.Continue)):
            return True
        if isinstance(st, (ast.For, ast.AsyncFor, ast.While)):
            if _loose_jumps(st.orelse):
                return True
            continue
        for fld in ("body", "orelse", "finalbody"):
            blk = getattr(st, fld, None)
            if isinstance(blk, list) and blk and isinstance(blk[0], ast.stmt) and _loose_jumps(blk):
                return True
        for h in getattr(st, "handlers", []) or []:
            if _loose_jumps(h.body):
                return True
    return False


def _before_breaks(stmts: list[ast.stmt], moved: list[ast.stmt]) -> None:
    """inserts a copy of `moved` in front of every `break` that belongs to the loop whose body is `stmts`"""
    i = 0
    while i < len(stmts):
        st = stmts[i]
        if isinstance(st, ast.Break):
            cp = _recopy(moved)
            stmts[i:i] = cp
            i += len(cp) + 1
            continue
        if isinstance(st, (ast.For, ast.AsyncFor, ast.While)):
            _before_breaks(st.orelse, moved)
        else:
            for fld in ("body", "orelse", "finalbody"):
                blk = getattr(st, fld, None)
                if isinstance(blk, list) and blk and isinstance(blk[0], ast.stmt):
                    _before_breaks(blk, moved)
            for h in getattr(st, "handlers", []) or []:
                _before_breaks(h.body, moved)
        i += 1


def exit_rewrite(block: list[ast.stmt], on_return) -> tuple[list[ast.stmt], bool]:
    """Generalisation of inline_stmt.single_exit: rewrites a helper body so that it has no `return`.

    if-chains: as single_exit.  `for` loops containing returns: `return e` -> `on_return(e); break`, the statements after the loop
    move into its `else:` (taken exactly when no return happened).  `try`: supported when every block of it either returns on all
    paths or not at all.  Returns (statements, terminated on every path).
    """
    out: list[ast.stmt] = []
    for i, st in enumerate(block):
        if isinstance(st, ast.Return):
            out += on_return(st)
            return out, True
        if isinstance(st, ast.Raise):
            out.append(st)
            return out, True
        rest = block[i + 1:]
        if isinstance(st, ast.If):
            b, bt = exit_rewrite(st.body, on_return)
            o, ot = exit_rewrite(st.orelse, on_return)
            if bt and ot:
                st.body, st.orelse = b or [_pass(st)], o
                out.append(_flip_empty(st))
                return out, True
            if bt or ot:
                r, rt = exit_rewrite(rest, on_return)
                if bt:
                    st.body, st.orelse = b or [_pass(st)], o + r
                else:
                    st.body, st.orelse = (b + r) or [_pass(st)], o
                out.append(_flip_empty(st))
                return out, rt
            st.body, st.orelse = b or [_pass(st)], o
            out.append(st)
            continue
        if isinstance(st, (ast.For, ast.AsyncFor, ast.While)) and _has_return([st]):
            if _has_return(st.orelse) and _has_return(st.body):
                raise Unsupported("returns in loop body and loop else")
            if not _has_return(st.body):
                o, ot = exit_rewrite(st.orelse, on_return)
                if ot and not _own_breaks(st):
                    st.orelse = o
                    out.append(st)
                    return out, True
                if ot:
                    # search loop: `break` on a hit, `else: return <default>`.  What follows the loop runs exactly when it was left
                    # by break: it is moved in front of every break (no flag, so no infeasible paths in the CFG).
                    r, rt = exit_rewrite(rest, on_return)
                    if _loose_jumps(r):
                        raise Unsupported("break / continue after a search loop")
                    _before_breaks(st.body, r)
                    st.orelse = o
                    out.append(st)
                    return out, rt
                raise Unsupported("return in the else block of a loop")
            if _own_breaks(st):
                raise Unsupported("loop with returns and breaks")
            st.body = _loop_returns(st.body, on_return) or [_pass(st)]
            o, ot = exit_rewrite(st.orelse, on_return)
            if ot:
                st.orelse = o
                out.append(st)
                return out, True
            r, rt = exit_rewrite(rest, on_return)
            st.orelse = o + r
            out.append(st)
            return out, rt
        if isinstance(st, ast.Try) and _has_return([st]):
            if _has_return(st.finalbody):
                raise Unsupported("return in finally")
            blocks_t = []
            b, bt = exit_rewrite(st.body, on_return)
            if _has_return(st.body) and not bt:
                raise Unsupported("try body returns on some paths only")
            o, ot = exit_rewrite(st.orelse, on_return) if not bt else ([], True)
            if not bt and _has_return(st.orelse) and not ot:
                raise Unsupported("try else returns on some paths only")
            st.body, st.orelse = b or [_pass(st)], o
            main_t = bt or ot
            blocks_t.append(main_t)
            hs = []
            for h in st.handlers:
                hb, ht = exit_rewrite(h.body, on_return)
                if _has_return(h.body) and not ht:
                    raise Unsupported("handler returns on some paths only")
                hs.append((h, hb, ht))
                blocks_t.append(ht)
            if all(blocks_t):
                for h, hb, _ in hs:
                    h.body = hb or [_pass(h)]
                out.append(st)
                return out, True
            if st.finalbody and rest:
                raise Unsupported("code after try/finally with returns")
            r, rt = exit_rewrite(rest, on_return)
            # the rest runs after every block that did not return: duplicate it there
            if not main_t:
                st.orelse = st.orelse + r
            first = main_t
            for h, hb, ht in hs:
                if ht:
                    h.body = hb or [_pass(h)]
                else:
                    h.body = hb + (_recopy(r) if not first else r)
                    first = False
            out.append(st)
            return out, rt
        if _has_return([st]):
            raise Unsupported(f"return inside {type(st).__name__}")
        out.append(st)
    return out, False


# --------------------------------------------------------------------------- the inliner


class DeepInliner(Inliner):
    """Inliner of core/inline_stmt.py with the exit rewrite, hoisting of nested helper calls and comprehension unrolling."""

    def __init__(self, repo: Repo, types: Types, allow=None, max_depth: int = 4) -> None:
        super().__init__(repo, types, allow, max_depth)
        self._tmp = 0

    # ------------------------------------------------------------------ eligibility
    def _eligible(self, caller: FuncInfo, callee: FuncInfo, form: str) -> bool:
        if callee.is_abstract or callee.is_property or isinstance(callee.node, ast.Lambda):
            return False
        a = callee.node.args
        if a.vararg or a.kwarg:
            return False
        body = [s for s in callee.node.body if not _is_docstring(s)]
        if not body:
            return False
        for n in _walk_own(callee.node.body):
            if isinstance(n, (ast.Yield, ast.YieldFrom, ast.Await, ast.Global, ast.Nonlocal, ast.AsyncFunctionDef, ast.ClassDef)):
                return False
            if isinstance(n, ast.FunctionDef):
                # local closures are copied into the view and inlined from there; they must be plain functions
                if n.decorator_list or any(isinstance(x, (ast.Yield, ast.YieldFrom, ast.Await, ast.Global, ast.Nonlocal, ast.ClassDef)) for x in ast.walk(n)):
                    return False
                if any(isinstance(x, ast.FunctionDef) and x is not n for x in ast.walk(n)):
                    return False
        if form in ("expr", "assign"):
            try:
                exit_rewrite(_recopy(body), lambda r: [])
            except Unsupported:
                return False
        if self.allow is not None and not self.allow(caller, callee):
            return False
        return True

    # ------------------------------------------------------------------ resolution
    def _resolve(self, ctx: FuncInfo, call: ast.Call) -> FuncInfo | None:
        # a callable handed in as an argument or taken from a table (`convert(options.pop(key))` with convert := self._labels) has been
        # substituted into the call: the node it was copied from no longer says what is called.  Resolve the rewritten call in the
        # entry point's own context first.
        root = getattr(self, "root", None)
        src = getattr(call, "_src", None)
        rewritten = src is not None and isinstance(src[1], ast.Call) and isinstance(call.func, ast.Attribute) and ast.dump(call.func) != ast.dump(src[1].func)
        if root is not None and rewritten:
            try:
                cs, how = self.T.callees(root, call, byname_fallback=False)
            except Exception:  # noqa: BLE001
                cs, how = [], ""
            cs = [c for c in cs if not c.is_abstract]
            if len(cs) == 1 and how == "repo":
                return cs[0]
            if isinstance(src[1].func, ast.Name):
                return None  # the original was a call of a variable: nothing reliable is known about the target
        callee = super()._resolve(ctx, call)
        # a call a function makes to itself stays a call: unrolling a recursion a few levels deep explains nothing (the label
        # analysis reads `label(parent)` computed on demand as such, see c17_labels.recursive_label_call)
        if callee is not None and src is not None and getattr(src[0], "fq", None) == callee.fq and not isinstance(callee.node, ast.Lambda):
            return None
        return callee

    # ------------------------------------------------------------------ local closures
    def _try(self, ctx: FuncInfo, call: ast.AST, form: str, taken: set[str], origin: dict, stack: tuple[str, ...]):
        if isinstance(call, ast.Call) and isinstance(call.func, ast.Name) and len(stack) <= self.max_depth:
            local = getattr(self, "local_defs", {}).get(call.func.id)
            callee = self._resolve(ctx, call) if local is not None else None
            if local is not None and (callee is None or (callee.outer is not None and not isinstance(callee.node, ast.Lambda) and callee.name == local.name)):
                root = getattr(self, "root", ctx)
                key = f"{(callee.fq if callee is not None else root.fq + '.' + local.name)}@view"
                if key in stack:
                    return None
                syn = FuncInfo(name=local.name, qualname=(callee.qualname if callee is not None else f"{root.qualname}.{local.name}"), node=local, module=(callee.module if callee is not None else root.module), cls=None, decorators=[], outer=(callee.outer if callee is not None else root))
                if not self._eligible(ctx, syn, form):
                    return None
                got = self._expand(ctx, call, syn, taken, origin, stack + (key,))
                if got is None:
                    return None
                prefix, body = got
                for st in body:
                    for n in ast.walk(st):
                        src = getattr(n, "_src", None)
                        if src is not None and src[0] is syn and hasattr(src[1], "_src"):
                            n._src = src[1]._src  # type: ignore[attr-defined]  # keep pointing at the real source
                return prefix, body
        return super()._try(ctx, call, form, taken, origin, stack)

    # ------------------------------------------------------------------ functools.partial
    def _note_partial(self, s: ast.stmt) -> None:
        """`f = partial(g, a, k=v)` is remembered; calls `f(x)` are rewritten to `g(a, x, k=v)` (so that the inliner sees g)."""
        if isinstance(s, ast.Assign) and len(s.targets) == 1 and isinstance(s.targets[0], ast.Name) and isinstance(s.value, ast.Call):
            fn = s.value.func
            if ((isinstance(fn, ast.Name) and fn.id == "partial") or (isinstance(fn, ast.Attribute) and fn.attr == "partial")) and s.value.args and not any(isinstance(a, ast.Starred) for a in s.value.args) and all(k.arg is not None for k in s.value.keywords):
                self.__dict__.setdefault("partials", {})[s.targets[0].id] = s.value

    def _apply_partials(self, s: ast.stmt) -> None:
        parts = self.__dict__.get("partials")
        if not parts or isinstance(s, (ast.FunctionDef, ast.ClassDef)):
            return

        class Tr(ast.NodeTransformer):
            def visit_Lambda(self, node):  # noqa: N802
                return node

            def visit_Call(self, node):  # noqa: N802
                self.generic_visit(node)
                if isinstance(node.func, ast.Name) and node.func.id in parts and not any(isinstance(a, ast.Starred) for a in node.args):
                    p = parts[node.func.id]
                    given = {k.arg for k in node.keywords}
                    new = ast.Call(func=_recopy(p.args[0]), args=[_recopy(a) for a in p.args[1:]] + node.args, keywords=[ast.keyword(arg=k.arg, value=_recopy(k.value)) for k in p.keywords if k.arg not in given] + node.keywords)
                    return ast.copy_location(new, node)
                return node

        for fld in ("value", "test", "iter"):
            v = getattr(s, fld, None)
            if isinstance(v, ast.AST):
                setattr(s, fld, Tr().visit(v))

    def _bind_unbound_methods(self, s: ast.stmt) -> None:
        """`method(self, x)` with `method` a function of the entry point's class taken from a class-level table  ->  `self.method(x)`"""
        root = getattr(self, "root", None)
        if root is None or root.cls is None or isinstance(s, (ast.FunctionDef, ast.ClassDef)) or not root.node.args.args:
            return
        selfname = root.node.args.args[0].arg
        cls = root.cls
        repo = self.repo

        class Tr(ast.NodeTransformer):
            def visit_Lambda(self, node):  # noqa: N802
                return node

            def visit_Call(self, node):  # noqa: N802
                self.generic_visit(node)
                if isinstance(node.func, ast.Name) and node.args and isinstance(node.args[0], ast.Name) and node.args[0].id == selfname:
                    m = repo.lookup_method(cls, node.func.id)
                    if m is not None and not m.is_staticmethod and not m.is_classmethod and not m.is_property:
                        new = ast.Call(func=ast.copy_location(ast.Attribute(value=node.args[0], attr=node.func.id, ctx=ast.Load()), node.func), args=node.args[1:], keywords=node.keywords)
                        return ast.copy_location(new, node)
                return node

        for fld in ("value", "test", "iter"):
            v = getattr(s, fld, None)
            if isinstance(v, ast.AST):
                setattr(s, fld, Tr().visit(v))

    def _ctor_init(self, ctx: FuncInfo, s: ast.stmt, stack):
        """(`__init__` FuncInfo, target name) if `s` is `x = RepoClass(args)` with a user-written constructor"""
        tgt = s.targets[0] if isinstance(s, ast.Assign) and len(s.targets) == 1 else (s.target if isinstance(s, ast.AnnAssign) else None)
        call = s.value
        if not isinstance(tgt, ast.Name) or not isinstance(call, ast.Call):
            return None
        c_ctx, orig = getattr(call, "_src", None) or (ctx, call)
        if not isinstance(orig, ast.Call):
            return None
        try:
            ci = self.T.ctor_class(c_ctx, orig)
        except Exception:  # noqa: BLE001
            return None
        if ci is None:
            return None
        init = self.repo.lookup_method(ci, "__init__")
        if init is None or init.is_abstract:
            return None
        return init, tgt.id

    # ------------------------------------------------------------------ helpers
    def _fresh_tmp(self, base: str, taken: set[str]) -> str:
        cand = base
        i = 2
        while cand in taken:
            cand = f"{base}{i}"
            i += 1
        taken.add(cand)
        return cand

    def _inlinable_call(self, ctx: FuncInfo, n: ast.AST, stack) -> bool:
        if not isinstance(n, ast.Call) or len(stack) > self.max_depth:
            return False
        callee = self._resolve(ctx, n)
        return callee is not None and callee.fq not in stack and self._eligible(ctx, callee, "assign")

    def _hoist(self, ctx: FuncInfo, s: ast.stmt, taken: set[str], stack) -> list[ast.stmt]:
        """Helper calls and dict comprehensions nested in the unconditional part of a simple statement's expressions become
        `tmp = <call>` statements in front of it (so that the statement forms of the inliner apply)."""
        if isinstance(s, (ast.For, ast.AsyncFor)):
            # `for x in helper(args):` -> `tmp = helper(args)` + loop (the iterable is evaluated once, before the loop)
            it = s.iter
            if isinstance(it, ast.Call) and self._inlinable_call(ctx, it, stack) and not self._expression_helper(ctx, it):
                callee = self._resolve(ctx, it)
                name = self._fresh_tmp(f"value__{callee.name.strip('_')}", taken)
                s.iter = _loc(ast.Name(id=name, ctx=ast.Load()), it)
                return [_loc(ast.Assign(targets=[ast.Name(id=name, ctx=ast.Store())], value=it), it), s]
            return [s]
        if not isinstance(s, (ast.Expr, ast.Assign, ast.AnnAssign, ast.Return, ast.AugAssign, ast.If)):
            return [s]
        root = s.test if isinstance(s, ast.If) else s.value
        if root is None:
            return [s]
        pre: list[ast.stmt] = []
        outer = self

        def top_level(e: ast.AST) -> bool:
            return e is root and isinstance(s, (ast.Assign, ast.AnnAssign, ast.Return, ast.Expr)) and not (isinstance(s, ast.Expr) and isinstance(e, ast.DictComp))

        def visit(e: ast.AST, via: ast.AST | None = None) -> ast.AST:
            # conditional evaluation contexts are left alone
            if isinstance(e, (ast.Lambda, ast.IfExp, ast.BoolOp, ast.ListComp, ast.SetComp, ast.GeneratorExp, ast.DictComp)) and not (isinstance(e, ast.DictComp)):
                return e
            if isinstance(e, ast.DictComp):
                if e is root and isinstance(s, (ast.Assign, ast.AnnAssign)) and (isinstance(s, ast.AnnAssign) or len(s.targets) == 1) and isinstance(s.targets[0] if isinstance(s, ast.Assign) else s.target, ast.Name):
                    return e  # unrolled in place by _unroll
                name = outer._fresh_tmp("mapping__comp", taken)
                pre.append(_loc(ast.Assign(targets=[ast.Name(id=name, ctx=ast.Store())], value=e), e))
                return _loc(ast.Name(id=name, ctx=ast.Load()), e)
            for fld, val in ast.iter_fields(e):
                if isinstance(val, ast.AST):
                    setattr(e, fld, visit(val, e))
                elif isinstance(val, list):
                    setattr(e, fld, [visit(x, e) if isinstance(x, ast.AST) else x for x in val])
            if isinstance(s, ast.If) and not (isinstance(via, ast.NamedExpr) or (isinstance(via, ast.Compare) and all(isinstance(o, (ast.Is, ast.IsNot, ast.Eq, ast.NotEq)) for o in via.ops))):
                # a predicate used for its truth value is summarised inside guard formulas (core/inline.py); a value that is looked
                # up (`f(x) in nodes`) stays visible as the call it is
                return e
            if isinstance(e, ast.Call) and not top_level(e) and outer._inlinable_call(ctx, e, stack) and not outer._expression_helper(ctx, e):
                callee = outer._resolve(ctx, e)
                name = outer._fresh_tmp(f"value__{callee.name.strip('_')}", taken)
                pre.append(_loc(ast.Assign(targets=[ast.Name(id=name, ctx=ast.Store())], value=e), e))
                return _loc(ast.Name(id=name, ctx=ast.Load()), e)
            return e

        if isinstance(s, ast.If):
            s.test = visit(root)
        else:
            s.value = visit(root)
        return pre + [s]

    def _expression_helper(self, ctx: FuncInfo, call: ast.Call) -> bool:
        """Helpers whose body is a single `return <expr>` are substituted at expression level by the base class."""
        callee = self._resolve(ctx, call)
        if callee is None or isinstance(callee.node, ast.Lambda):
            return False
        body = [x for x in callee.node.body if not _is_docstring(x)]
        return len(body) == 1 and isinstance(body[0], ast.Return) and body[0].value is not None

    def _gen_call_as_genexp(self, ctx: FuncInfo, call: ast.AST, origin: dict) -> ast.expr | None:
        """`obj._pairs()` / `_pairs(x)` where the helper is a repo generator `for T in D: [if c:] yield E`  ->  `(E for T in D [if c])`
        with the helper's parameters replaced by the (simple) arguments."""
        if not isinstance(call, ast.Call) or any(isinstance(a, ast.Starred) for a in call.args) or any(k.arg is None for k in call.keywords):
            return None
        callee = self._resolve(ctx, call)
        if callee is None or isinstance(callee.node, ast.Lambda) or callee.is_abstract:
            return None
        body = [x for x in callee.node.body if not _is_docstring(x)]
        if len(body) != 1 or not isinstance(body[0], ast.For) or body[0].orelse:
            return None
        loop = body[0]
        inner, ifs = loop.body, []
        while len(inner) == 1 and isinstance(inner[0], ast.If) and not inner[0].orelse:
            ifs.append(inner[0].test)
            inner = inner[0].body
        if not (len(inner) == 1 and isinstance(inner[0], ast.Expr) and isinstance(inner[0].value, ast.Yield) and inner[0].value.value is not None):
            return None
        a = callee.node.args
        if a.vararg or a.kwarg:
            return None
        pos = [p_.arg for p_ in [*a.posonlyargs, *a.args]]
        bind: dict[str, ast.expr] = {}
        if callee.cls is not None and callee.outer is None and not callee.is_staticmethod and pos:
            if not isinstance(call.func, ast.Attribute) or callee.is_classmethod:
                return None
            bind[pos.pop(0)] = call.func.value
        if len(call.args) > len(pos):
            return None
        bind.update(dict(zip(pos, call.args)))
        for k in call.keywords:
            bind[k.arg] = k.value
        if set(bind) != {p_.arg for p_ in [*a.posonlyargs, *a.args, *a.kwonlyargs]}:
            return None
        if not all(isinstance(v, (ast.Name, ast.Constant)) or (isinstance(v, ast.Attribute) and isinstance(v.value, ast.Name)) for v in bind.values()):
            return None
        stored = {x.id for x in ast.walk(loop) if isinstance(x, ast.Name) and isinstance(x.ctx, ast.Store)}
        if stored & set(bind):
            return None
        ren = _Rename({}, dict(bind))
        gen = ast.comprehension(target=ren.visit(_copy(loop.target, callee, origin)), iter=ren.visit(_copy(loop.iter, callee, origin)), ifs=[ren.visit(_copy(c, callee, origin)) for c in ifs], is_async=0)
        new = ast.GeneratorExp(elt=ren.visit(_copy(inner[0].value.value, callee, origin)), generators=[gen])
        self.inlined.append(callee.fq)
        return _loc(new, call)

    def _genexp_calls(self, ctx: FuncInfo, s: ast.stmt, origin: dict) -> None:
        """`for m in self._matching(n, D):` / `next(self._matching(n, D), None)` / `list(_matching(n, D))`: the call of a one-loop generator
        helper becomes the generator expression it stands for (loop fusion and the selection rules then read it)."""
        outer = self

        def conv(e: ast.AST) -> ast.AST:
            ge = outer._gen_call_as_genexp(ctx, e, origin) if isinstance(e, ast.Call) else None
            return ge if ge is not None else e

        if isinstance(s, (ast.For, ast.AsyncFor)):
            s.iter = conv(s.iter)
            return
        if not isinstance(s, (ast.Assign, ast.AnnAssign, ast.Return, ast.Expr, ast.If)):
            return
        root = s.test if isinstance(s, ast.If) else s.value
        if root is None:
            return
        for c in ast.walk(root):
            if isinstance(c, ast.Lambda):
                continue
            if isinstance(c, ast.Call) and isinstance(c.func, ast.Name) and c.func.id in ("next", "list", "tuple", "set", "frozenset", "sorted", "any", "all", "iter", "max", "min", "dict") and c.args and isinstance(c.args[0], ast.Call):
                c.args[0] = conv(c.args[0])

    def _split_tuple_assign(self, s: ast.stmt) -> list[ast.stmt] | None:
        """`a, b = (x, y)`  ->  `a = x; b = y`  (no target is read by the values)"""
        if not (isinstance(s, ast.Assign) and len(s.targets) == 1 and isinstance(s.targets[0], (ast.Tuple, ast.List)) and isinstance(s.value, (ast.Tuple, ast.List))):
            return None
        ts, vs = s.targets[0].elts, s.value.elts
        if len(ts) != len(vs) or any(isinstance(x, ast.Starred) for x in [*ts, *vs]) or not all(isinstance(t, ast.Name) for t in ts):
            return None
        names = {t.id for t in ts}
        if len(names) != len(ts) or any(isinstance(x, ast.Name) and x.id in names for v in vs for x in ast.walk(v)):
            return None
        return [_loc(ast.Assign(targets=[t], value=v), s) for t, v in zip(ts, vs)]

    def _hoist_ctor_receivers(self, ctx: FuncInfo, s: ast.stmt, taken: set[str]) -> list[ast.stmt]:
        """`Helper(args).method(..)` in a simple statement  ->  `obj = Helper(args)` + `obj.method(..)` (the constructor is then
        flattened like any `x = Helper(args)`)."""
        if not isinstance(s, (ast.Expr, ast.Assign, ast.AnnAssign, ast.Return)) or getattr(s, "value", None) is None:
            return [s]
        pre: list[ast.stmt] = []
        outer = self

        def is_ctor(c: ast.AST) -> bool:
            if not isinstance(c, ast.Call):
                return False
            c_ctx, orig = getattr(c, "_src", None) or (ctx, c)
            if not isinstance(orig, ast.Call):
                return False
            try:
                return outer.T.ctor_class(c_ctx, orig) is not None
            except Exception:  # noqa: BLE001
                return False

        def visit(e: ast.AST) -> ast.AST:
            if isinstance(e, (ast.Lambda, ast.IfExp, ast.BoolOp, ast.ListComp, ast.SetComp, ast.GeneratorExp, ast.DictComp)):
                return e
            for fld, val in ast.iter_fields(e):
                if isinstance(val, ast.AST):
                    setattr(e, fld, visit(val))
                elif isinstance(val, list):
                    setattr(e, fld, [visit(x) if isinstance(x, ast.AST) else x for x in val])
            if isinstance(e, ast.Attribute) and is_ctor(e.value):
                cls_name = e.value.func.id if isinstance(e.value.func, ast.Name) else (e.value.func.attr if isinstance(e.value.func, ast.Attribute) else "object")
                name = outer._fresh_tmp(f"obj__{cls_name.strip('_').lower()}", taken)
                pre.append(_loc(ast.Assign(targets=[ast.Name(id=name, ctx=ast.Store())], value=e.value), e.value))
                e.value = _loc(ast.Name(id=name, ctx=ast.Load()), e.value)
            return e

        s.value = visit(s.value)
        return pre + [s]

    def _unroll(self, s: ast.stmt, taken: set[str]) -> list[ast.stmt] | None:
        """`T = {k: v for x in D if c}`  ->  `T = {}` + loop storing `T[k] = v`."""
        if isinstance(s, ast.Assign) and len(s.targets) == 1 and isinstance(s.targets[0], ast.Name):
            tgt, val = s.targets[0], s.value
        elif isinstance(s, ast.AnnAssign) and isinstance(s.target, ast.Name) and s.value is not None:
            tgt, val = s.target, s.value
        else:
            return None
        val = _as_dictcomp(val)
        if not isinstance(val, ast.DictComp):
            return None
        it0 = val.generators[0].iter
        if isinstance(it0, ast.Call) and isinstance(it0.func, ast.Attribute) and it0.func.attr == "items" and isinstance(it0.func.value, ast.Name) and it0.func.value.id == getattr(self, "kwname", None):
            return None  # a filtered copy of the options dict: read as such by the model
        # comprehension variables become function-level loop variables: rename on clashes
        ren: dict[str, str] = {}
        for g in val.generators:
            for n in ast.walk(g.target):
                if isinstance(n, ast.Name) and n.id in taken:
                    ren[n.id] = self._fresh_tmp(f"{n.id}__comp", taken)
                elif isinstance(n, ast.Name):
                    taken.add(n.id)
        if ren:
            class R(ast.NodeTransformer):
                def visit_Name(self, node):  # noqa: N802
                    if node.id in ren:
                        node.id = ren[node.id]
                    return node

            # the first iterable is evaluated outside the comprehension scope: it keeps its names
            first_iter = val.generators[0].iter
            val.generators[0].iter = ast.Constant(value=None)
            val = R().visit(val)
            val.generators[0].iter = first_iter
        init = _loc(ast.Assign(targets=[_loc(ast.Name(id=tgt.id, ctx=ast.Store()), tgt)], value=_loc(ast.Dict(keys=[], values=[]), val)), s)
        if isinstance(s, ast.AnnAssign):
            init = _loc(ast.AnnAssign(target=_loc(ast.Name(id=tgt.id, ctx=ast.Store()), tgt), annotation=s.annotation, value=_loc(ast.Dict(keys=[], values=[]), val), simple=1), s)
        store: ast.stmt = _loc(
            ast.Assign(targets=[_loc(ast.Subscript(value=_loc(ast.Name(id=tgt.id, ctx=ast.Load()), tgt), slice=val.key, ctx=ast.Store()), val.key)], value=val.value), val.value
        )
        store._comp_store = True  # type: ignore[attr-defined]
        inner: list[ast.stmt] = [store]
        for g in reversed(val.generators):
            for c in reversed(g.ifs):
                inner = [_loc(ast.If(test=c, body=inner, orelse=[]), c)]
            loop = _loc(ast.For(target=_store_ctx(g.target), iter=g.iter, body=inner, orelse=[]), g.iter)
            loop._from_comp = True  # type: ignore[attr-defined]
            inner = [loop]
        return [init, *inner]

    # ------------------------------------------------------------------ blocks
    def _block(self, ctx: FuncInfo, stmts: list[ast.stmt], taken: set[str], origin: dict, stack: tuple[str, ...]) -> list[ast.stmt]:
        out: list[ast.stmt] = []
        queue = list(stmts)
        while queue:
            s = queue.pop(0)
            self._note_partial(s)
            self._apply_partials(s)
            self._bind_unbound_methods(s)
            if isinstance(s, ast.FunctionDef):
                self.__dict__.setdefault("local_defs", {})[s.name] = s
                out.append(s)
                continue
            split = self._split_tuple_assign(s)
            if split is not None:
                queue = split + queue
                continue
            recv = self._hoist_ctor_receivers(ctx, s, taken)
            if len(recv) > 1:
                queue = recv + queue
                continue
            # dict(<generator helper>(..)) / dict(obj.<generator method>()): the generator as the generator expression it is
            if isinstance(s, (ast.Assign, ast.AnnAssign)) and isinstance(s.value, ast.Call) and isinstance(s.value.func, ast.Name) and s.value.func.id == "dict" and len(s.value.args) == 1 and not s.value.keywords and isinstance(s.value.args[0], ast.Call):
                ge = self._gen_call_as_genexp(ctx, s.value.args[0], origin)
                if ge is not None:
                    s.value.args[0] = ge
            # a simple generator helper (`for c in D: if P: yield E`) consumed by a loop / next() / list() / any(): likewise
            self._genexp_calls(ctx, s, origin)
            # `kwargs["labels"] = dict(<pairs>)` / `return dict(<pairs>)`: the mapping gets a local of its own (and is unrolled there)
            if isinstance(s, (ast.Assign, ast.Return)) and s.value is not None and isinstance(_as_dictcomp(s.value), ast.DictComp) and not isinstance(s.value, ast.DictComp):
                plain = isinstance(s, ast.Assign) and len(s.targets) == 1 and isinstance(s.targets[0], ast.Name)
                if not plain:
                    name = self._fresh_tmp("mapping__comp", taken)
                    pre_ = _loc(ast.Assign(targets=[ast.Name(id=name, ctx=ast.Store())], value=s.value), s.value)
                    s.value = _loc(ast.Name(id=name, ctx=ast.Load()), s.value)
                    queue = [pre_, s] + queue
                    continue
            hoisted = self._hoist(ctx, s, taken, stack)
            if len(hoisted) > 1:
                queue = hoisted + queue
                continue
            un = self._unroll(s, taken)
            if un is not None:
                queue = un + queue
                continue
            done = False
            if isinstance(s, ast.Expr):
                got = self._try(ctx, s.value, "expr", taken, origin, stack)
                if got is not None:
                    prefix, body = got

                    def drop(ret: ast.Return) -> list[ast.stmt]:
                        if ret.value is not None and not isinstance(ret.value, (ast.Constant, ast.Name)):
                            return [ast.copy_location(ast.Expr(value=ret.value), ret)]
                        return []

                    body, _t = exit_rewrite(body, drop)
                    out += prefix + body
                    done = True
            elif isinstance(s, (ast.Assign, ast.AnnAssign)) and s.value is not None and self._ctor_init(ctx, s, stack) is not None and not getattr(s, "_ctor_done", False):
                # `x = Helper(args)`: the assignment stays (fields of x are resolved from it), the constructor's statements follow
                init, target = self._ctor_init(ctx, s, stack)
                fake = ast.Call(func=ast.Attribute(value=ast.Name(id=target, ctx=ast.Load()), attr="__init__", ctx=ast.Load()), args=s.value.args, keywords=s.value.keywords)
                ast.copy_location(fake, s.value)
                got = None
                if len(stack) <= self.max_depth and init.fq not in stack and self._eligible(ctx, init, "expr"):
                    got = self._expand(ctx, fake, init, taken, origin, stack)
                s._ctor_done = True  # type: ignore[attr-defined]
                if got is not None:
                    prefix, body = got
                    body, _t = exit_rewrite(body, lambda ret: [])
                    s.value._ctor_inlined = True  # type: ignore[attr-defined]
                    out += [s] + prefix + body
                    done = True
            elif isinstance(s, (ast.Assign, ast.AnnAssign)) and s.value is not None:
                got = self._try(ctx, s.value, "assign", taken, origin, stack)
                if got is not None:
                    prefix, body = got
                    callee_ = self._resolve(ctx, s.value) if isinstance(s.value, ast.Call) else None
                    inner_stack = stack + ((callee_.fq,) if callee_ is not None else ())
                    if body and isinstance(body[-1], ast.Return) and not any(isinstance(x, ast.Return) for st in body[:-1] for x in ast.walk(st)):
                        last = body.pop()
                        s.value = last.value if last.value is not None else ast.Constant(value=None)
                        out += prefix + body
                        queue.insert(0, s)  # the new value may need unrolling / hoisting
                    else:
                        tmpl = s

                        def assign(ret: ast.Return, tmpl=tmpl) -> list[ast.stmt]:
                            st = _recopy(tmpl)
                            st.value = ret.value if ret.value is not None else ast.Constant(value=None)
                            return [ast.copy_location(st, ret)]

                        if not (body and isinstance(body[-1], (ast.Return, ast.Raise))):
                            body = body + [ast.copy_location(ast.Return(value=None), s)]
                        body, _term = exit_rewrite(body, assign)
                        out += prefix + self._renormalise(ctx, body, taken, origin, inner_stack)
                    done = True
            elif isinstance(s, ast.Return) and s.value is not None:
                got = self._try(ctx, s.value, "return", taken, origin, stack)
                if got is not None:
                    prefix, body = got
                    out += prefix + body
                    if not (body and isinstance(body[-1], (ast.Return, ast.Raise))):
                        out.append(ast.copy_location(ast.Return(value=ast.Constant(value=None)), s))
                    done = True
            if done:
                continue
            for fld in ("value", "test", "iter", "exc", "targets", "target"):
                v = getattr(s, fld, None)
                if isinstance(v, ast.AST):
                    setattr(s, fld, self._expr_inline(ctx, v, origin, stack))
                elif isinstance(v, list) and v and isinstance(v[0], ast.expr):
                    setattr(s, fld, [self._expr_inline(ctx, x, origin, stack) for x in v])
            if isinstance(s, (ast.With, ast.AsyncWith)):
                for it in s.items:
                    it.context_expr = self._expr_inline(ctx, it.context_expr, origin, stack)
            for fld in ("body", "orelse", "finalbody"):
                blk = getattr(s, fld, None)
                if isinstance(blk, list) and blk and isinstance(blk[0], ast.stmt):
                    setattr(s, fld, self._block(ctx, blk, taken, origin, stack))
            if isinstance(s, ast.Try):
                for h in s.handlers:
                    h.body = self._block(ctx, h.body, taken, origin, stack)
            if isinstance(s, ast.Match):
                for c in s.cases:
                    c.body = self._block(ctx, c.body, taken, origin, stack)
            out.append(s)
        return out

    def _renormalise(self, ctx: FuncInfo, body: list[ast.stmt], taken: set[str], origin: dict, stack) -> list[ast.stmt]:
        """Assignments produced by the exit rewrite (`x = <returned expr>`) may themselves be helper calls / dict comprehensions."""
        out: list[ast.stmt] = []
        for st in body:
            if getattr(st, "_renorm", False):
                out.append(st)
                continue
            for fld in ("body", "orelse", "finalbody"):
                blk = getattr(st, fld, None)
                if isinstance(blk, list) and blk and isinstance(blk[0], ast.stmt):
                    setattr(st, fld, self._renormalise(ctx, blk, taken, origin, stack))
            if isinstance(st, ast.Try):
                for h in st.handlers:
                    h.body = self._renormalise(ctx, h.body, taken, origin, stack)
            if isinstance(st, (ast.Assign, ast.AnnAssign)) and st.value is not None and (isinstance(st.value, (ast.Call, ast.DictComp))):
                st._renorm = True  # type: ignore[attr-defined]
                out += self._block(ctx, [st], taken, origin, stack)
            else:
                out.append(st)
        return out


def _store_ctx(t: ast.expr) -> ast.expr:
    for n in ast.walk(t):
        if isinstance(n, (ast.Name, ast.Tuple, ast.List, ast.Starred)) and hasattr(n, "ctx"):
            n.ctx = ast.Store()
    return t


def _as_dictcomp(val: ast.expr) -> ast.expr:
    """`dict((k, v) for x in D)` / `dict([(k, v) for x in D])` / `dict(zip(D, [e for x in D]))` / `dict(zip(D, map(f, D)))` as a DictComp."""
    if isinstance(val, ast.Call) and isinstance(val.func, ast.Name) and val.func.id == "dict" and len(val.args) == 1 and not val.keywords:
        a = val.args[0]
        if isinstance(a, (ast.GeneratorExp, ast.ListComp)) and isinstance(a.elt, (ast.Tuple, ast.List)) and len(a.elt.elts) == 2:
            return _loc(ast.DictComp(key=a.elt.elts[0], value=a.elt.elts[1], generators=a.generators), val)
        if isinstance(a, ast.Call) and isinstance(a.func, ast.Name) and a.func.id == "zip" and len(a.args) == 2 and not a.keywords:
            ks, vs = a.args
            if isinstance(ks, ast.Name) and isinstance(vs, ast.Name) and ks.id == vs.id:
                gen = ast.comprehension(target=ast.Name(id="item__zip", ctx=ast.Store()), iter=ks, ifs=[], is_async=0)
                return _loc(ast.DictComp(key=_loc(ast.Name(id="item__zip", ctx=ast.Load()), ks), value=_loc(ast.Name(id="item__zip", ctx=ast.Load()), ks), generators=[gen]), val)
            if isinstance(vs, (ast.ListComp, ast.GeneratorExp)) and len(vs.generators) == 1 and not vs.generators[0].ifs and isinstance(vs.generators[0].target, ast.Name) and ast.dump(vs.generators[0].iter) == ast.dump(ks) and isinstance(ks, ast.Name):
                g = vs.generators[0]
                return _loc(ast.DictComp(key=_loc(ast.Name(id=g.target.id, ctx=ast.Load()), ks), value=vs.elt, generators=[g]), val)
            if isinstance(vs, ast.Call) and isinstance(vs.func, ast.Name) and vs.func.id == "map" and len(vs.args) == 2 and ast.dump(vs.args[1]) == ast.dump(ks) and isinstance(ks, ast.Name):
                fn = vs.args[0]
                var = ast.Name(id="item__zip", ctx=ast.Load())
                if isinstance(fn, ast.Lambda) and len(fn.args.args) == 1 and not fn.args.defaults:
                    p = fn.args.args[0].arg

                    class S(ast.NodeTransformer):
                        def visit_Name(self, node):  # noqa: N802
                            return _loc(ast.Name(id="item__zip", ctx=node.ctx), node) if node.id == p else node

                    body = S().visit(fn.body)
                else:
                    body = _loc(ast.Call(func=fn, args=[_loc(var, ks)], keywords=[]), vs)
                gen = ast.comprehension(target=ast.Name(id="item__zip", ctx=ast.Store()), iter=ks, ifs=[], is_async=0)
                return _loc(ast.DictComp(key=_loc(ast.Name(id="item__zip", ctx=ast.Load()), ks), value=body, generators=[gen]), val)
    return val


# --------------------------------------------------------------------------- loop fusion (after inlining)


def _bindings(fn: ast.FunctionDef) -> dict[str, list[ast.AST]]:
    out: dict[str, list[ast.AST]] = {}
    for n in _walk_own(fn.body):
        if isinstance(n, ast.Name) and isinstance(n.ctx, (ast.Store, ast.Del)):
            out.setdefault(n.id, []).append(n)
    a = fn.args
    for p in [*a.posonlyargs, *a.args, *a.kwonlyargs, *([a.vararg] if a.vararg else []), *([a.kwarg] if a.kwarg else [])]:
        out.setdefault(p.arg, []).append(p)
    return out


def _mutated(fn: ast.FunctionDef, name: str) -> bool:
    for n in _walk_own(fn.body):
        if isinstance(n, ast.Call) and isinstance(n.func, ast.Attribute) and isinstance(n.func.value, ast.Name) and n.func.value.id == name and n.func.attr in ("sort", "reverse", "append", "extend", "insert", "remove", "pop", "clear"):
            return True
        if isinstance(n, ast.Subscript) and isinstance(n.ctx, (ast.Store, ast.Del)) and isinstance(n.value, ast.Name) and n.value.id == name:
            return True
        if isinstance(n, ast.AugAssign) and isinstance(n.target, ast.Name) and n.target.id == name:
            return True
    return False


def fuse_loops(fn: ast.FunctionDef) -> bool:
    """`L = [E for x in D if c]` ... `for T in L: body`   ->   `for x in D: if c: T = E; body`   (L bound once, single generator).

    Tuple targets against tuple elements are split into one assignment per component.  Returns True if something changed.
    """
    set_parents(fn)
    binds = _bindings(fn)
    taken = _names_in(fn)
    changed = False
    for loop in [n for n in _walk_own(fn.body) if isinstance(n, ast.For)]:
        it = loop.iter
        # sequence-preserving wrappers around the list
        while isinstance(it, ast.Call) and isinstance(it.func, ast.Name) and it.func.id in ("list", "tuple", "iter") and len(it.args) == 1 and not it.keywords:
            it = it.args[0]
        comp = None
        if isinstance(it, ast.Name) and len(binds.get(it.id, [])) == 1 and not _mutated(fn, it.id):
            b = binds[it.id][0]
            p = getattr(b, "_parent", None)
            st = p
            if isinstance(st, ast.Assign) and len(st.targets) == 1 and st.targets[0] is b and isinstance(st.value, (ast.ListComp, ast.GeneratorExp)):
                comp = st.value
            elif isinstance(st, ast.AnnAssign) and st.target is b and isinstance(st.value, (ast.ListComp, ast.GeneratorExp)):
                comp = st.value
        elif isinstance(it, (ast.ListComp, ast.GeneratorExp)):
            comp = it
        if comp is None or len(comp.generators) != 1 or comp.generators[0].is_async:
            continue
        g = comp.generators[0]
        # trivial comprehension `[x for x in D]` keeps the loop variable
        comp = _recopy(comp)
        g = comp.generators[0]
        ren: dict[str, str] = {}
        for n in ast.walk(g.target):
            if isinstance(n, ast.Name) and n.id in taken:
                new = n.id + "__fused"
                k = 2
                while new in taken:
                    new = f"{n.id}__fused{k}"
                    k += 1
                ren[n.id] = new
                taken.add(new)
        if ren:
            class R(ast.NodeTransformer):
                def visit_Name(self, node):  # noqa: N802
                    if node.id in ren:
                        node.id = ren[node.id]
                    return node

            first_iter = g.iter
            for c_i, c_ in enumerate(g.ifs):
                g.ifs[c_i] = R().visit(c_)
            g.target = R().visit(g.target)
            comp.elt = R().visit(comp.elt)
            g.iter = first_iter
        binding: list[ast.stmt] = []
        tgt, elt = loop.target, comp.elt
        if isinstance(tgt, (ast.Tuple, ast.List)) and isinstance(elt, (ast.Tuple, ast.List)) and len(tgt.elts) == len(elt.elts) and not any(isinstance(x, ast.Starred) for x in [*tgt.elts, *elt.elts]):
            for t_, e_ in zip(tgt.elts, elt.elts):
                binding.append(ast.copy_location(ast.Assign(targets=[t_], value=e_), loop))
        else:
            binding.append(ast.copy_location(ast.Assign(targets=[tgt], value=elt), loop))
        for b_ in binding:
            b_._fused = True  # type: ignore[attr-defined]
        body: list[ast.stmt] = binding + loop.body
        for c in reversed(g.ifs):
            # `continue` keeps break/continue/else semantics of the original loop body intact
            skip = ast.copy_location(ast.If(test=ast.copy_location(ast.UnaryOp(op=ast.Not(), operand=c), c), body=[ast.copy_location(ast.Continue(), c)], orelse=[]), c)
            body = [skip] + body
        loop.target = _store_ctx(g.target)
        loop.iter = g.iter
        loop.body = body
        changed = True
        ast.fix_missing_locations(fn)
        set_parents(fn)
        binds = _bindings(fn)
    return changed


# --------------------------------------------------------------------------- loops over literal tables


def record_fields_of(repo, mod, call: ast.AST) -> dict | None:
    """`Row("a", "b", f)` where Row is a repo NamedTuple / dataclass without a constructor of its own and the arguments are
    constants / plain names  ->  {field: argument} (plus the positions for tuple-style access)"""
    if not (isinstance(call, ast.Call) and isinstance(call.func, ast.Name) and mod is not None and repo is not None):
        return None
    if any(isinstance(a, ast.Starred) for a in call.args) or any(k.arg is None for k in call.keywords):
        return None
    if not all(isinstance(a, (ast.Constant, ast.Name, ast.Attribute)) for a in [*call.args, *[k.value for k in call.keywords]]):
        return None
    ci = mod.classes.get(call.func.id)
    if ci is None:
        fq = mod.imports.get(call.func.id)
        ci = repo.classes.get(fq) if fq else None
    if ci is None or repo.lookup_method(ci, "__init__") is not None or repo.lookup_method(ci, "__new__") is not None:
        return None
    fields = [a for c in reversed(repo.mro(ci)) for a in c.ann_attrs]
    if len(call.args) > len(fields) or any(k.arg not in fields for k in call.keywords):
        return None
    env = dict(zip(fields, call.args))
    env.update({k.arg: k.value for k in call.keywords})
    for c in repo.mro(ci):
        for f_, dflt in c.class_attrs.items():
            if f_ in fields and f_ not in env and isinstance(dflt, ast.Constant):
                env[f_] = dflt
    if set(env) != set(fields):
        return None
    env["#order"] = fields  # type: ignore[assignment]
    return env


def unroll_literal_loops(fn: ast.FunctionDef, owner: FuncInfo | None = None, repo: Repo | None = None) -> bool:
    """`for k, (a, b) in {"x": (p, q), "y": (r, s)}.items(): body`  ->  body[k:="x", a:=p, b:=q]; body[k:="y", a:=r, b:=s]

    Small translation tables given as dict / list / tuple literals (directly or through a local bound once) are unrolled, so that the
    option names and converters they hold become visible as constants.  Loops with break / continue / else are left alone."""
    set_parents(fn)
    binds = _bindings(fn)
    changed = False

    def literal(e: ast.expr):
        if isinstance(e, ast.Attribute) and isinstance(e.value, ast.Name) and owner is not None and owner.cls is not None:
            # a class-level table: self._TABLE / cls._TABLE / ClassName._TABLE
            first = fn.args.args[0].arg if fn.args.args else None
            if e.value.id in (first, "cls", owner.cls.name):
                for c in repo.mro(owner.cls) if repo is not None else [owner.cls]:
                    if e.attr in c.class_attrs:
                        return c.class_attrs[e.attr]
        if isinstance(e, ast.Name) and not binds.get(e.id) and owner is not None and e.id in owner.module.constants:
            return owner.module.constants[e.id]
        if isinstance(e, ast.Name) and len(binds.get(e.id, [])) == 1 and not _mutated(fn, e.id):
            b = binds[e.id][0]
            p = getattr(b, "_parent", None)
            if isinstance(p, ast.Assign) and len(p.targets) == 1 and p.targets[0] is b:
                return p.value
            if isinstance(p, ast.AnnAssign) and p.target is b and p.value is not None:
                return p.value
        return e

    def elements(it: ast.expr):
        how = "self"
        if isinstance(it, ast.Call) and isinstance(it.func, ast.Attribute) and it.func.attr in ("items", "keys", "values") and not it.args:
            how, it = it.func.attr, it.func.value
        lit = literal(it)
        if isinstance(lit, ast.Dict) and lit.keys and all(k is not None for k in lit.keys) and len(lit.keys) <= 8:
            if how in ("self", "keys"):
                return list(lit.keys)
            if how == "values":
                return list(lit.values)
            return [ast.Tuple(elts=[k, v], ctx=ast.Load()) for k, v in zip(lit.keys, lit.values)]
        if how == "self" and isinstance(lit, (ast.List, ast.Tuple)) and lit.elts and len(lit.elts) <= 8 and not any(isinstance(x, ast.Starred) for x in lit.elts) and all(isinstance(x, (ast.Tuple, ast.Constant)) or record_fields(x) is not None for x in lit.elts):
            return list(lit.elts)
        if how == "self" and isinstance(it, ast.Call):
            return yielded_constants(it)
        return None

    def yielded_constants(call: ast.Call):
        """`self._translators()` where the helper is a repo generator whose body is a straight line of `yield <constant / tuple of
        constants, names and attributes of self>`: the yielded values (with the helper's self replaced by the receiver)"""
        if repo is None or owner is None or call.args or call.keywords:
            return None
        from .common import types_of

        ctx, orig = getattr(call, "_src", (owner, call))
        if not isinstance(orig, ast.Call):
            return None
        try:
            cs, how_ = types_of(repo).callees(ctx, orig, byname_fallback=False)
        except Exception:  # noqa: BLE001
            return None
        cs = [c for c in cs if not c.is_abstract]
        if len(cs) != 1 or how_ != "repo" or isinstance(cs[0].node, ast.Lambda):
            return None
        f = cs[0]
        body = [s_ for s_ in f.node.body if not _is_docstring(s_)]
        a = f.node.args
        params = [p.arg for p in [*a.posonlyargs, *a.args, *a.kwonlyargs]]
        if a.vararg or a.kwarg or len(params) > 1 or not body or len(body) > 8:
            return None
        selfname = params[0] if params else None
        if selfname is not None and not (f.cls is not None and not f.is_staticmethod and isinstance(call.func, ast.Attribute)):
            return None
        out = []
        for st in body:
            if not (isinstance(st, ast.Expr) and isinstance(st.value, ast.Yield) and st.value.value is not None):
                return None
            v = st.value.value
            parts = v.elts if isinstance(v, ast.Tuple) else [v]
            for x in parts:
                ok = isinstance(x, ast.Constant) or (isinstance(x, ast.Name) and x.id != selfname) or (isinstance(x, ast.Attribute) and isinstance(x.value, ast.Name))
                if not ok:
                    return None
            cp = _copy(v, f, {})
            if selfname is not None:
                recv = call.func.value

                class S(ast.NodeTransformer):
                    def visit_Name(self, node):  # noqa: N802
                        return _recopy(recv) if node.id == selfname else node

                cp = S().visit(cp)
            out.append(cp)
        return out

    def record_fields(call: ast.AST) -> dict | None:
        return record_fields_of(repo, owner.module if owner is not None else None, call)

    def match(tgt: ast.expr, val: ast.expr, env: dict) -> bool:
        if isinstance(tgt, ast.Name):
            env[tgt.id] = val
            return True
        if isinstance(tgt, (ast.Tuple, ast.List)) and isinstance(val, (ast.Tuple, ast.List)) and len(tgt.elts) == len(val.elts) and not any(isinstance(x, ast.Starred) for x in [*tgt.elts, *val.elts]):
            return all(match(t, v, env) for t, v in zip(tgt.elts, val.elts))
        return False

    for loop in [n for n in _walk_own(fn.body) if isinstance(n, ast.For)]:
        if loop.orelse or _own_breaks(loop) or _loose_jumps(loop.body):
            continue
        els = elements(loop.iter)
        if els is None:
            continue
        envs = []
        for el in els:
            env: dict = {}
            if not match(loop.target, el, env):
                envs = None
                break
            envs.append(env)
        if not envs:
            continue
        names = set(envs[0])
        if any(isinstance(x, ast.Name) and x.id in names and isinstance(x.ctx, (ast.Store, ast.Del)) for st in loop.body for x in ast.walk(st)):
            continue
        new_body: list[ast.stmt] = []
        # locals assigned in the body get their own name in every copy but the last (what follows the loop sees the last values)
        assigned = sorted({x.id for st in loop.body for x in ast.walk(st) if isinstance(x, ast.Name) and isinstance(x.ctx, ast.Store)})
        # a name that may be read before it is assigned in the body carries a value from one round to the next: it keeps its name
        carried: set[str] = set()

        def scan(stmts, defined: set[str]) -> set[str]:
            for st in stmts:
                if isinstance(st, ast.If):
                    carried.update(({x.id for x in ast.walk(st.test) if isinstance(x, ast.Name)} & set(assigned)) - defined)
                    d1, d2 = scan(st.body, set(defined)), scan(st.orelse, set(defined))
                    defined = d1 & d2
                    continue
                if isinstance(st, (ast.Assign, ast.AnnAssign)) and st.value is not None:
                    carried.update(({x.id for x in ast.walk(st.value) if isinstance(x, ast.Name)} & set(assigned)) - defined)
                    tgts = st.targets if isinstance(st, ast.Assign) else [st.target]
                    for t in tgts:
                        carried.update(({x.id for x in ast.walk(t) if isinstance(x, ast.Name) and isinstance(x.ctx, ast.Load)} & set(assigned)) - defined)
                    defined = defined | {x.id for t in tgts for x in ast.walk(t) if isinstance(x, ast.Name) and isinstance(x.ctx, ast.Store)}
                    continue
                reads = {x.id for x in ast.walk(st) if isinstance(x, ast.Name) and isinstance(x.ctx, ast.Load)} | ({st.target.id} if isinstance(st, ast.AugAssign) and isinstance(st.target, ast.Name) else set())
                carried.update((reads & set(assigned)) - defined)
            return defined

        scan(loop.body, set())
        assigned = [a_ for a_ in assigned if a_ not in carried]
        taken_ = _names_in(fn)
        for copy_no, env in enumerate(envs):
            ren: dict[str, str] = {}
            if copy_no < len(envs) - 1:
                for nm in assigned:
                    k_ = copy_no + 1
                    while f"{nm}__{k_}" in taken_:
                        k_ += 1
                    ren[nm] = f"{nm}__{k_}"
                    taken_.add(ren[nm])
            class Sub(ast.NodeTransformer):
                def visit_Name(self, node, env=env):  # noqa: N802
                    if isinstance(node.ctx, ast.Load) and node.id in env:
                        return _recopy(env[node.id])
                    return node

                def visit_Lambda(self, node):  # noqa: N802
                    return node

                def visit_Attribute(self, node, env=env):  # noqa: N802
                    # row.field of a table row that is a small record: the argument the row was built with
                    if isinstance(node.ctx, ast.Load) and isinstance(node.value, ast.Name) and node.value.id in env:
                        rec = record_fields(env[node.value.id])
                        if rec is not None and node.attr in rec and node.attr != "#order":
                            return _loc(_recopy(rec[node.attr]), node)
                    return self.generic_visit(node)

                def visit_Subscript(self, node, env=env):  # noqa: N802
                    if isinstance(node.ctx, ast.Load) and isinstance(node.value, ast.Name) and node.value.id in env and isinstance(node.slice, ast.Constant) and isinstance(node.slice.value, int):
                        rec = record_fields(env[node.value.id])
                        if rec is not None and 0 <= node.slice.value < len(rec["#order"]):
                            return _loc(_recopy(rec[rec["#order"][node.slice.value]]), node)
                    return self.generic_visit(node)

                def visit_Call(self, node):  # noqa: N802
                    self.generic_visit(node)
                    # getattr(obj, "name") with the name now a constant is the attribute
                    if isinstance(node.func, ast.Name) and node.func.id == "getattr" and len(node.args) == 2 and not node.keywords and isinstance(node.args[1], ast.Constant) and isinstance(node.args[1].value, str) and node.args[1].value.isidentifier():
                        return _loc(ast.Attribute(value=node.args[0], attr=node.args[1].value, ctx=ast.Load()), node)
                    return node

            class Ren(ast.NodeTransformer):
                def visit_Name(self, node, ren=ren):  # noqa: N802
                    if node.id in ren:
                        node.id = ren[node.id]
                    return node

                def visit_Lambda(self, node):  # noqa: N802
                    return node

            new_body += [Ren().visit(Sub().visit(_recopy(st))) for st in loop.body]
        par = getattr(loop, "_parent", None)
        done = False
        for fld in ("body", "orelse", "finalbody"):
            blk = getattr(par, fld, None)
            if isinstance(blk, list) and loop in blk:
                i = blk.index(loop)
                blk[i:i + 1] = new_body
                done = True
                break
        if done:
            changed = True
            ast.fix_missing_locations(fn)
            set_parents(fn)
            binds = _bindings(fn)
    return changed


# --------------------------------------------------------------------------- unique loop / comprehension variables


def uniquify(fn: ast.FunctionDef) -> None:
    """Gives every comprehension variable and every re-used for-loop variable its own name, so that a name identifies one binder.

    A for-loop variable is only renamed when every read of the name lies inside a loop that binds it."""
    set_parents(fn)
    taken = _names_in(fn)

    def fresh(base: str) -> str:
        k = 2
        while f"{base}__{k}" in taken:
            k += 1
        taken.add(f"{base}__{k}")
        return f"{base}__{k}"

    class R(ast.NodeTransformer):
        def __init__(self, ren):
            self.ren = ren

        def visit_Name(self, node):  # noqa: N802
            if node.id in self.ren:
                node.id = self.ren[node.id]
            return node

    binders: dict[str, list[ast.AST]] = {}
    for n in _walk_own(fn.body):
        if isinstance(n, (ast.ListComp, ast.SetComp, ast.GeneratorExp, ast.DictComp)):
            for g in n.generators:
                for x in ast.walk(g.target):
                    if isinstance(x, ast.Name):
                        binders.setdefault(x.id, []).append(n)
        elif isinstance(n, (ast.For, ast.AsyncFor)):
            for x in ast.walk(n.target):
                if isinstance(x, ast.Name):
                    binders.setdefault(x.id, []).append(n)
    other_stores: dict[str, int] = {}
    for n in _walk_own(fn.body):
        if isinstance(n, ast.Name) and isinstance(n.ctx, (ast.Store, ast.Del)):
            other_stores[n.id] = other_stores.get(n.id, 0) + 1
    a = fn.args
    params = {p.arg for p in [*a.posonlyargs, *a.args, *a.kwonlyargs, *([a.vararg] if a.vararg else []), *([a.kwarg] if a.kwarg else [])]}
    for name, bs in binders.items():
        if other_stores.get(name, 0) + (1 if name in params else 0) <= 1:
            continue
        comps = [b for b in bs if not isinstance(b, (ast.For, ast.AsyncFor))]
        loops = [b for b in bs if isinstance(b, (ast.For, ast.AsyncFor))]
        for c in comps:
            new = fresh(name)
            # the first iterable is evaluated in the enclosing scope: it keeps its names
            first_iter = c.generators[0].iter
            c.generators[0].iter = ast.Constant(value=None)
            R({name: new}).visit(c)
            c.generators[0].iter = first_iter
        if len(loops) + (other_stores.get(name, 0) - len(bs)) + (1 if name in params else 0) <= 1:
            continue
        if other_stores.get(name, 0) != len(bs) or name in params:
            continue  # also bound by plain assignments: leave alone
        inside = set()
        for l in loops:
            for st in [*l.body]:
                for x in ast.walk(st):
                    inside.add(id(x))
        reads = [x for x in _walk_own(fn.body) if isinstance(x, ast.Name) and x.id == name and isinstance(x.ctx, ast.Load)]
        if any(id(x) not in inside for x in reads):
            continue
        nested = any(any(l2 is not l and any(y is l2 for y in ast.walk(l)) for l2 in loops) for l in loops)
        if nested:
            continue
        for l in loops[1:]:
            new = fresh(name)
            for st in l.body:
                R({name: new}).visit(st)
            R({name: new}).visit(l.target)


# --------------------------------------------------------------------------- entry


def deep_view(repo: Repo, fi: FuncInfo, types: Types, allow=None) -> FuncInfo:
    key = ("c17_deep_view", fi.fq)
    cache = repo.__dict__.setdefault("_view_cache", {})
    if key in cache:
        return cache[key]
    inl = DeepInliner(repo, types, allow)
    inl.kwname = fi.node.args.kwarg.arg if fi.node.args.kwarg is not None else None
    inl.root = fi
    origin: dict = {}
    node = _copy(fi.node, fi, origin)
    taken = _names_in(fi.node)
    inl.inlined = []
    inlined: list[str] = []
    for _ in range(MAX_ROUNDS):
        before = ast.dump(node)
        node.body = inl._block(fi, node.body, taken, origin, (fi.fq,))
        inlined += inl.inlined
        inl.inlined = []
        ast.fix_missing_locations(node)
        if unroll_literal_loops(node, fi, repo):
            continue
        if ast.dump(node) == before:
            break
    ast.fix_missing_locations(node)
    set_parents(node)
    for _ in range(4):
        if not fuse_loops(node):
            break
    uniquify(node)
    ast.fix_missing_locations(node)
    set_parents(node)
    v = FuncInfo(name=fi.name, qualname=fi.qualname + "~deep", node=node, module=fi.module, cls=fi.cls, decorators=list(fi.decorators), outer=fi.outer)
    v.shown = fi.qualname  # type: ignore[attr-defined]
    v.origin = origin  # type: ignore[attr-defined]
    v.inlined = inlined  # type: ignore[attr-defined]
    v.base = fi  # type: ignore[attr-defined]
    node._func = v  # type: ignore[attr-defined]
    for child in Repo._nested_callables(node):
        src = getattr(child, "_src", None)
        if src is not None and hasattr(src[1], "_func"):
            child._func = src[1]._func  # type: ignore[attr-defined]
    cache[key] = v
    return v
