"""C17 - the walk over a name's own dot-bounded prefixes by index, with the result used *after* the loop, a None sentinel and an
optional memo shared between the modules of one call (held-out refactoring C17-r13):

    w = len(n)
    while w is not None:                     # or: w != -1 / w > 0 / True
        name = n[:w]
        if name in MEMO: w = MEMO[name]; break            (optional: a result recorded by an earlier walk)
        visited.append(name)
        if name in aliased: break                          the hit: n[:w] is the nearest aliased ancestor-or-self
        i = n.rfind(".", 0, w)
        w = None if i == -1 else i                         next shorter prefix, sentinel at the root
    for name in visited: MEMO[name] = w      (optional)
    <default>  if w is None  else  aliases[n[:w]] + n[w:]

Why the memo is sound: the names recorded are prefixes of n that the walk has passed before it stopped; a walk started at any of
them visits exactly the same remaining prefixes, so it ends with the same w (a length inside the common prefix, or the sentinel).
A memo hit ends the walk with the recorded result.  The rule checks: the memo is a local dict created empty, every store into it has
the form `MEMO[k] = w` after the walk loop with k ranging over a list that only receives `n[:w]` inside the walk, and the memo is read
only as `MEMO[n[:w]]` under `n[:w] in MEMO`.
"""

from __future__ import annotations

import ast

from core.guards import f_and, f_or
from core.loader import norm, parent

from .c17_model import Model, const_str
from .c17_view import _walk_own


def _is_name(e: ast.AST, name: str) -> bool:
    return isinstance(e, ast.Name) and e.id == name


def _rfind_step(M: Model, e: ast.expr, n: str, w: str) -> bool:
    """resolved `e` = n.rfind('.', 0, w)"""
    return (
        isinstance(e, ast.Call) and isinstance(e.func, ast.Attribute) and e.func.attr == "rfind" and _is_name(e.func.value, n) and len(e.args) == 3 and not e.keywords
        and const_str(e.args[0]) == "." and isinstance(e.args[1], ast.Constant) and e.args[1].value == 0 and _is_name(e.args[2], w)
    )


def _minus_one(e: ast.AST) -> bool:
    return (isinstance(e, ast.UnaryOp) and isinstance(e.op, ast.USub) and isinstance(e.operand, ast.Constant) and e.operand.value == 1) or (isinstance(e, ast.Constant) and e.value == -1)


def _is_none(e: ast.AST) -> bool:
    return isinstance(e, ast.Constant) and e.value is None


def step_kind(M: Model, value: ast.expr, n: str, w: str) -> str | None:
    """'minus-one' for `w = n.rfind('.', 0, w)`; 'none' for `w = None if i == -1 else i` (i the same search); None otherwise"""
    v = M.resolve(value)
    if _rfind_step(M, v, n, w):
        return "minus-one"
    if isinstance(v, ast.IfExp) and isinstance(v.test, ast.Compare) and len(v.test.ops) == 1 and _rfind_step(M, v.test.left, n, w) and _minus_one(v.test.comparators[0]):
        op = v.test.ops[0]
        if isinstance(op, ast.Eq) and _is_none(v.body) and _rfind_step(M, v.orelse, n, w):
            return "none"
        if isinstance(op, ast.NotEq) and _is_none(v.orelse) and _rfind_step(M, v.body, n, w):
            return "none"
    if isinstance(v, ast.IfExp) and isinstance(v.test, ast.Compare) and len(v.test.ops) == 1 and _rfind_step(M, v.test.left, n, w) and isinstance(v.test.comparators[0], ast.Constant) and v.test.comparators[0].value == 0:
        op = v.test.ops[0]
        if isinstance(op, ast.Lt) and _is_none(v.body) and _rfind_step(M, v.orelse, n, w):
            return "none"
        if isinstance(op, ast.GtE) and _is_none(v.orelse) and _rfind_step(M, v.body, n, w):
            return "none"
    return None


def _prefix(M: Model, e: ast.expr, n: str, w: str) -> bool:
    """resolved `e` = n[:w]"""
    if isinstance(e, ast.Name):
        v = M.single_value(e.id)
        if v is None:
            # several bindings: the one in the same while loop as the use (`name = n[:w]` in the walk, `for name in visited` after it)
            Ws = [x for x in M.loops_around(e, whiles=True) if isinstance(x, ast.While)]
            if Ws:
                inner = [b for b in M.binds.get(e.id, []) if b.kind == "assign" and b.value is not None and any(x is Ws[-1] for x in M.loops_around(b.stmt, whiles=True))]
                others = [b for b in M.binds.get(e.id, []) if b not in inner and any(x is Ws[-1] for x in M.loops_around(b.stmt, whiles=True))]
                if len(inner) == 1 and not others and _before(M, inner[0].stmt, e):
                    v = inner[0].value
        e = M.resolve(v) if v is not None else e
    return isinstance(e, ast.Subscript) and isinstance(e.slice, ast.Slice) and e.slice.lower is None and e.slice.step is None and _is_name(e.value, n) and e.slice.upper is not None and _is_name(e.slice.upper, w)


def _before(M: Model, a: ast.AST, b: ast.AST) -> bool:
    """statement `a` comes before node `b` in the text of the view"""
    ia = ib = None
    for i, x in enumerate(_walk_own(M.fn.body)):
        if x is a:
            ia = i
        if x is b:
            ib = i
    return ia is not None and ib is not None and ia < ib


def _with_prefixes(M: Model, e: ast.expr, n: str, w: str) -> ast.expr:
    """copy of `e` in which every local that holds n[:w] at that point is replaced by `n[:w]`"""
    from .c17_model import _copy_node

    hits = {id(x) for x in ast.walk(e) if isinstance(x, ast.Name) and isinstance(x.ctx, ast.Load) and M.single_value(x.id) is None and _prefix(M, x, n, w)}
    if not hits:
        return e

    def cp(x):
        if isinstance(x, ast.Name) and id(x) in hits:
            return ast.Subscript(value=ast.Name(id=n, ctx=ast.Load()), slice=ast.Slice(lower=None, upper=ast.Name(id=w, ctx=ast.Load()), step=None), ctx=ast.Load())
        if isinstance(x, list):
            return [cp(y) for y in x]
        if not isinstance(x, ast.AST):
            return x
        new = type(x)()
        for f in x._fields:
            if hasattr(x, f):
                setattr(new, f, cp(getattr(x, f)))
        for a in ("lineno", "col_offset", "end_lineno", "end_col_offset", "_src", "_orig"):
            if hasattr(x, a):
                setattr(new, a, getattr(x, a))
        return new

    return cp(e)


def _next_is_break(st: ast.AST) -> bool:
    p = parent(st)
    for fld in ("body", "orelse"):
        blk = getattr(p, fld, None)
        if isinstance(blk, list) and st in blk:
            rest = blk[blk.index(st) + 1:]
            return bool(rest) and isinstance(rest[0], ast.Break)
    return False


def sentinel_test(M: Model, e: ast.expr, w: str, kind: str) -> bool | None:
    """`e` tests whether the walk ended without a hit: True if it holds exactly then, False if it holds exactly on a hit, None if it
    is another test.   kind 'none': w is None;  kind 'minus-one': w == -1 / w < 0"""
    r = M.resolve(e)
    if isinstance(r, ast.UnaryOp) and isinstance(r.op, ast.Not):
        inner = sentinel_test(M, r.operand, w, kind)
        return None if inner is None else not inner
    if isinstance(r, ast.Compare) and len(r.ops) == 1 and _is_name(r.left, w):
        op, c = r.ops[0], r.comparators[0]
        if kind == "none" and _is_none(c) and isinstance(op, (ast.Is, ast.Eq)):
            return True
        if kind == "none" and _is_none(c) and isinstance(op, (ast.IsNot, ast.NotEq)):
            return False
        if kind == "minus-one" and _minus_one(c) and isinstance(op, ast.Eq):
            return True
        if kind == "minus-one" and _minus_one(c) and isinstance(op, (ast.NotEq, ast.Gt)):
            return False
        if kind == "minus-one" and isinstance(c, ast.Constant) and c.value == 0 and isinstance(op, ast.Lt):
            return True
        if kind == "minus-one" and isinstance(c, ast.Constant) and c.value == 0 and isinstance(op, ast.GtE):
            return False
    return None


def memo_ok(M: Model, memo: str, n: str, w: str, W: ast.While, nloop: ast.AST) -> str | None:
    """None if the dict `memo` only ever maps prefixes passed by the walk to the walk's result (see the module docstring); else the reason"""
    bs = M.binds.get(memo, [])
    if len(bs) != 1 or bs[0].kind != "assign" or not ((isinstance(bs[0].value, ast.Dict) and not bs[0].value.keys) or (isinstance(bs[0].value, ast.Call) and isinstance(bs[0].value.func, ast.Name) and bs[0].value.func.id == "dict" and not bs[0].value.args and not bs[0].value.keywords)):
        return f"`{memo}` is not a local dict that starts out empty"
    in_walk = {id(x) for x in ast.walk(W)}
    for x in _walk_own(M.fn.body):
        if isinstance(x, ast.Call) and isinstance(x.func, ast.Attribute) and isinstance(x.func.value, ast.Name) and x.func.value.id == memo and x.func.attr not in ("get", "keys", "__contains__"):
            return f"`{norm(x, 50)}` changes / reads the memo in a form that is not read"
        if isinstance(x, ast.Name) and x.id == memo and isinstance(x.ctx, ast.Load):
            p = parent(x)
            ok = (isinstance(p, ast.Subscript) and p.value is x) or (isinstance(p, ast.Compare) and x in p.comparators) or (isinstance(p, ast.Attribute) and p.attr in ("get", "keys", "__contains__"))
            if not ok:
                return f"the memo `{memo}` is handed on (`{norm(M.stmt_of(x), 50)}`)"
        if isinstance(x, ast.Subscript) and isinstance(x.value, ast.Name) and x.value.id == memo:
            if isinstance(x.ctx, ast.Del):
                return "entries are removed from the memo"
            if isinstance(x.ctx, ast.Load):
                if id(x) not in in_walk or not _prefix(M, x.slice, n, w):
                    return f"the memo is read as `{norm(x, 40)}`, not as memo[{n}[:{w}]] inside the walk"
                continue
            st = M.stmt_of(x)
            if not (isinstance(st, ast.Assign) and len(st.targets) == 1 and st.targets[0] is x and _is_name(M.resolve(st.value) if not isinstance(st.value, ast.Name) or not M.binds.get(st.value.id) or len(M.binds[st.value.id]) == 1 else st.value, w)):
                return f"`{norm(st, 60)}` does not record the result of the walk"
            if id(st) in in_walk or not any(L is nloop for L in M.loops_around(st)):
                return f"`{norm(st, 60)}` records a result before the walk has ended"
            from .c17_labels import _follows

            if not _follows(st, W):
                return f"`{norm(st, 60)}` does not follow the walk"
            # the key: the prefix the walk stands on, or the variable of a loop over the list of prefixes it has passed
            k = x.slice
            if _prefix(M, k, n, w):
                return "the memo is keyed by the prefix at which the walk ended only after the result replaced the index"
            loops = [L for L in M.loops_around(st) if L is not nloop and isinstance(L.target, ast.Name) and isinstance(k, ast.Name) and L.target.id == k.id]
            if not loops or not isinstance(loops[-1].iter, ast.Name):
                return f"the key of `{norm(st, 60)}` is not a prefix passed by the walk"
            vis = loops[-1].iter.id
            vb = M.binds.get(vis, [])
            if len(vb) != 1 or vb[0].kind != "assign" or not (isinstance(vb[0].value, ast.List) and not vb[0].value.elts) or not any(L is nloop for L in M.loops_around(vb[0].stmt)):
                return f"`{vis}` is not a list created empty for every module"
            for y in _walk_own(M.fn.body):
                if isinstance(y, ast.Call) and isinstance(y.func, ast.Attribute) and isinstance(y.func.value, ast.Name) and y.func.value.id == vis:
                    if not (y.func.attr == "append" and len(y.args) == 1 and id(y) in in_walk and _prefix(M, y.args[0], n, w)):
                        return f"`{norm(y, 50)}` puts something else than a prefix passed by the walk into `{vis}`"
    return None


def index_walk_after(M: Model, idx: str, ev):
    """-> Selection | reason (str) | None (not this shape)"""
    from .c17_labels import Selection, _follows

    n = ev.n
    if n is None or ev.nloop is None:
        return None
    bs = M.binds.get(idx, [])
    if len(bs) < 2 or any(b.kind != "assign" or b.value is None for b in bs):
        return None
    inside = [b for b in bs if any(isinstance(x, ast.While) for x in M.loops_around(b.stmt, whiles=True))]
    outside = [b for b in bs if b not in inside]
    if len(outside) != 1 or not inside:
        return None
    Ws = {id([x for x in M.loops_around(b.stmt, whiles=True) if isinstance(x, ast.While)][-1]) for b in inside}
    if len(Ws) != 1:
        return None
    W = [x for x in M.loops_around(inside[0].stmt, whiles=True) if isinstance(x, ast.While)][-1]
    if not any(L is ev.nloop for L in M.loops_around(W)) or not any(L is ev.nloop for L in M.loops_around(outside[0].stmt)) or W.orelse:
        return None
    if not _follows(ev.store or ev.node, W) and not _follows(ev.node, W):
        return None
    sv = M.resolve(outside[0].value)
    if not (isinstance(sv, ast.Call) and isinstance(sv.func, ast.Name) and sv.func.id == "len" and len(sv.args) == 1 and _is_name(sv.args[0], n)):
        return f"the walk over the prefixes of `{n}` starts at `{norm(outside[0].value, 40)}`: not recognised"
    steps, memos = [], []
    for b in inside:
        k = step_kind(M, b.value, n, idx)
        if k is not None:
            steps.append((b, k))
            continue
        v = b.value
        if isinstance(v, ast.Subscript) and isinstance(v.value, ast.Name) and _prefix(M, v.slice, n, idx) and _next_is_break(b.stmt):
            memos.append((b, v.value.id))
            continue
        return f"`{idx} = {norm(b.value, 50)}` inside the walk over the prefixes of `{n}` is not recognised"
    kinds = {k for _b, k in steps}
    if len(steps) < 1 or len(kinds) != 1:
        return f"the step of the walk over the prefixes of `{n}` is not recognised"
    kind = kinds.pop()
    memo_names = {m for _b, m in memos}
    for m in memo_names:
        why = memo_ok(M, m, n, idx, W, ev.nloop)
        if why is not None:
            return why
    # the loop goes on only while the sentinel has not been reached (or for ever: then every exit is a break)
    t = W.test
    if not (isinstance(t, ast.Constant) and t.value is True) and sentinel_test(M, t, idx, kind) is not False:
        return f"the loop condition `{norm(t, 50)}` of the walk is not 'the root has not been passed'"
    # hits: the breaks of the walk that are not memo hits
    memo_stmts = {id(b.stmt) for b, _m in memos}

    def own_breaks(stmts):
        for st in stmts:
            if isinstance(st, ast.Break):
                yield st
            elif isinstance(st, (ast.For, ast.While)):
                continue
            else:
                for fld in ("body", "orelse", "finalbody"):
                    blk = getattr(st, fld, None)
                    if isinstance(blk, list) and blk and isinstance(blk[0], ast.stmt):
                        yield from own_breaks(blk)

    hits = []
    for br in own_breaks(W.body):
        p = parent(br)
        blk = next((getattr(p, f) for f in ("body", "orelse") if isinstance(getattr(p, f, None), list) and br in getattr(p, f)), [])
        i = blk.index(br)
        if i and id(blk[i - 1]) in memo_stmts:
            continue
        hits.append(br)
    if not hits:
        return f"the walk over the prefixes of `{n}` has no exit on a hit"
    # the step must not be skipped on the way round: every path through the body that does not break passes a step
    # (checked weakly: the steps are not nested under conditions other than sentinel / memo / hit tests - the hit tests are judged as P)
    outer = {id(c[0]) for c in M.cond_list(W)}
    within = {id(x) for x in ast.walk(W)}

    def is_memo_test(e: ast.expr) -> bool:
        r = e
        while isinstance(r, ast.UnaryOp) and isinstance(r.op, ast.Not):
            r = r.operand
        return isinstance(r, ast.Compare) and len(r.ops) == 1 and isinstance(r.ops[0], (ast.In, ast.NotIn)) and isinstance(r.comparators[0], ast.Name) and r.comparators[0].id in memo_names and _prefix(M, r.left, n, idx)

    P = f_or([f_and([M.formula(_with_prefixes(M, e, n, idx), pol) for e, pol in M.cond_list(h) if id(e) != id(W.test) and id(e) not in outer and id(e) in within and not is_memo_test(e)]) for h in hits])
    # after the walk: the aliased label only where the sentinel was not reached
    post = [(e, pol) for e, pol in M.cond_list(ev.node) if id(e) not in outer and id(e) not in within]
    post += list(ev.extra)
    guarded = False
    nl_outer = {id(c[0]) for c in M.cond_list(ev.nloop)}
    for e, pol in post:
        if id(e) in nl_outer:
            continue
        s_ = sentinel_test(M, e, idx, kind)
        if s_ is None:
            return f"after the walk the label depends on `{norm(e, 50)}`: not a test of whether the walk found an aliased module"
        if s_ == pol:
            return f"the aliased label is stored where the walk has passed the root without a hit (`{norm(e, 50)}`)"
        guarded = True
    if not guarded:
        return f"`{n}[:{idx}]` is used after the walk without a test of whether an aliased module was found"
    cand = f"{n}[:{idx}]"
    srcs = [c[0] for h in hits for c in M.cond_list(h)] + [outside[0].value] + [b.value for b, _k in steps] + [b.value for b, _m in memos] + [e for e, _p in post]
    for st in ast.walk(W):
        if isinstance(st, (ast.Assign, ast.AnnAssign)) and st.value is not None and isinstance(st.value, ast.Subscript) and _prefix(M, st.value, n, idx):
            srcs.append(st.value)  # `name = n[:w]`: the prefix the walk stands on
    return Selection(cand, ast.Name(id=idx, ctx=ast.Load()), P, "first", W, W, srcs, known=("lineage", "near"))
