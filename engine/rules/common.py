"""Helpers shared by the rule modules."""

from __future__ import annotations

import ast
from functools import lru_cache
from typing import Iterable, Iterator

from core.cfg import CFG, conditions_at, path_conditions
from core.guards import Formula, atoms_of, conds_formula, evaluate, to_formula
from core.loader import AnalysisError, ClassInfo, FuncInfo, Repo, ancestors, calls_in, header, norm, own_nodes, parent
from core.types import Types

_cache: dict = {}


def types_of(repo: Repo) -> Types:
    key = ("types", id(repo))
    if key not in _cache:
        _cache[key] = Types(repo)
    return _cache[key]


def cfg_of(fi: FuncInfo) -> CFG:
    key = ("cfg", id(fi.node))
    if key not in _cache:
        _cache[key] = CFG(fi.node)
    return _cache[key]


def pc_of(fi: FuncInfo) -> dict:
    key = ("pc", id(fi.node))
    if key not in _cache:
        _cache[key] = path_conditions(fi.node)
    return _cache[key]


def conds(fi: FuncInfo, node: ast.AST) -> list:
    return conditions_at(fi.node, node, pc_of(fi))


def where(fi: FuncInfo, node: ast.AST) -> str:
    return f"{fi.relpath}:{getattr(node, 'lineno', 0)}"


def stmt_of(node: ast.AST) -> ast.AST:
    n = node
    while n is not None and not isinstance(n, (ast.stmt, ast.ExceptHandler)):
        n = parent(n)
    return n


def is_attr_call(call: ast.AST, attr: str) -> bool:
    return isinstance(call, ast.Call) and isinstance(call.func, ast.Attribute) and call.func.attr == attr


def is_name_call(call: ast.AST, name: str) -> bool:
    return isinstance(call, ast.Call) and isinstance(call.func, ast.Name) and call.func.id == name


def dotted(e: ast.AST) -> str:
    """`a.b.c` for Name/Attribute chains, else ''."""
    parts = []
    while isinstance(e, ast.Attribute):
        parts.append(e.attr)
        e = e.value
    if isinstance(e, ast.Name):
        parts.append(e.id)
        return ".".join(reversed(parts))
    return ""


def lib_call_name(repo: Repo, fi: FuncInfo, call: ast.Call) -> str:
    """Fully qualified dotted name of a library function call (`re.match`, `networkx.freeze`), else ''."""
    fq = repo.resolve_name(fi.module, call.func) if isinstance(call.func, (ast.Name, ast.Attribute)) else None
    return fq or ""


def names_in(e: ast.AST) -> set[str]:
    return {n.id for n in ast.walk(e) if isinstance(n, ast.Name)}


def loops_around(node: ast.AST, fn: ast.AST) -> list[ast.AST]:
    """Enclosing For/While statements and comprehension generators' owners, innermost first."""
    out = []
    for a in ancestors(node):
        if a is fn:
            break
        if isinstance(a, (ast.For, ast.AsyncFor, ast.While, ast.ListComp, ast.SetComp, ast.GeneratorExp, ast.DictComp)):
            out.append(a)
    return out


def iter_sources(loop: ast.AST) -> list[tuple[ast.expr, ast.expr]]:
    """(target, iter) pairs of a For statement or comprehension."""
    if isinstance(loop, (ast.For, ast.AsyncFor)):
        return [(loop.target, loop.iter)]
    if isinstance(loop, (ast.ListComp, ast.SetComp, ast.GeneratorExp, ast.DictComp)):
        return [(g.target, g.iter) for g in loop.generators]
    return []


# --------------------------------------------------------------------------- def/use helpers


def assigned_names(stmts: Iterable[ast.AST]) -> set[str]:
    out: set[str] = set()
    for s in stmts:
        for n in ast.walk(s):
            if isinstance(n, ast.Name) and isinstance(n.ctx, (ast.Store, ast.Del)):
                out.add(n.id)
    return out


def upward_exposed(stmts: list[ast.stmt], defined: set[str] | None = None) -> set[str]:
    """Names read in the block on some path before the block itself (re)defines them."""
    exposed: set[str] = set()

    def expr_uses(e: ast.AST, d: set[str]) -> None:
        comp_targets: set[str] = set()
        for n in ast.walk(e):
            if isinstance(n, ast.comprehension):
                comp_targets |= {x.id for x in ast.walk(n.target) if isinstance(x, ast.Name)}
        for n in ast.walk(e):
            if isinstance(n, ast.Name) and isinstance(n.ctx, ast.Load) and n.id not in d and n.id not in comp_targets:
                exposed.add(n.id)

    def block(ss: list[ast.stmt], d: set[str]) -> set[str]:
        d = set(d)
        for s in ss:
            if isinstance(s, ast.Assign):
                expr_uses(s.value, d)
                for t in s.targets:
                    for n in ast.walk(t):
                        if isinstance(n, ast.Name) and isinstance(n.ctx, ast.Load):
                            if n.id not in d:
                                exposed.add(n.id)
                    d |= {n.id for n in ast.walk(t) if isinstance(n, ast.Name) and isinstance(n.ctx, ast.Store)}
            elif isinstance(s, ast.AugAssign):
                expr_uses(s.value, d)
                expr_uses(ast.Name(id=s.target.id, ctx=ast.Load()) if isinstance(s.target, ast.Name) else s.target, d)
                if isinstance(s.target, ast.Name):
                    d.add(s.target.id)
            elif isinstance(s, ast.AnnAssign):
                if s.value is not None:
                    expr_uses(s.value, d)
                    if isinstance(s.target, ast.Name):
                        d.add(s.target.id)
            elif isinstance(s, ast.If):
                expr_uses(s.test, d)
                a = block(s.body, d)
                b = block(s.orelse, d)
                d = a & b
            elif isinstance(s, (ast.For, ast.AsyncFor)):
                expr_uses(s.iter, d)
                inner = d | {n.id for n in ast.walk(s.target) if isinstance(n, ast.Name)}
                block(s.body, inner)
                block(s.orelse, d)
            elif isinstance(s, ast.While):
                expr_uses(s.test, d)
                block(s.body, d)
                block(s.orelse, d)
            elif isinstance(s, ast.Try):
                a = block(s.body, d)
                for h in s.handlers:
                    block(h.body, d | ({h.name} if h.name else set()))
                block(s.orelse, a)
                block(s.finalbody, d)
            elif isinstance(s, (ast.With, ast.AsyncWith)):
                for it in s.items:
                    expr_uses(it.context_expr, d)
                    if it.optional_vars is not None:
                        d |= {n.id for n in ast.walk(it.optional_vars) if isinstance(n, ast.Name)}
                d = block(s.body, d)
            elif isinstance(s, (ast.FunctionDef, ast.AsyncFunctionDef, ast.ClassDef)):
                d.add(s.name)
            else:
                expr_uses(s, d)
        return d

    block(stmts, defined or set())
    return exposed


def loop_carried(loop: ast.For | ast.While) -> set[str]:
    """Variables (re)bound in the loop body whose value from a previous iteration can be read in a later one."""
    targets = {n.id for n in ast.walk(loop.target) if isinstance(n, ast.Name)} if isinstance(loop, (ast.For, ast.AsyncFor)) else set()
    body_assigned = assigned_names(loop.body)
    exposed = upward_exposed(loop.body, targets)
    return (exposed & body_assigned) - targets


# --------------------------------------------------------------------------- reachability over the call graph


def reachable_funcs(repo: Repo, roots: Iterable[FuncInfo], byname: bool = True, stop: set[str] | None = None) -> dict[FuncInfo, list[str]]:
    """Functions reachable from the roots through resolved calls (CHA; name-based fallback for unknown receivers).

    Returns {function: call path from a root (list of fq names)}. Property reads count as calls.
    """
    T = types_of(repo)
    seen: dict[FuncInfo, list[str]] = {}
    work = [(r, [r.fq]) for r in roots]
    while work:
        f, path = work.pop()
        if f in seen:
            continue
        seen[f] = path
        if stop and f.fq in stop:
            continue
        for g in callees_of(repo, f, byname):
            if g not in seen:
                work.append((g, path + [g.fq]))
    return seen


def callees_of(repo: Repo, f: FuncInfo, byname: bool = True) -> list[FuncInfo]:
    key = ("callees", id(repo), f.fq, byname)
    if key in _cache:
        return _cache[key]
    T = types_of(repo)
    out: list[FuncInfo] = []
    for n in own_nodes(f.node):
        if isinstance(n, ast.Call):
            cs, how = T.callees(f, n, byname_fallback=byname)
            out += cs
            # callables passed as arguments (map(fn, ...), key=fn, lambdas) may be invoked by the callee
            for a in [*n.args, *[k.value for k in n.keywords]]:
                t = T.expr(f, a)
                for m in (t[1] if t[0] == "union" else [t]):
                    if m[0] == "fn":
                        out.append(m[1])
        elif isinstance(n, ast.Attribute) and isinstance(n.ctx, ast.Load):
            t = T.expr(f, n.value)
            for m in (t[1] if t[0] == "union" else [t]):
                if m[0] == "cls":
                    ci = repo.classes.get(m[1])
                    if ci is not None:
                        for impl in repo.implementations(ci, n.attr):
                            if impl.is_property:
                                out.append(impl)
        elif isinstance(n, (ast.FunctionDef, ast.AsyncFunctionDef, ast.Lambda)):
            nf = getattr(n, "_func", None)
            if nf is not None:
                out.append(nf)  # nested callables are assumed to be invoked
    # dunder protocol: bool(obj) / `if obj:` on repo instances
    res: list[FuncInfo] = []
    for g in out:
        if g not in res:
            res.append(g)
    _cache[key] = res
    return res


def const_str(repo: Repo, fi: FuncInfo, e: ast.AST) -> str | None:
    from core.fold import fold

    return fold(repo, fi.module, e, fi)


def copy_prop(fi: FuncInfo, keep=None):
    """Substitution for `to_formula`: a local bound exactly once to a boolean-valued expression stands for that expression, and a call
    of a private boolean helper stands for the helper's body (core/inline.py); `keep` names helpers that stay atoms."""
    single: dict[str, ast.expr] = {}
    counts: dict[str, int] = {}
    if isinstance(fi.node, ast.Lambda):
        return lambda e: None
    for n in own_nodes(fi.node):
        if isinstance(n, ast.Name) and isinstance(n.ctx, ast.Store):
            counts[n.id] = counts.get(n.id, 0) + 1
        if isinstance(n, ast.Assign) and len(n.targets) == 1 and isinstance(n.targets[0], ast.Name):
            single[n.targets[0].id] = n.value
    params = set(fi.param_names)
    helper = bool_inliner(fi.module.repo).subst(fi, 0, keep)  # type: ignore[attr-defined]

    def subst(e: ast.expr):
        if isinstance(e, ast.Name) and e.id in single and counts.get(e.id) == 1 and e.id not in params:
            v = single[e.id]
            if isinstance(v, (ast.Call, ast.Compare, ast.BoolOp, ast.UnaryOp)):
                return to_formula(v, subst)
        return helper(e)

    return subst


def bool_inliner(repo: Repo):
    """Inliner of private boolean helpers (core/inline.py); one per repository."""
    from core.inline import BoolInliner

    key = ("boolinl", id(repo))
    if key not in _cache:
        _cache[key] = BoolInliner(repo, types_of(repo))
    return _cache[key]


def guard_formula(fi: FuncInfo, node: ast.AST, keep=None) -> Formula:
    """Path condition of `node` as a formula, with single-assignment boolean locals replaced by their definitions."""
    return conds_formula(conds(fi, node), copy_prop(fi, keep))


def truth(fi: FuncInfo, text: str | ast.expr, keep=None) -> Formula:
    """Formula of `text` (an expression over the function's variables) with the same copy propagation as guard_formula."""
    return to_formula(ast.parse(text, mode="eval").body if isinstance(text, str) else text, copy_prop(fi, keep))


def helper_object_sources(fi, sources) -> list:
    """Worklist start expressions of the form `Cls(...)` where `Cls` is a class defined in the function's own module: the start set is
    owned by a helper object the search model does not read, so 'does not start from the subject's sub-tree' cannot be concluded."""
    import re as _re

    out = []
    for s_ in sources or []:
        m_ = _re.match(r"^([A-Za-z_]\w*)\(", s_)
        if m_ and m_.group(1) in getattr(fi.module, "classes", {}):
            out.append(s_)
    return out
