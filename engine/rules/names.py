r"""F-NAME: every string-relational operation on a module-name-typed value must respect dotted-component boundaries.

Module-name-typed values are found by provenance (tag NAME of the flow engine), not by variable names:
  `.identifier` / `.parent_module` of module filters and modules (public API), results of Import.importer()/importee()/
  ..._parent_modules(), get_parent_modules(..), get_node(..), nodes of the graph (`.nodes`, `arch.modules`), parameters annotated
  Node / AbstractNode / ModuleName, names read from import statements (`alias.name`, `<ImportFrom>.module`), a path turned into
  dot notation (`str(path).replace(os.sep, ".")`), the public `aliases` option of draw() - and everything these flow into
  (assignments, containers, calls, fields, closures).

Operations (one `Site` each, `Site.group` says which kind of obligation it is):
  group "relation"   startswith / endswith / removeprefix / removesuffix / find / index / count / replace / partition / split with a
                     non-constant needle, strip-family with a name as character set, `a in b` on strings, re.* / fnmatch with a
                     pattern built from a value, os.path.commonprefix, zip over the characters of two names, case folding before a
                     comparison, slicing by len(other), a slice compared with the other string (`x[:len(p)] == p`), slicing by an
                     index (`x[:x.rfind('.')]`, `x[:i]`), bound / unbound str methods handed to map / filter
  group "separator"  the constant a name is split / partitioned / searched at, the separator its components are joined with, the
                     constants the characters of a name are compared with, prefixes accumulated character by character,
                     constants replaced by the separator
  group "order"      F-NAME.ORDER: a loop over module names sorted as plain strings (`sorted(xs)` / `xs.sort()`, followed through
                     locals, fields, helpers, slices, reversed / enumerate: `name_list_order`) that stops (break / return), jumps
                     (index re-positioned, e.g. by another bisect) or drops remembered names (pop / del / clear / truncation of a
                     list fed from the loop) on a path where the current name is *not* related to the searched one (a negated
                     startswith / relation predicate) or where dotted levels are compared. Plain string order only guarantees
                     that an ancestor precedes its descendants: 'a' < 'a-b' < 'a.b', 'pkg' < 'pkg.a' < 'pkg.b.x'. Not armed for
                     lists sorted with key=lambda n: n.split(".") (a pre-order of the module tree), full walks, and exits taken
                     where the relation holds (closest parent found).
  group "extent"     component-wise comparison through zip (stops at the shorter list: an ancestor of the prefix compares equal);
                     respects boundaries, so it is not a C14 matter - C10.R2 consumes it

Verdicts: safe | unsafe | unknown (cannot be classified: the check gives no verdict) | not-name (lexical test with a constant /
not a name) | reviewed (user-supplied regex, recognised by role) | unclassified (provenance and static type unknown: not armed).

Accepted (safe) idioms, in all their spellings - locals, helpers (private predicates are inlined), callers, loops, comprehensions:
  * the prefix provably ends with the separator: `p + "."`, f"{p}.", "{}.".format(p), "%s." % p, ".".join([p, ""]),
    `p if p.endswith(".") else p + "."`, `if not p.endswith("."): p += "."`, constants given by name (module / class level,
    parameter defaults), prefixes precomputed in tuples, lists, dicts (values, `.items()`), fields, properties, generators,
    handed through parameters (every call site), closures, partial / map / lru_cache'd helpers;
  * a raw prefix test whose next character is tested (`x[len(p)] == "."`, `x[len(p):][:1] in ("", ".")`), also as a predicate
    function, or whose remainder (`x[len(p):]`, `x.removeprefix(p)`) is only tested to be empty / to start with '.';
  * `x[len(p):]` / `x.removeprefix(p)` where `x == p or x.startswith(p + ".")` holds on every path to the cut - in the function,
    in every caller of a small helper, by selecting p from a filtered collection (next / comprehension / filter / max), or
    because p was returned by a helper that selects it that way, or p is x or one of get_parent_modules(x);
  * `x[:len(p) + 1] == p + "."`, `x[:len(q)] == q` with q ending in '.', suffixes starting with '.';
  * cuts at an index that is the position of a separator: find / rfind('.') guarded by `!= -1` / `>= 0` / `"." in x` (if, while,
    conditional expression, walrus), `+ 1` past it, index / rindex, enumerate / range(len) positions tested to hold '.',
    positions collected by such a test, regex matches of r"\.", an index variable whose not-found value is replaced or excluded
    on every path to the cut (`if i < 0: i = len(x)`, also inside loops left by break - `_index_values_at` interprets the
    function over the value kinds {-1, 0, separator position, len(x)}; a `for .. in range(n)` counts as run at least once only
    where the path condition shows n > 0);
  * `x.replace(p, y, 1)` where `x == p or x.startswith(p + ".")` is established at the call (as for `x[len(p):]`): the first
    occurrence is then the leading run of whole components; without a count, with another count, or after a raw test: unsafe;
  * components folded pairwise with the separator: `accumulate(parts, "{}.{}".format)`, `reduce(lambda a, b: a + "." + b, parts)`
    (f-string / join / format / small named function alike); any other constant between the two: unsafe;
  * a head slice or a next-character slice kept in a local (also by pairwise tuple assignment) is judged at the comparisons of
    that local; a length kept in a field (`self._end = len(self._root)`, both assigned once, in this order, in one method) is
    that length; class-level tuples of accepted next characters are read as constants;
  * the characters of a name kept in a list (`chars = list(name)`, `[*name]`): loops over it are loops over the name,
    `"".join(chars[:i])` is `name[:i]`;
  * an index that is None (`name[:None]` is the whole name), and a memo `prefix of the name -> boundary index | None` shared
    between calls (`_memo_candidates` + verification in `_index_values_at`: created empty, only written as `D[name[:v]] = v'`
    with boundary values, the index variable never grows);
  * `x[len(p):]` with no test on the two strings at all, where x was reached from graph-neighbourhood calls (successors /
    predecessors / ...): unsafe - edges relate nodes, not names;
  * names handed to callable objects (`matcher(name)`, `filter(matcher, names)`, the static type of `matcher` being a repo class
    with `__call__`) reach the parameters of `__call__`;
  * split / rsplit / partition / rpartition / count / find at '.', join of components with '.' (or of '.'-decorated components
    with ''), characters compared with '.' only, '.' replaced (name -> path), components joined with '/';
  * regexes built from an escaped name that continue with a boundary (`(\.|$)`, `\.`, `\b`) or are matched with fullmatch;
    user-supplied regexes (identifier of filters of static type ModuleNameRegexFilter or selected by `identifier_is_regex`);
  * both operands of `in` enclosed in separators; glob patterns that continue with ".".
Everything else on a name is `unsafe` when the needle is provably a plain name, `unknown` when that cannot be established.

The classification of a needle uses two provers:
  * `dot_status` (must): follows the value to the expressions it originates from (class `Origins`: locals, loop and comprehension
    targets with their scopes, tuple positions, containers and their mutators, dict values, fields, properties, constructor
    arguments of dataclasses, parameters at every call site incl. defaults / partial / map, return and yield values) and decides
    whether every origin ends with the separator ('dot') or every origin is a plain name ('bare');
  * the flow tag DOT (may): a value that carries names and into which no string ending in '.' was ever concatenated is a plain name.
"""

from __future__ import annotations

import ast
from dataclasses import dataclass

from core.flow import Flow, Spec
from core.fold import fold
from core.loader import AnalysisError, FuncInfo, Repo, ancestors, calls_in, norm, own_nodes, parent
from core.types import STR, Types, elem_type, members

from .common import _cache, conds, dotted, stmt_of, types_of

NAME_ANNOTATIONS = {"Node", "AbstractNode", "ModuleName"}
FILTER_CLASSES = ("ModuleFilter", "ModuleNameFilter", "ParentModuleNameFilter", "Module", "ModuleGroup")
REGEX_FILTER = "ModuleNameRegexFilter"
NAME_METHODS = {"importer", "importee", "importer_parent_modules", "importee_parent_modules"}
NAME_FUNCS = {"get_parent_modules", "_get_module_name", "get_node"}
STR_REL_METHODS = {"startswith", "endswith", "removeprefix", "removesuffix", "find", "index", "rfind", "rindex", "count", "replace", "partition", "rpartition", "lstrip", "rstrip", "strip"}
SEARCH_METHODS = {"find", "rfind", "index", "rindex"}
GRAPH_NEIGHBOURS = {"successors", "predecessors", "neighbors", "all_neighbors", "descendants", "ancestors", "edges", "in_edges", "out_edges", "bfs_tree", "dfs_tree", "bfs_edges", "dfs_edges", "direct_successor_nodes", "direct_predecessor_nodes"}
WRAPPERS = {"sorted", "list", "set", "reversed", "tuple", "frozenset", "iter"}

# user-supplied patterns matched against names *by design* (regexes in rules) are recognised by role: the pattern is, unmodified,
# the identifier of filters whose static type is ModuleNameRegexFilter or that were selected by the public flag
# `identifier_is_regex` (see _user_regex). No site is exempted by name any more; the table stays for additions.
REVIEWED_PATTERN_SITES: dict[tuple[str, str], str] = {}


@dataclass
class Site:
    fi: FuncInfo
    node: ast.AST
    op: str
    haystack: ast.expr | None
    needle: ast.expr | None
    name_typed: bool
    verdict: str  # safe | unsafe | unknown | not-name | reviewed | unclassified
    why: str
    group: str = "relation"  # relation | separator | extent


# --------------------------------------------------------------------------- small helpers


def _const_str(e: ast.AST | None) -> str | None:
    return e.value if isinstance(e, ast.Constant) and isinstance(e.value, str) else None


def _call_name(c: ast.AST) -> str:
    if not isinstance(c, ast.Call):
        return ""
    return c.func.id if isinstance(c.func, ast.Name) else (c.func.attr if isinstance(c.func, ast.Attribute) else "")


def _module_constant(repo: Repo, f: FuncInfo, name: str) -> ast.expr | None:
    """Value of a module-level constant visible under `name` in the module of `f` (own or imported)."""
    mod = f.module
    if name in mod.constants:
        return mod.constants[name]
    fq = mod.imports.get(name)
    if fq:
        m2, _, attr = fq.rpartition(".")
        om = repo.modules.get(m2)
        if om is not None and attr in om.constants:
            return om.constants[attr]
    if name.isupper() or (name.startswith("_") and name[1:].isupper()):
        # a condition inlined from a helper of another module mentions that module's constants: a constant name that has
        # one value in the whole repository denotes that value
        found = [m.constants[name] for m in repo.modules.values() if name in m.constants]
        vals = {_const_str(c) for c in found}
        if found and len(vals) == 1 and None not in vals:
            return found[0]
    return None


def _attr_constant(repo: Repo, T: Types, f: FuncInfo, e: ast.Attribute) -> str | None:
    """String value of `self.X` / `cls.X` / `Class.X` (class-level constant) or `module.X` (module-level constant)."""
    key = ("attr_const", id(repo), f.module.name, f.cls.fq if f.cls else "", norm(e))
    if key in _cache:
        return _cache[key]
    out = None
    classes = []
    if isinstance(e.value, ast.Name) and e.value.id in ("self", "cls") and f.cls is not None:
        classes = repo.mro(f.cls)
    elif isinstance(e.value, (ast.Name, ast.Attribute)):
        fq = repo.resolve_name(f.module, e)
        if fq:
            m2, _, attr = fq.rpartition(".")
            om = repo.modules.get(m2)
            if om is not None and attr in om.constants:
                out = _const_str(om.constants[attr])
            ci = repo.classes.get(m2)
            if ci is not None:
                classes = repo.mro(ci)
    for ci in classes:
        if e.attr in ci.class_attrs:
            out = _const_str(ci.class_attrs[e.attr])
            break
    _cache[key] = out
    return out


def _char_value(repo: Repo, f: FuncInfo, e: ast.expr, depth: int = 0) -> str | None:
    """The string an expression denotes if it is a constant or a `chr(<int constant | sys.maxunicode>)`, also behind a module constant."""
    if depth > 3:
        return None
    c = _const_str(e)
    if c is not None:
        return c
    if isinstance(e, ast.Call) and isinstance(e.func, ast.Name) and e.func.id == "chr" and len(e.args) == 1:
        a = e.args[0]
        if isinstance(a, ast.Constant) and isinstance(a.value, int):
            try:
                return chr(a.value)
            except (ValueError, OverflowError):
                return None
        if norm(a) in ("sys.maxunicode", "maxunicode"):
            return chr(0x10FFFF)
        return None
    if isinstance(e, ast.Name) and not _is_local(f, e.id):
        k = _module_constant(repo, f, e.id)
        if k is not None:
            return _char_value(repo, f, k, depth + 1)
    if isinstance(e, (ast.Name, ast.Attribute, ast.JoinedStr, ast.BinOp)):
        try:
            return fold(repo, f.module, e, f)
        except Exception:  # noqa: BLE001
            return None
    return None


def _declared_node_name(f: FuncInfo, param: str) -> bool:
    """The parameter is annotated with one of the node-name types of the graph interface (Node, AbstractNode, ModuleName)."""
    ann = next((p.annotation for p in f.params if p.arg == param), None)
    if ann is None:
        return False
    if isinstance(ann, ast.Constant) and isinstance(ann.value, str):
        return ann.value.strip() in NAME_ANNOTATIONS
    return isinstance(ann, (ast.Name, ast.Attribute)) and (ann.id if isinstance(ann, ast.Name) else ann.attr) in NAME_ANNOTATIONS


def _is_local(f: FuncInfo, name: str) -> bool:
    key = ("stored_names", id(f.node))
    if key not in _cache:
        _cache[key] = set(f.param_names) | {n.id for n in own_nodes(f.node) if isinstance(n, ast.Name) and isinstance(n.ctx, ast.Store)}
    return name in _cache[key]


def _lambda_iterable(f: FuncInfo) -> ast.expr | None:
    """The iterable whose elements are bound to the (single) parameter of the lambda `f`: map(lambda, X), sorted(X, key=lambda), ..."""
    lam = f.node
    if not isinstance(lam, ast.Lambda) or f.outer is None:
        return None
    p = parent(lam)
    call = parent(p) if isinstance(p, ast.keyword) else p
    if not isinstance(call, ast.Call):
        return None
    nm = _call_name(call)
    if nm in ("map", "filter") and len(call.args) >= 2 and call.args[0] is lam:
        return call.args[1]
    if nm in ("sorted", "min", "max") and call.args and any(k.value is lam for k in call.keywords):
        return call.args[0]
    if nm == "sort" and isinstance(call.func, ast.Attribute) and any(k.value is lam for k in call.keywords):
        return call.func.value
    if nm in ("takewhile", "dropwhile", "groupby") and len(call.args) >= 2:
        return call.args[1] if call.args[0] is lam else call.args[0]
    return None


def _clone(e, env: dict[str, ast.expr] | None = None):
    """Copy of an expression by its fields only (no parent pointers / analysis attributes), loads of names in `env` replaced."""
    if isinstance(e, list):
        return [_clone(x, env) for x in e]
    if not isinstance(e, ast.AST):
        return e
    if env and isinstance(e, ast.Name) and isinstance(e.ctx, ast.Load) and e.id in env:
        return _clone(env[e.id])
    new = type(e)()
    for fld in e._fields:
        if hasattr(e, fld):
            setattr(new, fld, _clone(getattr(e, fld), env))
    return new


def _substitute(e: ast.expr, env: dict[str, ast.expr]) -> ast.expr:
    return _clone(e, env)


# --------------------------------------------------------------------------- provenance (flow engine)


def name_flow(repo: Repo) -> Flow:
    key = ("name_flow", id(repo))
    if key in _cache:
        return _cache[key]
    T = types_of(repo)

    def recv_type(f: FuncInfo, e: ast.expr):
        t = T.expr(f, e)
        if all(m == ("unknown",) for m in members(t)) and isinstance(e, ast.Name) and isinstance(f.node, ast.Lambda) and e.id in f.param_names:
            it = _lambda_iterable(f)
            if it is not None:
                t = elem_type(T.expr(f.outer, it))
        return t

    def is_filter_type(f: FuncInfo, e: ast.expr) -> str:
        t = recv_type(f, e)
        kinds = set()
        for m in members(t):
            if m[0] == "cls":
                n = m[1].rsplit(".", 1)[-1]
                if n == REGEX_FILTER:
                    kinds.add("regex")
                elif n in FILTER_CLASSES:
                    kinds.add("name")
                else:
                    kinds.add("other")
            elif m[0] == "unknown":
                kinds.add("unknown")
        if kinds == {"regex"}:
            return "regex"
        if "name" in kinds or kinds == {"unknown"} or not kinds:
            return "name"
        return "other"

    def sources(f: FuncInfo, e: ast.expr):
        out: set[str] = set()
        if isinstance(e, ast.Attribute) and isinstance(e.ctx, ast.Load):
            if e.attr in ("identifier", "parent_module"):
                k = is_filter_type(f, e.value)
                if k == "name":
                    out.add("NAME")
                elif k == "regex":
                    out.add("REGEX")
            elif e.attr in ("nodes", "modules") and not (isinstance(parent(e), ast.Call) and parent(e).func is e):
                out.add("NAME")
            elif e.attr == "name" and f.module.name.endswith("file_import.converter") and isinstance(e.value, ast.Name):
                out.add("NAME")
            elif e.attr == "module" and f.module.name.endswith("file_import.converter") and isinstance(e.value, ast.Name) and e.value.id == "module":
                out.add("NAME")
            else:
                c = _attr_constant(repo, T, f, e)
                if c is not None and c.endswith("."):
                    out.add("DOT")
        elif isinstance(e, ast.Call):
            fn = e.func
            if isinstance(fn, ast.Attribute) and fn.attr in NAME_METHODS and not e.args:
                out.add("NAME")
            elif (isinstance(fn, ast.Name) and fn.id in NAME_FUNCS) or (isinstance(fn, ast.Attribute) and fn.attr in NAME_FUNCS):
                out.add("NAME")
            elif isinstance(fn, ast.Attribute) and fn.attr == "replace" and len(e.args) == 2 and _const_str(e.args[1]) == "." and ((repo.resolve_name(f.module, e.args[0]) or "") in ("os.sep", "os.path.sep") if isinstance(e.args[0], (ast.Name, ast.Attribute)) else _const_str(e.args[0]) in ("/", "\\")):
                out.add("NAME")  # a path written in dot notation: a module name by construction
            elif isinstance(fn, ast.Attribute) and fn.attr in ("pop", "get") and e.args and _const_str(e.args[0]) == "aliases":
                out.add("NAME")  # the public `aliases` option of draw(): a mapping keyed by module names
        elif isinstance(e, ast.Subscript) and isinstance(e.ctx, ast.Load) and _const_str(e.slice) == "aliases":
            out.add("NAME")
        elif isinstance(e, ast.Constant):
            if isinstance(e.value, str) and e.value.endswith("."):
                out.add("DOT")
        elif isinstance(e, ast.JoinedStr):
            if e.values and isinstance(e.values[-1], ast.Constant) and str(e.values[-1].value).endswith("."):
                out.add("DOT")
        elif isinstance(e, ast.Name) and isinstance(e.ctx, ast.Load):
            c = None
            if not isinstance(f.node, ast.Lambda) and e.id in f.param_names:
                p = next(p for p in f.params if p.arg == e.id)
                c = T._default_of(f, p)
            elif not _is_local(f, e.id) and (f.outer is None or not _is_local(f.outer, e.id)):
                c = _module_constant(repo, f, e.id)
            s = _const_str(c)
            if s is not None and s.endswith("."):
                out.add("DOT")
        return out or None

    seeds: dict[tuple[str, str], set[str]] = {}
    for f in repo.all_functions():
        for p in f.params:
            if p.annotation is not None:
                names = {n.id for n in ast.walk(p.annotation) if isinstance(n, ast.Name)} | {n.attr for n in ast.walk(p.annotation) if isinstance(n, ast.Attribute)}
                if names & NAME_ANNOTATIONS:
                    seeds[(f.fq, p.arg)] = {"NAME"}
            if p.arg == "aliases" and f.module.name.endswith("networkxgraph"):
                seeds[(f.fq, p.arg)] = {"NAME"}
            if p.arg in ("all_modules", "internal_modules", "all_internal_modules", "modules") and f.module.name.startswith("pytestarch.eval_structure_generation"):
                seeds[(f.fq, p.arg)] = {"NAME"}

    def transfer(f: FuncInfo, call: ast.Call, names, args, recv, kwargs):
        fn = call.func
        if isinstance(fn, ast.Name) and fn.id in ("len", "isinstance", "hasattr", "bool", "range", "int"):
            return set()
        if isinstance(fn, (ast.Name, ast.Attribute)) and (repo.resolve_name(f.module, fn) or "") == "re.escape":
            out = set()
            for a in args:
                out |= set(a)
            return {("ESC:" + t) if not t.startswith("ESC:") else t for t in out if t != "DOT"}
        if isinstance(fn, ast.Attribute) and not names:
            a = fn.attr
            dot_arg = bool(call.args) and _const_str(call.args[0]) is not None and "." in _const_str(call.args[0])
            if a in ("split", "rsplit"):
                out = set(recv) - {"DOT"}
                if dot_arg and len(call.args) == 1 and not call.keywords:
                    out |= {"PARTS"}
                return out
            if a in ("partition", "rpartition"):
                return set(recv) - {"DOT"}
            if a == "join":
                out = set()
                for x in args:
                    out |= set(x)
                return out - {"PARTS", "COMP"}
            if a in ("rstrip", "strip", "removesuffix") and dot_arg:
                return set(recv) - {"DOT"}
            if a in ("rstrip", "strip", "lstrip", "lower", "upper", "casefold", "removeprefix", "removesuffix", "replace", "title", "capitalize"):
                return set(recv)
            if a in ("startswith", "endswith", "count", "find", "rfind", "index", "rindex", "isidentifier", "isalnum", "isalpha", "isdigit", "islower", "isupper"):
                return set()
        return None

    def build() -> Flow:
        return Flow(
            repo,
            T,
            Spec(sources=sources, transfer=transfer, param_seeds=seeds, objects_carry=False, iter_map={"PARTS": "COMP"}, collect_map={"COMP": "PARTS"}),
        )

    fl = build()
    # callable objects: `matcher(name)`, `filter(matcher, names)`, `map(matcher, names)` where the static type of `matcher` is a repo
    # class with __call__ - the flow engine does not route such arguments, so the parameters of __call__ are seeded with what the
    # call sites pass (one more round of the flow analysis; only when the tree has such classes)
    callables = {c.fq: c.methods["__call__"] for c in repo.classes.values() if "__call__" in c.methods and not isinstance(c.methods["__call__"].node, ast.Lambda)}
    for _ in range(2 if callables else 0):
        extra: dict[tuple[str, str], set[str]] = {}

        def feed(obj_f: FuncInfo, obj: ast.expr, arg_tags: list[set[str]]) -> None:
            for m in members(T.expr(obj_f, obj)):
                if m[0] == "cls" and m[1] in callables:
                    g = callables[m[1]]
                    ps = [x for x in _positional(g) if x != "self"]
                    for name_, tags in zip(ps, arg_tags):
                        add = {t for t in tags if t in ("NAME", "REGEX")}
                        if add - seeds.get((g.fq, name_), set()):
                            extra.setdefault((g.fq, name_), set()).update(add)

        for f in repo.all_functions():
            for c in calls_in(f.node):
                try:
                    if isinstance(c.func, ast.Name) and c.func.id in ("filter", "map") and len(c.args) == 2 and not _is_local(f, c.func.id):
                        feed(f, c.args[0], [set(fl.tags(c.args[1]))])
                    elif isinstance(c.func, (ast.Name, ast.Attribute, ast.Call, ast.Subscript)) and not any(isinstance(a, ast.Starred) for a in c.args):
                        if isinstance(c.func, (ast.Name, ast.Attribute)) and (repo.resolve_name(f.module, c.func) or "") in repo.classes:
                            continue  # a constructor call
                        feed(f, c.func, [set(fl.tags(a)) for a in c.args])
                except Exception:  # noqa: BLE001 - an untypable callee feeds nothing
                    continue
        if not extra:
            break
        for k_, v_ in extra.items():
            seeds[k_] = seeds.get(k_, set()) | v_
        fl = build()
    _cache[key] = fl
    return fl


def _is_str(T: Types, f: FuncInfo, e: ast.expr) -> bool | None:
    t = T.expr(f, e)
    ms = members(t)
    if any(m == STR for m in ms) and all(m == STR or m == ("unknown",) or m == ("b", "none", ()) for m in ms):
        return True
    if all(m == ("unknown",) for m in ms):
        # unknown static type: a name that is interpolated into an f-string or compared with `.identifier` is a string
        if isinstance(e, ast.Name) and not isinstance(f.node, ast.Lambda):
            for n in own_nodes(f.node):
                if isinstance(n, ast.FormattedValue) and isinstance(n.value, ast.Name) and n.value.id == e.id:
                    return True
                if isinstance(n, ast.Compare) and len(n.ops) == 1 and isinstance(n.ops[0], (ast.Eq, ast.NotEq)):
                    sides = [n.left, n.comparators[0]]
                    if any(isinstance(x, ast.Name) and x.id == e.id for x in sides) and any(isinstance(x, ast.Attribute) and x.attr in ("identifier", "name") for x in sides):
                        return True
                if isinstance(n, ast.Call) and isinstance(n.func, ast.Attribute) and n.func.attr in ("startswith", "endswith", "split", "rsplit", "rfind", "rpartition", "partition") and isinstance(n.func.value, ast.Name) and n.func.value.id == e.id:
                    return True
        return None
    return False


def _boundary_companion(f: FuncInfo, call: ast.AST, hay: ast.expr, needle: ast.expr) -> bool:
    """An adjacent conjunct checks the character after the prefix: x[len(p)] == "." / x[len(p):len(p)+1] in ("", ".")."""
    p = parent(call)
    while isinstance(p, ast.UnaryOp):
        p = parent(p)
    if not (isinstance(p, ast.BoolOp) and isinstance(p.op, ast.And)):
        return False
    h, n = norm(hay), norm(needle)
    for v in p.values:
        for c in ast.walk(v):
            if isinstance(c, ast.Compare) and len(c.ops) == 1 and isinstance(c.left, ast.Subscript) and norm(c.left.value) == h and f"len({n})" in norm(c.left.slice):
                r = c.comparators[0]
                if isinstance(c.ops[0], ast.Eq) and _const_str(r) == "." and not isinstance(c.left.slice, ast.Slice):
                    return True  # x[len(p)] == "."  (raises / is false when nothing follows: combined with `x == p or ...` by the author)
                if isinstance(c.ops[0], ast.In) and isinstance(r, (ast.Tuple, ast.List, ast.Set)) and sorted(str(_const_str(x)) for x in r.elts) == ["", "."]:
                    return True
    return False


# --------------------------------------------------------------------------- call sites


def _call_index(repo: Repo) -> dict[str, list[tuple[FuncInfo, ast.Call]]]:
    T = types_of(repo)
    key = ("callsites", id(repo))
    if key not in _cache:
        idx: dict[str, list[tuple[FuncInfo, ast.Call]]] = {}
        for g in repo.all_functions():
            for c in calls_in(g.node):
                try:
                    cs, _how = T.callees(g, c, byname_fallback=False)
                except Exception:  # noqa: BLE001
                    cs = []
                for callee in cs:
                    idx.setdefault(callee.fq, []).append((g, c))
                # functools.partial(f, ...) / map(f, xs): the function object is handed on, the call happens elsewhere
            for n in own_nodes(g.node):
                if isinstance(n, ast.Call) and _call_name(n) in ("partial", "map", "filter"):
                    for a in n.args[:1]:
                        t = T.expr(g, a)
                        for m in members(t):
                            if m[0] == "fn":
                                idx.setdefault(m[1].fq, []).append((g, n))
        _cache[key] = idx
    return _cache[key]


def _positional(f: FuncInfo) -> list[str]:
    pos = list(f.param_names)
    if f.cls is not None and f.outer is None and not f.is_staticmethod and pos:
        pos = pos[1:]
    return pos


def _callers_args(repo: Repo, f: FuncInfo, param: str) -> list[tuple[FuncInfo, ast.expr]] | None:
    """Argument expressions bound to `param` at every resolved call site of `f` (None if there is none or a site cannot be matched).

    A `map(f, xs)` site yields the pseudo expression `next(iter(xs))`-like marker: (g, ast.Starred(xs)) meaning "an element of xs"."""
    sites = _call_index(repo).get(f.fq, [])
    if not sites:
        return None
    pos = _positional(f)
    out = []
    for g, c in sites:
        expr = None
        nm = _call_name(c)
        direct = True
        if nm in ("map", "filter") and c.args and not (isinstance(c.func, ast.Attribute) and c.func.attr not in ("map", "filter")):
            t = types_of(repo).expr(g, c.args[0])
            if any(m[0] == "fn" and m[1].fq == f.fq for m in members(t)):
                direct = False
                i = pos.index(param) if param in pos else -1
                if 0 <= i < len(c.args) - 1:
                    expr = ast.Starred(value=c.args[1 + i], ctx=ast.Load())
        elif nm == "partial" and c.args:
            t = types_of(repo).expr(g, c.args[0])
            if any(m[0] == "fn" and m[1].fq == f.fq for m in members(t)):
                direct = False
                for k in c.keywords:
                    if k.arg == param:
                        expr = k.value
                if expr is None:
                    i = pos.index(param) if param in pos else -1
                    if 0 <= i < len(c.args) - 1:
                        expr = c.args[1 + i]
                if expr is None:
                    continue  # bound later, at the call of the partial object: not visible here
        if direct:
            for k in c.keywords:
                if k.arg == param:
                    expr = k.value
            if expr is None and param in pos:
                i = pos.index(param)
                if i < len(c.args) and not any(isinstance(a, ast.Starred) for a in c.args[: i + 1]):
                    expr = c.args[i]
        if expr is None and direct:
            prm = next((p_ for p_ in f.params if p_.arg == param), None)
            default = Types._default_of(f, prm) if prm is not None and not isinstance(f.node, ast.Lambda) else None
            if default is not None:
                out.append((f, default))
                continue
        if expr is None:
            return None
        out.append((g, expr))
    return out or None


# --------------------------------------------------------------------------- origins of a value (must analysis)

Leaf = tuple  # (FuncInfo, ast.expr, "value" | "elem")


class Origins:
    """Expressions a value originates from. A leaf is (function, expression, kind): kind 'value' = the value of the expression,
    'elem' = an element of the collection denoted by the expression (which could not be opened further)."""

    MAX = 10

    def __init__(self, repo: Repo) -> None:
        self.repo = repo
        self.T = types_of(repo)
        self._bind_stmt: dict[tuple, ast.AST] = {}
        self._aug_cache: dict[int, ast.BinOp] = {}
        self._had_killer = False
        self._keep_identifiers = False  # set by _user_regex: `<filter>.identifier` is a leaf, its class decides what it is

    # -- bindings of a local name: list of ("value", expr) | ("elem", iterable, pos) | ("opaque", node)
    def _bindings(self, f: FuncInfo, name: str, use: ast.AST | None = None) -> list[tuple]:
        """Bindings of `name` that can reach `use` (all of them without `use`): comprehension and loop scoping as in
        `_bindings_all`, and a binding is dead where a later assignment of the same variable lies on every path to the use
        (`p = name` ... `p = p + "."` ... use: only the second one)."""
        out = self._bindings_all(f, name, use)
        self._had_killer = False  # (read by _name right after the call: a dominating assignment also replaces a parameter's value)
        if use is None or not out or isinstance(f.node, ast.Lambda):
            return out
        try:
            use_line = getattr(use, "lineno", None)
            if use_line is None:
                return out
            stmts = [self._bind_stmt.get((id(f.node), name, id(b[1]), b[2])) for b in out]
            if any(st_ is None or not hasattr(st_, "lineno") for st_ in stmts):
                return out
            chain = [use, *ancestors(use)]
            killer = None
            for b, st_ in zip(out, stmts):
                if b[0] != "value" or b[2] or not isinstance(st_, (ast.Assign, ast.AugAssign, ast.AnnAssign)):
                    continue
                if getattr(st_, "end_lineno", st_.lineno) >= use_line:
                    continue
                blk_owner = parent(st_)
                # the assignment dominates the use if a later statement of the very block it sits in contains the use
                dominating = False
                for fld in ("body", "orelse", "finalbody"):
                    blk = getattr(blk_owner, fld, None)
                    if isinstance(blk, list) and any(x is st_ for x in blk):
                        idx = next(k for k, x in enumerate(blk) if x is st_)
                        dominating = any(any(x is c for c in chain) for x in blk[idx + 1 :])
                if dominating and (killer is None or st_.lineno > killer.lineno):
                    killer = st_
            if killer is None:
                return out
            self._had_killer = True
            return [b for b, st_ in zip(out, stmts) if st_ is killer or st_.lineno > killer.lineno]
        except Exception:  # noqa: BLE001
            return out

    def _bindings_all(self, f: FuncInfo, name: str, use: ast.AST | None = None) -> list[tuple]:
        """Bindings of `name` visible at `use`: a comprehension variable is local to its comprehension (and shadows a function
        level variable of the same name there); without `use` every binding in the function is returned."""
        out: list[tuple] = []
        if isinstance(f.node, ast.Lambda):
            return out
        scope: ast.AST | None = None  # the comprehension whose variable `name` is at `use`
        have_use = False
        if use is not None:
            try:
                for a in ancestors(use):
                    have_use = True
                    if a is f.node:
                        break
                    if isinstance(a, (ast.ListComp, ast.SetComp, ast.GeneratorExp, ast.DictComp)) and any(isinstance(x, ast.Name) and x.id == name for g in a.generators for x in ast.walk(g.target)):
                        scope = a
                        break
            except Exception:  # noqa: BLE001
                have_use = False
        comp_of: dict[int, ast.AST] = {}
        if have_use:
            for n in own_nodes(f.node):
                if isinstance(n, (ast.ListComp, ast.SetComp, ast.GeneratorExp, ast.DictComp)):
                    for g in n.generators:
                        comp_of[id(g)] = n

        current: list[ast.AST] = [f.node]

        def bind_target(tgt: ast.expr, kind: str, src: ast.expr, pos: tuple) -> None:
            if isinstance(tgt, ast.Name):
                if tgt.id == name:
                    out.append((kind, src, pos))
                    self._bind_stmt[(id(f.node), name, id(src), pos)] = current[0]
            elif isinstance(tgt, (ast.Tuple, ast.List)):
                for i, el in enumerate(tgt.elts):
                    if isinstance(el, ast.Starred):
                        if any(isinstance(x, ast.Name) and x.id == name for x in ast.walk(el)):
                            out.append(("opaque", src, ()))
                    else:
                        bind_target(el, kind, src, pos + (i,))

        for n in own_nodes(f.node):
            current[0] = n
            if isinstance(n, ast.Assign):
                for t in n.targets:
                    bind_target(t, "value", n.value, ())
            elif isinstance(n, ast.AnnAssign) and n.value is not None:
                bind_target(n.target, "value", n.value, ())
            elif isinstance(n, ast.AugAssign):
                if isinstance(n.target, ast.Name) and n.target.id == name:
                    synthetic = self._aug_cache.setdefault(id(n), ast.BinOp(left=ast.Name(id="<prev>", ctx=ast.Load()), op=n.op, right=n.value))
                    out.append(("value", synthetic, ()))
                    self._bind_stmt[(id(f.node), name, id(synthetic), ())] = n
            elif isinstance(n, (ast.For, ast.AsyncFor)):
                bind_target(n.target, "elem", n.iter, ())
            elif isinstance(n, ast.comprehension):
                if have_use and comp_of.get(id(n)) is not scope:
                    continue  # variable of another comprehension
                bind_target(n.target, "elem", n.iter, ())
            elif isinstance(n, ast.NamedExpr):
                bind_target(n.target, "value", n.value, ())
            elif isinstance(n, (ast.With, ast.AsyncWith)):
                for it in n.items:
                    if it.optional_vars is not None and any(isinstance(x, ast.Name) and x.id == name for x in ast.walk(it.optional_vars)):
                        out.append(("opaque", it.context_expr, ()))
            elif isinstance(n, ast.ExceptHandler) and n.name == name:
                out.append(("opaque", n, ()))
        if scope is not None:
            gens = {id(g) for g in scope.generators}
            inner = [b for b in out if b[0] == "elem" and any(isinstance(g, ast.comprehension) and id(g) in gens and g.iter is b[1] for g in scope.generators)]
            return inner or out
        if have_use and len(out) > 1:
            # inside the body of the loop that binds the variable, the variable holds an element of *that* loop
            # (two loops that reuse one variable name are two variables)
            loop = None
            prev = use
            for a in ancestors(use):
                if a is f.node:
                    break
                if isinstance(a, (ast.For, ast.AsyncFor)) and any(isinstance(x, ast.Name) and x.id == name for x in ast.walk(a.target)) and any(prev is st_ for st_ in a.body):
                    loop = a
                    break
                prev = a
            if loop is not None:
                body_nodes = {id(x) for st_ in loop.body for x in ast.walk(st_)}
                rebound = [x for st_ in loop.body for x in ast.walk(st_) if isinstance(x, ast.Name) and x.id == name and isinstance(x.ctx, ast.Store)]
                if not rebound:
                    own = [b for b in out if b[0] == "elem" and b[1] is loop.iter]
                    if own:
                        return own
        return out

    def value(self, f: FuncInfo, e: ast.expr, depth: int = 0, seen: frozenset = frozenset(), pos: tuple = ()) -> list[Leaf]:
        """Leaves of the value of `e` (position `pos` of it, if it is a tuple)."""
        key = (f.fq, id(e), "v", pos)
        if key in seen:
            return []  # a cyclic definition (x = f(x)) contributes no further origin
        if depth > self.MAX:
            return [(f, e, "value")] if not pos else [(f, e, "opaque")]
        seen = seen | {key}
        d = depth + 1
        if pos:
            if isinstance(e, (ast.Tuple, ast.List)) and not any(isinstance(x, ast.Starred) for x in e.elts) and pos[0] < len(e.elts):
                return self.value(f, e.elts[pos[0]], d, seen, pos[1:])
            if not isinstance(e, (ast.Name, ast.Call, ast.IfExp, ast.Attribute, ast.Subscript)):
                return [(f, e, "opaque")]
        if isinstance(e, ast.Starred):  # marker of _callers_args: an element of the collection
            return self.elements(f, e.value, d, seen, pos)
        if isinstance(e, ast.IfExp):
            # `p if p.endswith(".") else p + "."`: in the branch selected by the test the tested string ends with the separator
            t, neg = (e.test.operand, True) if isinstance(e.test, ast.UnaryOp) and isinstance(e.test.op, ast.Not) else (e.test, False)
            if not pos and isinstance(t, ast.Call) and isinstance(t.func, ast.Attribute) and t.func.attr == "endswith" and t.args and _const_str(t.args[0]) == ".":
                hit, miss = (e.orelse, e.body) if neg else (e.body, e.orelse)
                if norm(hit) == norm(t.func.value):
                    return [(f, ast.Constant(value="."), "value")] + self.value(f, miss, d, seen, pos)
            return self.value(f, e.body, d, seen, pos) + self.value(f, e.orelse, d, seen, pos)
        if isinstance(e, ast.BoolOp) and isinstance(e.op, ast.Or) and not pos:
            out = []
            for v in e.values:
                out += self.value(f, v, d, seen)
            return out
        if isinstance(e, ast.NamedExpr):
            return self.value(f, e.value, d, seen, pos)
        if isinstance(e, ast.Name):
            return self._name(f, e, d, seen, pos)
        if isinstance(e, ast.Attribute):
            if isinstance(e.value, ast.Name) and e.value.id in ("self", "cls") and f.cls is not None:
                vals = self._field_assignments(f, e.attr)
                if vals:
                    out = []
                    for m, v in vals:
                        out += self.value(m, v, d, seen, pos)
                    return out
            # (asked where a pattern comes from, the identifier of a filter object is the answer - not what was once passed
            #  to the constructors of its class)
            got = None if (self._keep_identifiers and e.attr == "identifier") else self._attribute(f, e, d, seen, pos)
            if got is not None:
                return got
            c = _attr_constant(self.repo, self.T, f, e)
            if c is not None and not pos:
                return [(f, ast.Constant(value=c), "value")]
            return [(f, e, "value" if not pos else "opaque")]
        if isinstance(e, ast.Call):
            nm = _call_name(e)
            if isinstance(e.func, ast.Name) and nm == "str" and len(e.args) == 1:
                return self.value(f, e.args[0], d, seen, pos)
            if isinstance(e.func, ast.Name) and nm == "next" and e.args:
                out = self.elements(f, e.args[0], d, seen, pos)
                if len(e.args) > 1:
                    out = out + self.value(f, e.args[1], d, seen, pos)
                return out
            if isinstance(e.func, ast.Name) and nm in ("min", "max") and len(e.args) == 1:
                return self.elements(f, e.args[0], d, seen, pos)
            if isinstance(e.func, ast.Attribute) and nm in ("pop", "popleft") and not e.keywords and len(e.args) <= 1 and not self._is_dict(f, e.func.value):
                return self.elements(f, e.func.value, d, seen, pos)
            cs = self._callees(f, e)
            if cs:
                out = []
                for g in cs:
                    rets = self._returns(g)
                    if not rets:
                        return [(f, e, "value" if not pos else "opaque")]
                    for r in rets:
                        out += self.value(g, r, d, seen, pos)
                return out
            return [(f, e, "value" if not pos else "opaque")]
        if isinstance(e, ast.Subscript) and not isinstance(e.slice, ast.Slice):
            vals = self.dict_values(f, e.value, d, seen, pos)
            if vals is not None:
                return vals
            if self._is_dict(f, e.value):
                return [(f, e, "value" if not pos else "opaque")]
            if isinstance(e.slice, ast.Constant) and isinstance(e.slice.value, int) and isinstance(e.value, (ast.Tuple, ast.List)):
                return self.value(f, e.value, d, seen, (e.slice.value,) + pos) if e.slice.value >= 0 else [(f, e, "value")]
            # element of a sequence (by position): one of its elements; a constant index into a tuple-valued thing selects a position
            if isinstance(e.slice, ast.Constant) and isinstance(e.slice.value, int) and e.slice.value >= 0 and self._is_tuple(f, e.value):
                return self.value(f, e.value, d, seen, (e.slice.value,) + pos)
            return self.elements(f, e.value, d, seen, pos)
        return [(f, e, "value" if not pos else "opaque")]

    def _attribute(self, f: FuncInfo, e: ast.Attribute, d: int, seen: frozenset, pos: tuple) -> list[Leaf] | None:
        """`obj.attr` for a receiver of a repo class: the returns of a property, or what the constructor calls pass for a field."""
        t = self.T.expr(f, e.value)
        if isinstance(e.value, ast.Name) and e.value.id in ("self", "cls") and f.cls is not None:
            t = ("cls", f.cls.fq)
        cls_ = [self.repo.classes.get(m[1]) for m in members(t) if m[0] == "cls"]
        if not cls_ or any(c is None for c in cls_) or len(cls_) != len(members(t)):
            return None
        out: list[Leaf] = []
        for ci in cls_:
            meth = self.repo.lookup_method(ci, e.attr)
            if meth is not None and meth.is_property:
                for impl in self.repo.implementations(ci, e.attr):
                    rets = self._returns(impl)
                    if not rets:
                        return None
                    for r in rets:
                        out += self.value(impl, r, d, seen, pos)
                continue
            if meth is not None:
                return None
            # a field: assignments in the class, else the arguments of constructor calls (dataclass / NamedTuple style)
            probe = next(iter(ci.methods.values()), None)
            vals = self._field_assignments(probe, e.attr) if probe is not None and probe.cls is ci else []
            if vals:
                for m, v in vals:
                    out += self.value(m, v, d, seen, pos)
                continue
            fields = [a for c in reversed(self.repo.mro(ci)) for a in c.ann_attrs]
            if e.attr not in fields or self.repo.lookup_method(ci, "__init__") is not None:
                return None
            found = False
            for g in self.repo.all_functions():
                for c in calls_in(g.node):
                    if _call_name(c) != ci.name:
                        continue
                    k = self.T.ctor_class(g, c)
                    if k is None or k.fq != ci.fq:
                        continue
                    arg = next((kw.value for kw in c.keywords if kw.arg == e.attr), None)
                    if arg is None and fields.index(e.attr) < len(c.args):
                        arg = c.args[fields.index(e.attr)]
                    if arg is None:
                        default = next((c2.class_attrs.get(e.attr) for c2 in self.repo.mro(ci) if e.attr in c2.class_attrs), None)
                        if default is None:
                            return None
                        out.append((g, default, "value"))
                    else:
                        out += self.value(g, arg, d, seen, pos)
                    found = True
            if not found:
                return None
        return out or None

    def dict_values(self, f: FuncInfo, dct: ast.expr, d: int, seen: frozenset, pos: tuple) -> list[Leaf] | None:
        """Leaves of the values of a dict built locally (comprehension, literal, item assignments); None if it is not one."""
        if isinstance(dct, ast.Attribute) and isinstance(dct.value, ast.Name) and dct.value.id in ("self", "cls") and f.cls is not None:
            vals = self._field_assignments(f, dct.attr)
            if not vals:
                return None
            out: list[Leaf] = []
            for m, src in vals:
                if isinstance(src, ast.DictComp):
                    out += self.value(m, src.value, d, seen, pos)
                elif isinstance(src, ast.Dict) and all(k is not None for k in src.keys):
                    for v in src.values:
                        out += self.value(m, v, d, seen, pos)
                elif isinstance(src, ast.Name):
                    sub = self.dict_values(m, src, d, seen, pos)
                    if sub is None:
                        return None
                    out += sub
                elif not (isinstance(src, (ast.Dict,)) or (isinstance(src, ast.Call) and _call_name(src) in ("dict", "defaultdict") and not src.args)):
                    return None
            text = norm(dct)
            for ci in [*self.repo.mro(f.cls), *self.repo.subclasses(f.cls)]:
                for m in [*ci.methods.values(), *ci.extra_methods]:
                    for n in own_nodes(m.node):
                        if isinstance(n, ast.Assign):
                            for t in n.targets:
                                if isinstance(t, ast.Subscript) and norm(t.value) == text:
                                    out += self.value(m, n.value, d, seen, pos)
                        if isinstance(n, ast.Call) and isinstance(n.func, ast.Attribute) and norm(n.func.value) == text:
                            if n.func.attr == "setdefault" and len(n.args) == 2:
                                out += self.value(m, n.args[1], d, seen, pos)
                            elif n.func.attr == "update":
                                return None
            return out or None
        if not isinstance(dct, ast.Name) or isinstance(f.node, ast.Lambda):
            return None
        binds = self._bindings(f, dct.id)
        if dct.id in f.param_names or not binds:
            if not binds and f.outer is not None and dct.id not in f.param_names:
                return self.dict_values(f.outer, dct, d, seen, pos)
            if not binds and dct.id in f.param_names and d < self.MAX:
                args = _callers_args(self.repo, f, dct.id)
                if args:
                    out0: list[Leaf] = []
                    for g, a in args:
                        sub = None if isinstance(a, ast.Starred) else self.dict_values(g, a, d + 1, seen, pos)
                        if sub is None:
                            return None
                        out0 += sub
                    return out0 or None
            return None
        out: list[Leaf] = []
        for kind, src, p in binds:
            if kind != "value" or p:
                return None
            if isinstance(src, ast.DictComp):
                out += self.value(f, src.value, d, seen, pos)
            elif isinstance(src, ast.Dict):
                if any(k is None for k in src.keys):
                    return None
                for v in src.values:
                    out += self.value(f, v, d, seen, pos)
            elif isinstance(src, ast.Call) and _call_name(src) in ("dict", "defaultdict", "OrderedDict") and not src.args and not src.keywords:
                pass
            else:
                return None
        for n in own_nodes(f.node):
            if isinstance(n, ast.Assign):
                for t in n.targets:
                    if isinstance(t, ast.Subscript) and isinstance(t.value, ast.Name) and t.value.id == dct.id:
                        out += self.value(f, n.value, d, seen, pos)
            if isinstance(n, ast.Call) and isinstance(n.func, ast.Attribute) and isinstance(n.func.value, ast.Name) and n.func.value.id == dct.id:
                if n.func.attr == "setdefault" and len(n.args) == 2:
                    out += self.value(f, n.args[1], d, seen, pos)
                elif n.func.attr == "update":
                    return None
        return out or None

    def _is_dict(self, f: FuncInfo, e: ast.expr) -> bool:
        t = self.T.expr(f, e)
        return any(m[0] == "b" and m[1] == "dict" for m in members(t))

    def _is_tuple(self, f: FuncInfo, e: ast.expr) -> bool:
        t = self.T.expr(f, e)
        ms = members(t)
        return bool(ms) and all(m[0] == "b" and m[1] == "tuple" for m in ms)

    def _callees(self, f: FuncInfo, call: ast.Call) -> list[FuncInfo]:
        try:
            cs, how = self.T.callees(f, call, byname_fallback=False)
        except Exception:  # noqa: BLE001
            return []
        if how not in ("repo",):
            return []
        return [c for c in cs if not c.is_abstract]

    @staticmethod
    def _returns(g: FuncInfo) -> list[ast.expr]:
        if isinstance(g.node, ast.Lambda):
            return [g.node.body]
        if any(isinstance(n, (ast.Yield, ast.YieldFrom)) for n in own_nodes(g.node)):
            return []
        return [r.value for r in own_nodes(g.node) if isinstance(r, ast.Return) and r.value is not None]

    def _field_assignments(self, f: FuncInfo, attr: str) -> list[tuple[FuncInfo, ast.expr]]:
        out = []
        classes = [*self.repo.mro(f.cls), *self.repo.subclasses(f.cls)] if f.cls is not None else []
        seen = set()
        for ci in classes:
            if ci.fq in seen:
                continue
            seen.add(ci.fq)
            for m in [*ci.methods.values(), *ci.extra_methods]:
                for n in own_nodes(m.node):
                    if isinstance(n, (ast.Assign, ast.AnnAssign)) and getattr(n, "value", None) is not None:
                        for t in n.targets if isinstance(n, ast.Assign) else [n.target]:
                            if isinstance(t, ast.Attribute) and isinstance(t.value, ast.Name) and t.value.id in ("self", "cls") and t.attr == attr:
                                out.append((m, n.value))
            if attr in ci.class_attrs:
                out.append((next(iter(ci.methods.values()), f), ci.class_attrs[attr]))
        return out

    def _name(self, f: FuncInfo, e: ast.Name, d: int, seen: frozenset, pos: tuple) -> list[Leaf]:
        name = e.id
        opaque = [(f, e, "value" if not pos else "opaque")]
        if isinstance(f.node, ast.Lambda):
            if name in f.param_names:
                it = _lambda_iterable(f)
                if it is not None and f.outer is not None and len(f.param_names) == 1:
                    return self.elements(f.outer, it, d, seen, pos)
                return opaque
            return self._name(f.outer, e, d, seen, pos) if f.outer is not None else opaque
        binds = self._bindings(f, name, e)
        if name in f.param_names:
            if binds and not self._had_killer:
                return opaque  # re-bound parameter (on some path): the flow-insensitive view is not sound enough here
            if not binds:
                if not pos and _declared_node_name(f, name):
                    return [(f, e, "value")]  # Node / AbstractNode / ModuleName: a plain module name by its declared type
                args = _callers_args(self.repo, f, name)
                if not args:
                    return opaque
                out = []
                for g, a in args:
                    out += self.value(g, a, d, seen, pos)
                return out
            # (else: an assignment that lies on every path to the use has replaced the parameter's value)
        if not binds:
            if f.outer is not None:
                return self._name(f.outer, e, d, seen, pos)
            c = _module_constant(self.repo, f, name)
            if c is not None:
                return [(f, c, "value")]
            return opaque
        out = []
        for kind, src, p in binds:
            if kind == "value":
                if isinstance(src, ast.BinOp) and isinstance(src.left, ast.Name) and src.left.id == "<prev>":
                    out.append((f, src, "value"))
                else:
                    out += self.value(f, src, d, seen, p + pos)
            elif kind == "elem":
                out += self.elements(f, src, d, seen, p + pos)
            else:
                out.append((f, src if isinstance(src, ast.expr) else e, "opaque"))
        return out

    def elements(self, f: FuncInfo, c: ast.expr, depth: int = 0, seen: frozenset = frozenset(), pos: tuple = ()) -> list[Leaf]:
        """Leaves of the elements of the collection `c` (position `pos` of each element, if elements are tuples)."""
        key = (f.fq, id(c), "e", pos)
        if key in seen:
            return []  # xs = [x for x in xs if ..]: no further origin
        if depth > self.MAX:
            return [(f, c, "elem" if not pos else "opaque")]
        seen = seen | {key}
        d = depth + 1
        stop = [(f, c, "elem" if not pos else "opaque")]
        if isinstance(c, ast.Starred):
            return self.elements(f, c.value, d, seen, pos)
        if isinstance(c, (ast.List, ast.Tuple, ast.Set)):
            out = []
            for el in c.elts:
                out += self.elements(f, el.value, d, seen, pos) if isinstance(el, ast.Starred) else self.value(f, el, d, seen, pos)
            return out
        if isinstance(c, ast.Dict):
            out = []
            for k in c.keys:
                if k is None:
                    return stop
                out += self.value(f, k, d, seen, pos)
            return out
        if isinstance(c, (ast.ListComp, ast.SetComp, ast.GeneratorExp)):
            return self.value(f, c.elt, d, seen, pos)
        if isinstance(c, ast.DictComp):
            return self.value(f, c.key, d, seen, pos)
        if isinstance(c, ast.BinOp) and isinstance(c.op, (ast.Add, ast.BitOr)):
            return self.elements(f, c.left, d, seen, pos) + self.elements(f, c.right, d, seen, pos)
        if isinstance(c, ast.IfExp):
            return self.elements(f, c.body, d, seen, pos) + self.elements(f, c.orelse, d, seen, pos)
        if isinstance(c, ast.BoolOp) and isinstance(c.op, ast.Or):
            out = []
            for v in c.values:
                out += self.elements(f, v, d, seen, pos)
            return out
        if isinstance(c, ast.Subscript):
            if isinstance(c.slice, ast.Slice):
                return self.elements(f, c.value, d, seen, pos)
            return stop
        if isinstance(c, ast.Call):
            nm = _call_name(c)
            if isinstance(c.func, ast.Name):
                if nm in ("set", "list", "tuple", "dict", "frozenset", "deque") and not c.args and not c.keywords:
                    return []  # empty
                if nm in WRAPPERS and c.args:
                    return self.elements(f, c.args[0], d, seen, pos)
                if nm == "enumerate" and c.args:
                    if pos and pos[0] == 1:
                        return self.elements(f, c.args[0], d, seen, pos[1:])
                    return [(f, c, "opaque")]
                if nm in ("zip", "product", "zip_longest") and c.args and not (nm == "product" and any(k.arg == "repeat" for k in c.keywords)):
                    # position i of every element comes from the i-th iterable (pairs of zip, the cartesian product alike)
                    if pos and pos[0] < len(c.args):
                        return self.elements(f, c.args[pos[0]], d, seen, pos[1:])
                    return [(f, c, "opaque")]
                if nm in ("combinations", "permutations", "pairwise", "combinations_with_replacement") and c.args:
                    if pos:  # every position holds an element of the one iterable
                        return self.elements(f, c.args[0], d, seen, pos[1:])
                    return [(f, c, "opaque")]
                if nm == "filter" and len(c.args) == 2:
                    return self.elements(f, c.args[1], d, seen, pos)
                if nm == "chain" and c.args:
                    out = []
                    for a in c.args:
                        out += self.elements(f, a, d, seen, pos)
                    return out
                if nm == "map" and len(c.args) == 2:
                    fn = c.args[0]
                    if isinstance(fn, ast.Attribute) and fn.attr == "format" and _const_str(fn.value) is not None and not pos:
                        # map("{}.".format, xs): every element is the constant format applied to an element of xs
                        return [(f, ast.Call(func=fn, args=[ast.Starred(value=c.args[1], ctx=ast.Load())], keywords=[]), "value")]
                    lf = getattr(fn, "_func", None) if isinstance(fn, ast.Lambda) else None
                    if lf is not None:
                        return self.value(lf, fn.body, d, seen, pos)
                    t = self.T.expr(f, fn)
                    fns = [m[1] for m in members(t) if m[0] == "fn"]
                    if fns and len(fns) == len(members(t)):
                        out = []
                        for g in fns:
                            rets = self._returns(g)
                            if not rets:
                                return stop
                            for r in rets:
                                out += self.value(g, r, d, seen, pos)
                        return out
                    return stop
            if isinstance(c.func, ast.Attribute):
                if nm == "keys" and not c.args:
                    return self.elements(f, c.func.value, d, seen, pos)
                if nm == "items" and not c.args:
                    if pos and pos[0] == 0:
                        return self.elements(f, c.func.value, d, seen, pos[1:])
                    if pos and pos[0] == 1:
                        vals = self.dict_values(f, c.func.value, d, seen, pos[1:])
                        if vals is not None:
                            return vals
                    return [(f, c, "opaque")]
                if nm in ("values",) and not c.args:
                    vals = self.dict_values(f, c.func.value, d, seen, pos)
                    return vals if vals is not None else [(f, c, "opaque")]
                if nm in ("copy", "union", "difference", "intersection") and isinstance(c.func.value, (ast.Name, ast.Attribute)):
                    out = self.elements(f, c.func.value, d, seen, pos)
                    if nm == "union":
                        for a in c.args:
                            out += self.elements(f, a, d, seen, pos)
                    return out
            if nm in NAME_FUNCS or nm in NAME_METHODS:
                return stop  # public API that returns plain module names (its own cuts are checked where it is defined)
            cs = self._callees(f, c)
            if cs:
                out = []
                for g in cs:
                    ys = [n for n in own_nodes(g.node) if isinstance(n, (ast.Yield, ast.YieldFrom))] if not isinstance(g.node, ast.Lambda) else []
                    if ys:
                        for y in ys:
                            if isinstance(y, ast.Yield) and y.value is not None:
                                out += self.value(g, y.value, d, seen, pos)
                            elif isinstance(y, ast.YieldFrom):
                                out += self.elements(g, y.value, d, seen, pos)
                        continue
                    rets = self._returns(g)
                    if not rets:
                        return stop
                    for r in rets:
                        out += self.elements(g, r, d, seen, pos)
                return out
            return stop
        if isinstance(c, ast.Attribute):
            if isinstance(c.value, ast.Name) and c.value.id in ("self", "cls") and f.cls is not None:
                vals = self._field_assignments(f, c.attr)
                if vals:
                    out = []
                    for m, v in vals:
                        out += self.elements(m, v, d, seen, pos)
                    out += self._mutations(f, c, d, seen, pos, field=c.attr)
                    return out
            return stop
        if isinstance(c, ast.Name):
            name = c.id
            if isinstance(f.node, ast.Lambda):
                if name in f.param_names:
                    return stop
                return self.elements(f.outer, c, d, seen, pos) if f.outer is not None else stop
            binds = self._bindings(f, name, c)
            if name in f.param_names:
                if binds:
                    return stop
                args = _callers_args(self.repo, f, name)
                if not args:
                    return stop
                out = []
                for g, a in args:
                    if isinstance(a, ast.Starred):
                        return stop
                    out += self.elements(g, a, d, seen, pos)
                return out + self._mutations(f, c, d, seen, pos)
            if not binds:
                if f.outer is not None:
                    return self.elements(f.outer, c, d, seen, pos)
                k = _module_constant(self.repo, f, name)
                if k is not None:
                    return self.elements(f, k, d, seen, pos)
                return stop
            out = []
            for kind, src, p in binds:
                if kind == "value" and not p:
                    if isinstance(src, ast.BinOp) and isinstance(src.left, ast.Name) and src.left.id == "<prev>":
                        out += self.elements(f, src.right, d, seen, pos)
                    else:
                        out += self.elements(f, src, d, seen, pos)
                elif kind == "value" and len(p) == 1:
                    # `patterns, others = helper(filters)`: the collection is one component of the tuple the helper returns
                    comps = self.tuple_component(f, src, p[0], d)
                    if comps is None:
                        return stop
                    for g, x in comps:
                        out += self.elements(g, x, d, seen, pos)
                else:
                    return stop
            return out + self._mutations(f, c, d, seen, pos)
        return stop

    def tuple_component(self, f: FuncInfo, e: ast.expr, idx: int, depth: int = 0) -> list[tuple[FuncInfo, ast.expr]] | None:
        """The expressions that form position `idx` of the tuple value `e` (literal, local, conditional, result of a repo helper)."""
        if depth > self.MAX:
            return None
        if isinstance(e, (ast.Tuple, ast.List)):
            if any(isinstance(x, ast.Starred) for x in e.elts) or idx >= len(e.elts):
                return None
            return [(f, e.elts[idx])]
        if isinstance(e, ast.IfExp):
            a, b = self.tuple_component(f, e.body, idx, depth + 1), self.tuple_component(f, e.orelse, idx, depth + 1)
            return None if a is None or b is None else a + b
        if isinstance(e, ast.Name) and not isinstance(f.node, ast.Lambda) and e.id not in f.param_names:
            binds = self._bindings(f, e.id, e if parent(e) is not None else None)
            out: list[tuple[FuncInfo, ast.expr]] = []
            for kind, src, p in binds:
                if kind != "value" or p:
                    return None
                sub = self.tuple_component(f, src, idx, depth + 1)
                if sub is None:
                    return None
                out += sub
            return out or None
        if isinstance(e, ast.Call):
            cs = self._callees(f, e)
            if not cs:
                return None
            out = []
            for g in cs:
                rets = self._returns(g)
                if not rets:
                    return None
                for r in rets:
                    sub = self.tuple_component(g, r, idx, depth + 1)
                    if sub is None:
                        return None
                    out += sub
            return out
        return None

    def _mutations(self, f: FuncInfo, c: ast.expr, d: int, seen: frozenset, pos: tuple, field: str | None = None) -> list[Leaf]:
        """Elements added to the collection `c` (a local name, or the field self.<field> anywhere in the class) by mutator calls."""
        out: list[Leaf] = []
        text = norm(c)
        scopes: list[FuncInfo] = [f]
        if field is not None and f.cls is not None:
            scopes = [m for ci in [*self.repo.mro(f.cls), *self.repo.subclasses(f.cls)] for m in [*ci.methods.values(), *ci.extra_methods]]
        for g in scopes:
            if isinstance(g.node, ast.Lambda):
                continue
            for n in own_nodes(g.node):
                if isinstance(n, ast.Call) and isinstance(n.func, ast.Attribute) and norm(n.func.value) == text and n.args:
                    a = n.func.attr
                    if a in ("append", "add", "appendleft"):
                        out += self.value(g, n.args[0], d, seen, pos)
                    elif a == "insert" and len(n.args) == 2:
                        out += self.value(g, n.args[1], d, seen, pos)
                    elif a in ("extend", "update", "extendleft"):
                        out += self.elements(g, n.args[0], d, seen, pos)
                    elif a == "setdefault":
                        out += self.value(g, n.args[0], d, seen, pos)
                elif isinstance(n, ast.Call) and _call_name(n) in ("insort", "insort_left", "insort_right", "heappush") and len(n.args) >= 2 and norm(n.args[0]) == text:
                    out += self.value(g, n.args[1], d, seen, pos)
                elif isinstance(n, (ast.Assign, ast.AugAssign, ast.AnnAssign)):
                    for t in n.targets if isinstance(n, ast.Assign) else [n.target]:
                        if isinstance(t, ast.Subscript) and norm(t.value) == text and not isinstance(t.slice, ast.Slice):
                            out += self.value(g, t.slice, d, seen, pos)  # d[k] = v: iterating d yields k
                        if isinstance(n, ast.AugAssign) and field is not None and norm(t) == text:
                            out += self.elements(g, n.value, d, seen, pos)
        return out


def origins(repo: Repo) -> Origins:
    key = ("origins", id(repo))
    if key not in _cache:
        _cache[key] = Origins(repo)
    return _cache[key]


# --------------------------------------------------------------------------- does a string end with the separator?


def _leaf_status(repo: Repo, g: FuncInfo, e: ast.expr, kind: str, depth: int) -> str:
    """'dot' | 'bare' | 'unknown' for one origin."""
    if kind == "opaque":
        return "unknown"
    if kind == "elem":
        # an element of a collection that could not be opened: collections of names / components hold plain names
        x = e
        while isinstance(x, ast.Call) and isinstance(x.func, ast.Name) and x.func.id in WRAPPERS and x.args:
            x = x.args[0]
        if isinstance(x, ast.Call):
            nm = _call_name(x)
            if nm in NAME_METHODS or nm in NAME_FUNCS:
                return "bare"
            if nm in ("split", "rsplit") and x.args and _const_str(x.args[0]) == ".":
                return "bare"
            if nm in ("keys",):
                x = x.func.value if isinstance(x.func, ast.Attribute) else x
        if isinstance(x, ast.Attribute) and x.attr in ("nodes", "modules"):
            return "bare"
        if isinstance(x, ast.Call) and isinstance(x.func, ast.Attribute) and x.func.attr in ("successors", "predecessors", "neighbors", "nodes", "ancestors", "descendants"):
            return "bare"  # networkx: nodes of the graph
        return "unknown"
    if isinstance(e, ast.Constant):
        if e.value is None:
            return "none"
        return "dot" if isinstance(e.value, str) and e.value.endswith(".") else "bare"
    if isinstance(e, (ast.Tuple, ast.GeneratorExp, ast.ListComp)):
        return dot_status(repo, g, ast.Starred(value=e, ctx=ast.Load()), depth + 1)
    if isinstance(e, ast.JoinedStr):
        if not e.values:
            return "bare"
        last = e.values[-1]
        if isinstance(last, ast.Constant):
            return "dot" if str(last.value).endswith(".") else "bare"
        if isinstance(last, ast.FormattedValue):
            return dot_status(repo, g, last.value, depth + 1)
        return "unknown"
    if isinstance(e, ast.BinOp) and isinstance(e.op, ast.Add):
        return dot_status(repo, g, e.right, depth + 1)
    if isinstance(e, ast.BinOp) and isinstance(e.op, ast.Mod) and _const_str(e.left) is not None:
        s = _const_str(e.left)
        if s.endswith("."):
            return "dot"
        return "unknown" if s.endswith(("%s", "%r")) else "bare"
    if isinstance(e, ast.Attribute):
        if e.attr in ("identifier", "parent_module", "name", "module"):
            return "bare"
        return "unknown"
    if isinstance(e, ast.Call):
        fn = e.func
        nm = _call_name(e)
        if isinstance(fn, ast.Attribute) and nm in NAME_METHODS and not e.args:
            return "bare"
        if nm in NAME_FUNCS:
            return "bare"
        if isinstance(fn, ast.Attribute) and nm in ("rstrip", "strip", "removesuffix") and e.args and "." in (_const_str(e.args[0]) or fold(repo, g.module, e.args[0], g) or ""):
            return "bare"
        if isinstance(fn, ast.Attribute) and nm == "join" and len(e.args) == 1:
            # the last element, not the separator, ends the joined string - unless that element is empty
            arg = e.args[0]
            if isinstance(arg, (ast.List, ast.Tuple)) and arg.elts and not isinstance(arg.elts[-1], ast.Starred):
                last = arg.elts[-1]
                if _const_str(last) == "":
                    sep = _const_str(fn.value) if isinstance(fn.value, ast.Constant) else fold(repo, g.module, fn.value, g)
                    return "dot" if (sep or "").endswith(".") else "unknown"
                return dot_status(repo, g, last, depth + 1)
            if isinstance(arg, (ast.GeneratorExp, ast.ListComp)):
                return dot_status(repo, g, arg.elt, depth + 1)
            # components of a string, possibly a leading run of them: the joined string ends like that string (or earlier)
            sliced = False
            while isinstance(arg, ast.Subscript) and isinstance(arg.slice, ast.Slice):
                sliced = sliced or arg.slice.upper is not None
                arg = arg.value
            outs = set()
            for g2, x, kind in origins(repo).value(g, arg):
                while isinstance(x, ast.Subscript) and isinstance(x.slice, ast.Slice):
                    sliced = sliced or x.slice.upper is not None
                    x = x.value
                if kind == "value" and isinstance(x, ast.Call) and _call_name(x) in ("split", "rsplit") and isinstance(x.func, ast.Attribute) and x.args and _const_str(x.args[0]) == ".":
                    st = dot_status(repo, g2, x.func.value, depth + 1)
                    outs.add("unknown" if (st == "dot" and sliced) else st)
                else:
                    outs.add("unknown")
            return outs.pop() if len(outs) == 1 else "unknown"
        if isinstance(fn, ast.Attribute) and nm == "format" and _const_str(fn.value) is not None:
            s = _const_str(fn.value)
            return "dot" if s.endswith(".") else ("unknown" if s.endswith("}") else "bare")
        if isinstance(fn, ast.Attribute) and nm == "replace" and len(e.args) == 2 and _const_str(e.args[1]) == "." and isinstance(fn.value, ast.Call) and _call_name(fn.value) == "str":
            sep = e.args[0]
            if _const_str(sep) in ("/", "\\") or (isinstance(sep, (ast.Name, ast.Attribute)) and (repo.resolve_name(g.module, sep) or "") in ("os.sep", "os.path.sep")):
                # str(path) never ends with a separator: the dotted form ends with a component ("." itself - the empty
                # relative path - is no module name and is excluded where such a value is appended)
                return "bare"
        if isinstance(fn, ast.Attribute) and nm in ("lower", "upper", "casefold", "lstrip", "removeprefix"):
            return dot_status(repo, g, fn.value, depth + 1)
        if isinstance(fn, ast.Name) and nm in ("tuple", "list", "sorted", "set", "frozenset") and len(e.args) >= 1:
            # str.startswith accepts a tuple of prefixes: all of them count
            return dot_status(repo, g, ast.Starred(value=e.args[0], ctx=ast.Load()), depth + 1)
        return "unknown"
    if isinstance(e, ast.Subscript):
        if isinstance(e.slice, ast.Slice) and e.slice.step is None:
            lo, hi = e.slice.lower, e.slice.upper
            neg_hi = isinstance(hi, ast.UnaryOp) and isinstance(hi.op, ast.USub) and isinstance(hi.operand, ast.Constant) and isinstance(hi.operand.value, int) and hi.operand.value > 0
            if lo is None and neg_hi:
                inner = dot_status(repo, g, e.value, depth + 1)
                return "bare" if inner in ("dot", "bare", "mixed") else "unknown"  # the trailing separator (or more) is cut off
            if hi is None and lo is not None:
                return dot_status(repo, g, e.value, depth + 1)  # the end of the string is kept
            return "unknown"
        if not isinstance(e.slice, ast.Slice):
            # element of split('.') / rsplit('.', 1) / partition: a component or a run of whole components
            v = e.value
            if isinstance(v, ast.Call) and _call_name(v) in ("split", "rsplit", "rpartition", "partition") and v.args and _const_str(v.args[0]) == ".":
                if _call_name(v) in ("partition", "rpartition") and isinstance(e.slice, ast.Constant) and e.slice.value == 1:
                    return "unknown"
                return "bare"
        return "unknown"
    if isinstance(e, ast.Name):
        if e.id in g.param_names:
            ann = next((p.annotation for p in g.params if p.arg == e.id), None)
            if ann is not None and ({n.id for n in ast.walk(ann) if isinstance(n, ast.Name)} | {n.attr for n in ast.walk(ann) if isinstance(n, ast.Attribute)}) & NAME_ANNOTATIONS:
                return "bare"  # a module name by its declared type
        return "unknown"
    return "unknown"


def _normalised_before(f: FuncInfo, use: ast.Name) -> bool:
    """`if not x.endswith("."): x = x + "."` (or `x += "."`) precedes the use of x on every path and x is not re-bound after it."""
    if isinstance(f.node, ast.Lambda):
        return False
    x = use.id
    norm_ifs = []
    for n in own_nodes(f.node):
        if isinstance(n, ast.If) and not n.orelse and len(n.body) == 1 and isinstance(n.test, ast.UnaryOp) and isinstance(n.test.op, ast.Not):
            t = n.test.operand
            if isinstance(t, ast.Call) and isinstance(t.func, ast.Attribute) and t.func.attr == "endswith" and isinstance(t.func.value, ast.Name) and t.func.value.id == x and t.args and _const_str(t.args[0]) == ".":
                b = n.body[0]
                ok = isinstance(b, ast.AugAssign) and isinstance(b.op, ast.Add) and isinstance(b.target, ast.Name) and b.target.id == x and (_const_str(b.value) or "").endswith(".")
                ok = ok or (isinstance(b, ast.Assign) and len(b.targets) == 1 and isinstance(b.targets[0], ast.Name) and b.targets[0].id == x and ((isinstance(b.value, ast.BinOp) and isinstance(b.value.op, ast.Add) and norm(b.value.left) == x and (_const_str(b.value.right) or "").endswith(".")) or (isinstance(b.value, ast.JoinedStr) and len(b.value.values) == 2 and isinstance(b.value.values[0], ast.FormattedValue) and norm(b.value.values[0].value) == x and (_const_str(b.value.values[1]) or "").endswith("."))))
                if ok:
                    norm_ifs.append(n)
    for n in norm_ifs:
        blk = parent(n)
        # the normaliser sits in a block that also (transitively) contains the use, before it; nothing re-binds x afterwards
        if not any(a is blk for a in ancestors(use)):
            continue
        if getattr(n, "end_lineno", 0) >= getattr(use, "lineno", 0):
            continue
        later = [m for m in own_nodes(f.node) if isinstance(m, ast.Name) and m.id == x and isinstance(m.ctx, ast.Store) and getattr(m, "lineno", 0) > n.end_lineno]
        if isinstance(blk, (ast.For, ast.AsyncFor, ast.While)):
            continue
        if not later:
            return True
    return False


def dot_status(repo: Repo, f: FuncInfo, e: ast.expr, depth: int = 0) -> str:
    """'dot'  - the string provably ends with '.' (every origin does),
    'bare' - it provably is a plain module name (no origin has a separator appended),
    'unknown' otherwise (origins disagree or cannot be followed)."""
    if depth > 6:
        return "unknown"
    if isinstance(e, ast.Name) and _normalised_before(f, e):
        return "dot"
    leaves = origins(repo).value(f, e)
    if not leaves:
        return "unknown"
    vals = {_leaf_status(repo, g, x, kind, depth) for g, x, kind in leaves}
    vals.discard("none")  # None on some path: the operation is not reached with it (it would raise)
    if len(vals) == 1:
        return vals.pop()
    if vals and vals <= {"dot", "bare", "mixed"}:
        return "mixed"  # every origin is decided, and they disagree: on some path / at some call site it is a plain name
    return "unknown"


def dot_origins(repo: Repo, f: FuncInfo, e: ast.expr, want: str = "bare", depth: int = 0) -> list[tuple[FuncInfo, ast.expr]]:
    """The origins of the value of `e` that have status `want` (for messages: which producer branch / call site yields a plain name)."""
    out: list[tuple[FuncInfo, ast.expr]] = []
    if depth > 4:
        return out
    try:
        for g, x, kind in origins(repo).value(f, e):
            st = _leaf_status(repo, g, x, kind, 0)
            if st == want:
                # `<prev> + tail`: the tail decides; say where the tail comes from if that is more telling
                out.append((g, x))
            elif st == "mixed":
                inner = x.right if isinstance(x, ast.BinOp) else (x.values[-1].value if isinstance(x, ast.JoinedStr) and x.values and isinstance(x.values[-1], ast.FormattedValue) else None)
                if inner is not None:
                    out += dot_origins(repo, g, inner, want, depth + 1)
    except Exception:  # noqa: BLE001
        pass
    seen: set[tuple[str, str]] = set()
    uniq = []
    for g, x in out:
        k = (g.fq, norm(x))
        if k not in seen:
            seen.add(k)
            uniq.append((g, x))
    return uniq


def needle_status(repo: Repo, f: FuncInfo, e: ast.expr) -> str:
    """dot_status, completed by the may-analysis: a value that carries module names and into which no string ending in '.' was
    ever concatenated (flow tag DOT absent) is a plain name."""
    st = dot_status(repo, f, e)
    if st == "unknown":
        fl = name_flow(repo)
        tags = set(fl.tags(e))
        if not tags:
            # core/flow.py does not propagate the values of `yield`: take the tags of the expressions the value originates from
            for g, x, _kind in origins(repo).value(f, e):
                tags |= set(fl.tags(x))
        if "DOT" not in tags and ("NAME" in tags or "COMP" in tags):
            return "bare"
    return st


def _ends_with_dot(repo: Repo, f: FuncInfo, e: ast.expr, depth: int = 0) -> bool:
    return dot_status(repo, f, e, depth) == "dot"


def _starts_with_dot(e: ast.expr) -> bool:
    if isinstance(e, ast.Constant):
        return isinstance(e.value, str) and e.value.startswith(".")
    if isinstance(e, ast.JoinedStr):
        return bool(e.values) and isinstance(e.values[0], ast.Constant) and str(e.values[0].value).startswith(".")
    if isinstance(e, ast.BinOp) and isinstance(e.op, ast.Add):
        return _starts_with_dot(e.left)
    return False


# --------------------------------------------------------------------------- local definitions (for relating two variables)


def local_defs(repo: Repo, f: FuncInfo) -> dict[str, ast.expr]:
    """Variables of `f` that certainly equal an expression over other variables of `f` at every use:
    single-assignment locals, and the targets of a tuple-unpacking loop expressed through a sibling target
    (`for m, prefix, alias in [(x, f"{x}.", a[x]) for x in ..]`  gives  prefix = f"{m}.")."""
    key = ("local_defs", id(repo), f.fq)
    if key in _cache:
        return _cache[key]
    out: dict[str, ast.expr] = {}
    _cache[key] = out
    if isinstance(f.node, ast.Lambda):
        return out
    stores: dict[str, int] = {}
    for n in own_nodes(f.node):
        if isinstance(n, ast.Name) and isinstance(n.ctx, ast.Store):
            stores[n.id] = stores.get(n.id, 0) + 1
    O = origins(repo)
    for n in own_nodes(f.node):
        if isinstance(n, ast.Assign) and len(n.targets) == 1 and isinstance(n.targets[0], ast.Name):
            v = n.targets[0].id
            if stores.get(v) == 1 and v not in f.param_names:
                out[v] = n.value
        if isinstance(n, ast.NamedExpr) and isinstance(n.target, ast.Name) and stores.get(n.target.id) == 1 and n.target.id not in f.param_names:
            out[n.target.id] = n.value
        tgt_it = None
        if isinstance(n, (ast.For, ast.AsyncFor)):
            tgt_it = (n.target, n.iter)
        elif isinstance(n, ast.comprehension):
            tgt_it = (n.target, n.iter)
        if tgt_it and isinstance(tgt_it[0], ast.Tuple) and all(isinstance(x, ast.Name) for x in tgt_it[0].elts):
            names_ = [x.id for x in tgt_it[0].elts]
            if any(stores.get(v) != 1 for v in names_):
                continue
            # the tuple expressions the elements come from
            leaves = O.elements(f, tgt_it[1])
            if len(leaves) != 1 or leaves[0][2] != "value" or not isinstance(leaves[0][1], ast.Tuple) or len(leaves[0][1].elts) != len(names_):
                continue
            exprs = list(leaves[0][1].elts)
            env = {e.id: ast.Name(id=names_[i], ctx=ast.Load()) for i, e in enumerate(exprs) if isinstance(e, ast.Name)}
            for i, e in enumerate(exprs):
                if isinstance(e, ast.Name):
                    continue
                free = {x.id for x in ast.walk(e) if isinstance(x, ast.Name) and isinstance(x.ctx, ast.Load)}
                # only definitions that are closed over the sibling targets (and names with the same meaning in g and f)
                if free and free <= set(env):
                    out[names_[i]] = _substitute(e, env)
    return out


def _expand(repo: Repo, f: FuncInfo, e: ast.expr, depth: int = 0) -> ast.expr:
    if depth < 4 and isinstance(e, ast.Name):
        d = local_defs(repo, f).get(e.id)
        if d is None and f.outer is not None and not _is_local(f, e.id):
            d = local_defs(repo, f.outer).get(e.id)
        if d is not None and isinstance(d, (ast.JoinedStr, ast.BinOp, ast.Name, ast.Subscript)):
            return _expand(repo, f, d, depth + 1)
    if depth < 4 and isinstance(e, ast.Subscript) and isinstance(e.value, ast.Name) and not isinstance(e.slice, ast.Slice):
        # prefixes[m] with prefixes = {k: k + "." for k in ..}  is  m + "."
        d = local_defs(repo, f).get(e.value.id)
        if d is None and f.outer is not None and not _is_local(f, e.value.id):
            d = local_defs(repo, f.outer).get(e.value.id)
        if isinstance(d, ast.DictComp) and isinstance(d.key, ast.Name) and len(d.generators) == 1:
            free = {x.id for x in ast.walk(d.value) if isinstance(x, ast.Name) and isinstance(x.ctx, ast.Load)}
            if free <= {d.key.id}:
                return _substitute(d.value, {d.key.id: e.slice})
    return e


def _is_dotted_form(e: ast.expr, others: set[str]) -> bool:
    """`o + "."` / f"{o}." for an o in `others`."""
    if isinstance(e, ast.JoinedStr) and len(e.values) == 2 and isinstance(e.values[0], ast.FormattedValue) and (_const_str(e.values[1]) == "." or (isinstance(e.values[1], ast.FormattedValue) and _const_str(e.values[1].value) == ".")):
        v = e.values[0].value
        if isinstance(v, ast.Call) and _call_name(v) == "str" and len(v.args) == 1:
            v = v.args[0]
        return norm(v) in others and e.values[0].conversion in (-1, 115) and e.values[0].format_spec is None
    if isinstance(e, ast.BinOp) and isinstance(e.op, ast.Add) and _const_str(e.right) == ".":
        return norm(e.left) in others
    if isinstance(e, ast.BinOp) and isinstance(e.op, ast.Mod) and _const_str(e.left) == "%s.":
        r = e.right.elts[0] if isinstance(e.right, ast.Tuple) and len(e.right.elts) == 1 else e.right
        return norm(r) in others
    if isinstance(e, ast.Call) and isinstance(e.func, ast.Attribute) and e.func.attr == "format" and _const_str(e.func.value) in ("{}.", "{0}.") and len(e.args) == 1 and not e.keywords:
        return norm(e.args[0]) in others
    if isinstance(e, ast.Call) and isinstance(e.func, ast.Attribute) and e.func.attr == "join" and _const_str(e.func.value) == "." and len(e.args) == 1 and isinstance(e.args[0], (ast.List, ast.Tuple)) and len(e.args[0].elts) == 2 and _const_str(e.args[0].elts[1]) == "":
        return norm(e.args[0].elts[0]) in others
    return False


def _parse_atom(text: str) -> ast.expr | None:
    try:
        return ast.parse(text, mode="eval").body
    except SyntaxError:
        return None


def _unbool(e: ast.expr | None) -> ast.expr | None:
    return e.args[0] if isinstance(e, ast.Call) and isinstance(e.func, ast.Name) and e.func.id == "bool" and len(e.args) == 1 else e


def _relation_atoms(repo: Repo, f: FuncInfo, formula, hay: str, others: set[str], _depth: int = 0):
    """Atoms of `formula` relating `hay` to one of `others`: (safe, raw) lists of formulas.

    safe: hay == o, hay.startswith(<o + '.'>);  raw: hay.startswith(o)
    """
    from core.guards import atom as mk, atoms_of, f_and, f_not

    safe, raw = [], []
    heads: dict[str, object] = {}
    seps: dict[str, object] = {}
    for a in atoms_of(formula):
        e = _parse_atom(a)
        if e is None:
            continue
        if isinstance(e, ast.Compare) and len(e.ops) == 1 and isinstance(e.ops[0], ast.Eq):
            l, r = norm(e.left), norm(e.comparators[0])
            if (l == hay and r in others) or (r == hay and l in others):
                safe.append(mk(a))
            # positions / parts relative to a prefix that ends in '.':  H.find(o + ".") == 0,  H.partition(o + ".")[0] == ""
            try:
                x = _expand_names(repo, f, e)
            except Exception:  # noqa: BLE001
                x = e
            for side, other_side in ((x.left, x.comparators[0]), (x.comparators[0], x.left)):
                if isinstance(side, ast.Call) and isinstance(side.func, ast.Attribute) and side.func.attr in ("find", "index") and side.args and " ".join(ast.unparse(side.func.value).split()) == hay and _is_dotted_form(side.args[0], others) and isinstance(other_side, ast.Constant) and other_side.value == 0 and other_side.value is not False:
                    safe.append(mk(a))
                if isinstance(side, ast.Subscript) and isinstance(side.slice, ast.Constant) and side.slice.value in (0, 1) and isinstance(side.value, ast.Call) and isinstance(side.value.func, ast.Attribute) and side.value.func.attr == "partition" and side.value.args and " ".join(ast.unparse(side.value.func.value).split()) == hay and _is_dotted_form(side.value.args[0], others) and _const_str(other_side) == "":
                    (heads if side.slice.value == 0 else seps)[norm(side.value)] = mk(a)
        inner = _unbool(e)
        if isinstance(inner, ast.Call) and isinstance(inner.func, ast.Attribute) and inner.func.attr == "startswith" and norm(inner.func.value) == hay and inner.args:
            nd = inner.args[0]
            if norm(nd) in others:
                st = dot_status(repo, f, nd) if isinstance(nd, ast.Name) else "bare"
                # the other string itself is the prefix: only safe if that string carries the separator (then len() includes it)
                (safe if st == "dot" else raw).append(mk(a))
            elif _is_dotted_form(_expand(repo, f, nd), others) or _is_dotted_form(_expand_names(repo, f, nd), others):
                safe.append(mk(a))  # (the second form has named separator constants folded: f"{o}{SEPARATOR}")
        elif isinstance(inner, ast.Call) and not (isinstance(inner.func, ast.Attribute) and inner.func.attr in STR_REL_METHODS):
            try:
                if _relation_call(repo, f, inner, hay, others, _depth) or _relation_call(repo, f, _expand_names(repo, f, inner), hay, others, _depth):
                    safe.append(mk(a))
                elif any(_component_prefix_expr(repo, f, _expand_names(repo, f, inner), hay, o) for o in sorted(others)):
                    safe.append(mk(a))
            except RecursionError:
                raise
            except Exception:  # noqa: BLE001
                pass
    for k, head_empty in heads.items():
        if k in seps:
            safe.append(f_and([head_empty, f_not(seps[k])]))  # the dotted prefix was found, and right at the beginning
    return safe, raw


def _selected_from(repo: Repo, f: FuncInfo, name: str) -> tuple[str, list[ast.expr], bool] | None:
    """`name` is one element of a filtered collection - `next(v for v in xs if c(v))`, `[v for v in xs if c(v)][0]`,
    `max((v for ..), key=len)`, `next(filter(pred, xs), None)`, also through an intermediate local: the (variable, conditions that
    hold for it, whether it may be None instead)."""
    d = local_defs(repo, f).get(name)
    if d is None:
        e0 = _parse_atom(name)  # not a local: the expression itself (`return next((c for c in cs if ..), None)`)
        d = e0 if isinstance(e0, (ast.Call, ast.Subscript)) else None
    maybe_none = False
    for _ in range(6):
        if d is None:
            return None
        if isinstance(d, ast.Call) and isinstance(d.func, ast.Name) and _call_name(d) in ("next", "min", "max", "sorted", "list", "tuple", "reversed", "iter") and d.args:
            if _call_name(d) == "next" and len(d.args) == 2:
                if not (isinstance(d.args[1], ast.Constant) and d.args[1].value is None):
                    return None
                maybe_none = True
            for k in d.keywords:
                if k.arg == "default":
                    if not (isinstance(k.value, ast.Constant) and k.value.value is None):
                        return None
                    maybe_none = True
            d = d.args[0]
        elif isinstance(d, ast.Subscript):
            d = d.value
        elif isinstance(d, ast.Call) and _call_name(d) in ("pop", "popleft") and isinstance(d.func, ast.Attribute):
            d = d.func.value
        elif isinstance(d, ast.Name):
            d = local_defs(repo, f).get(d.id)
        else:
            break
    if isinstance(d, (ast.GeneratorExp, ast.ListComp, ast.SetComp)) and len(d.generators) == 1 and isinstance(d.elt, ast.Name) and dotted(d.generators[0].target) == d.elt.id:
        return d.elt.id, list(d.generators[0].ifs), maybe_none
    if isinstance(d, ast.Call) and _call_name(d) == "filter" and len(d.args) == 2:
        pred = d.args[0]
        if isinstance(pred, ast.Name):
            ld = local_defs(repo, f).get(pred.id)
            if isinstance(ld, ast.Lambda):
                pred = ld
            else:
                nested = [g for g in f.module.all_funcs if g.outer is f and g.name == pred.id and isinstance(g.node, ast.FunctionDef)]
                if len(nested) == 1 and len(nested[0].param_names) == 1:
                    body = [x for x in nested[0].node.body if not (isinstance(x, ast.Expr) and isinstance(x.value, ast.Constant))]
                    if len(body) == 1 and isinstance(body[0], ast.Return) and body[0].value is not None:
                        return nested[0].param_names[0], [body[0].value], maybe_none
        if isinstance(pred, ast.Lambda) and len(pred.args.args) == 1:
            return pred.args.args[0].arg, [pred.body], maybe_none
        if isinstance(pred, ast.Call) and _call_name(pred) == "partial" and pred.args and not pred.keywords:
            v = "_selected_element"
            return v, [ast.Call(func=_clone(pred.args[0]), args=[*[_clone(a) for a in pred.args[1:]], ast.Name(id=v, ctx=ast.Load())], keywords=[])], maybe_none
        if isinstance(pred, (ast.Name, ast.Attribute)):
            v = "_selected_element"
            return v, [ast.Call(func=_clone(pred), args=[ast.Name(id=v, ctx=ast.Load())], keywords=[])], maybe_none
    return None


def _site_facts(repo: Repo, f: FuncInfo, node: ast.AST, other: str, assume_not_none: bool = False):
    """Path condition of `node` (private helper predicates inlined) plus what selecting X from a filtered collection
    (`X = next(v for v in .. if test(v))`, `X = [v for v in .. if test(v)][0]`) establishes for X."""
    from core.guards import atom as mk, f_and, f_or, to_formula

    from .common import copy_prop, guard_formula

    facts = [_guard(f, node)]
    others = {other}
    if not isinstance(f.node, ast.Lambda):
        base, _, field_path = other.partition(".")
        sel = _selected_from(repo, f, other)
        selected_var = other
        if sel is None and field_path and base.isidentifier():
            # a field of the selected element: `alias = next(a for a in aliases if name == a.module or ..)` ... `name[len(alias.module):]`
            sel = _selected_from(repo, f, base)
            selected_var = base
        if sel is not None:
            v, conds_, maybe_none = sel
            others.add(v if selected_var == other else f"{v}.{field_path}")
            held = f_and([to_formula(cond, copy_prop(f)) for cond in conds_])
            facts.append(f_or([mk(f"{selected_var} is None"), held]) if maybe_none and not assume_not_none else held)
    return f_and(facts), others


def _boundary_predicate(repo: Repo, f: FuncInfo, hay: str = "", needle: str = "") -> bool:
    """`f` is a predicate whose truthy result implies, for every raw `H.startswith(N)` it evaluates, that the character after
    the prefix is '.' or absent (`H[len(N):] == ""`, `H[len(N):][0] == "."`, `H[len(N):].startswith(".")`, `H[len(N):][:1] in ("", ".")`)."""
    from core.guards import atom as mk, atoms_of, f_not, f_or, implies

    from .common import bool_inliner

    if isinstance(f.node, ast.Lambda):
        return False
    if any(isinstance(x, (ast.Raise, ast.Yield, ast.YieldFrom, ast.AugAssign, ast.Delete, ast.Global, ast.Nonlocal)) or (isinstance(x, ast.Expr) and not isinstance(x.value, ast.Constant)) or (isinstance(x, ast.Assign) and not all(isinstance(t, ast.Name) for t in x.targets)) for x in own_nodes(f.node)):
        return False  # a predicate decides by its result only; anything else it does is a consequence of the raw test
    key = ("boundary_pred", id(repo), f.fq)
    if key in _cache:
        return _cache[key]
    inl = bool_inliner(repo)
    env = {p: ast.Name(id=p, ctx=ast.Load()) for p in f.param_names}
    try:
        s = inl.summary(f, env, 0)
    except Exception:  # noqa: BLE001
        s = None
    ok = False
    if s is not None:
        parsed = [(a, _parse_atom(a)) for a in atoms_of(s)]
        raws = []
        for a, e in parsed:
            inner = _unbool(e)
            if isinstance(inner, ast.Call) and isinstance(inner.func, ast.Attribute) and inner.func.attr == "startswith" and inner.args:
                nd = inner.args[0]
                if not (isinstance(nd, ast.Constant) and nd.value == "."):
                    raws.append((a, norm(inner.func.value), norm(nd)))
        ok = bool(raws)
        for a_raw, H, N in raws:
            rest = f"{H}[len({N}):]"
            nxt = f"{H}[len({N})]"
            empty_t, empty_f, dot = [], [], []
            for a, e in parsed:
                if e is None:
                    continue
                inner = _unbool(e)
                if isinstance(inner, ast.Call) and isinstance(inner.func, ast.Attribute) and inner.func.attr == "startswith" and inner.args and norm(inner.func.value) == rest and isinstance(inner.args[0], ast.Constant) and inner.args[0].value == ".":
                    dot.append(mk(a))
                if isinstance(e, ast.Call) and isinstance(e.func, ast.Name) and e.func.id == "bool" and norm(inner) == rest:
                    empty_f.append(mk(a))  # truthy = non-empty
                if isinstance(e, ast.Compare) and len(e.ops) == 1 and isinstance(e.ops[0], ast.Eq):
                    l, r = e.left, e.comparators[0]
                    for x, y in ((l, r), (r, l)):
                        if norm(x) == rest and isinstance(y, ast.Constant) and y.value == "":
                            empty_t.append(mk(a))
                        if isinstance(y, ast.Constant) and y.value == "." and isinstance(x, ast.Subscript) and norm(x.value) == rest and norm(x.slice) in ("0", ":1"):
                            dot.append(mk(a))
                        if isinstance(y, ast.Constant) and y.value == "." and norm(x) == nxt:
                            dot.append(mk(a))
                        if norm(x) == H and norm(y) == N:
                            empty_t.append(mk(a))  # H == N: nothing follows the prefix
                if isinstance(e, ast.Compare) and len(e.ops) == 1 and isinstance(e.ops[0], ast.In) and isinstance(e.left, ast.Subscript) and norm(e.left.value) == rest and norm(e.left.slice) == ":1":
                    c = e.comparators[0]
                    if isinstance(c, (ast.Tuple, ast.List, ast.Set)) and len(c.elts) == 2 and sorted(x.value for x in c.elts if isinstance(x, ast.Constant)) == ["", "."]:
                        dot.append(mk(a))
            boundary = f_or([*empty_t, *[f_not(x) for x in empty_f], *dot])
            try:
                if not (dot and implies(s, f_or([f_not(mk(a_raw)), boundary]))):
                    ok = False
            except AnalysisError:
                ok = False
    _cache[key] = ok
    return ok


# --------------------------------------------------------------------------- user-supplied regular expressions


REGEX_FLAG = "identifier_is_regex"  # public property of every module filter: True for filters whose identifier is a user regex


def _flag_holds(g: FuncInfo, at: ast.AST, recv: str) -> bool:
    """`<recv>.identifier_is_regex` is among the conditions under which `at` is evaluated."""

    def positive(e: ast.expr, pol: bool) -> bool:
        if isinstance(e, ast.UnaryOp) and isinstance(e.op, ast.Not):
            return positive(e.operand, not pol)
        if isinstance(e, ast.BoolOp) and isinstance(e.op, ast.And) and pol:
            return any(positive(v, True) for v in e.values)
        if isinstance(e, ast.BoolOp) and isinstance(e.op, ast.Or) and not pol:
            return any(positive(v, False) for v in e.values)
        return pol and isinstance(e, ast.Attribute) and e.attr == REGEX_FLAG and norm(e.value) == recv

    try:
        return any(positive(e, pol) for e, pol in conds(g, at))
    except Exception:  # noqa: BLE001
        return False


def _regex_typed(T: Types, g: FuncInfo, e: ast.expr, elements: bool = False) -> bool:
    t = T.expr(g, e)
    if all(m == ("unknown",) for m in members(t)) and isinstance(e, ast.Name) and isinstance(g.node, ast.Lambda) and e.id in g.param_names:
        it = _lambda_iterable(g)
        if it is not None:
            t = elem_type(T.expr(g.outer, it))
    if elements:
        t = elem_type(t)
    ms = members(t)
    return bool(ms) and all(m[0] == "cls" and m[1].rsplit(".", 1)[-1] == REGEX_FILTER for m in ms)


def _is_regex_filter(repo: Repo, g: FuncInfo, e: ast.expr, at: ast.AST, depth: int = 0) -> bool:
    """The filter object `e` (used at node `at` of `g`) is a regex filter: by static type, or because it was selected by the
    public flag `identifier_is_regex` (guard on the path, filtered comprehension / loop, helper returning the selected ones)."""
    T = types_of(repo)
    if depth > 7:
        return False
    if isinstance(e, ast.Name) and not isinstance(g.node, ast.Lambda) and e.id not in g.param_names and not _flag_holds(g, at, norm(e)):
        # an element of a list whose filling can be followed: the data decides, not a cast / an annotation
        try:
            for kind, src, pos_ in origins(repo)._bindings(g, e.id, e):
                if kind == "elem" and _bucket_verdict(repo, g, src, 0, tuple(pos_)) is False:
                    return False
        except RecursionError:
            raise
        except Exception:  # noqa: BLE001
            pass
    if _regex_typed(T, g, e) or _flag_holds(g, at, norm(e)):
        return True
    if isinstance(e, ast.Call) and _call_name(e) == "cast" and len(e.args) == 2:
        return norm(e.args[0]).rsplit(".", 1)[-1].strip("'\"") == REGEX_FILTER or _is_regex_filter(repo, g, e.args[1], at, depth + 1)
    if not isinstance(e, ast.Name):
        return False
    if isinstance(g.node, ast.Lambda):
        if e.id in g.param_names:
            it = _lambda_iterable(g)
            return it is not None and g.outer is not None and _all_regex_filters(repo, g.outer, it, depth + 1)
        return g.outer is not None and _is_regex_filter(repo, g.outer, e, g.node, depth + 1)
    binds = origins(repo)._bindings(g, e.id, e)
    if e.id in g.param_names:
        if binds:
            return False
        args = _callers_args(repo, g, e.id)
        return bool(args) and all((_all_regex_filters(repo, h, a.value, depth + 1) if isinstance(a, ast.Starred) else _is_regex_filter(repo, h, a, a, depth + 1)) for h, a in args)
    if not binds:
        return g.outer is not None and _is_regex_filter(repo, g.outer, e, g.node, depth + 1)
    for kind, src, pos in binds:
        if kind == "elem" and not pos:
            if not _all_regex_filters(repo, g, src, depth + 1):
                return False
        elif kind == "value" and not pos:
            if not _is_regex_filter(repo, g, src, src, depth + 1):
                return False
        else:
            return False
    return True


def _bucket_verdict(repo: Repo, g: FuncInfo, c: ast.expr, depth: int = 0, pos: tuple = ()) -> bool | None:
    """`c` leads (through locals, tuple positions, helper returns, casts) to one list of an indexed pair / tuple of lists that is
    filled by `buckets[<index>].append(x)`: True / False - every element appended to that list was selected by the public flag
    `identifier_is_regex` (a constant index needs a regex filter by its own provenance, `1 if x.identifier_is_regex else 0` needs
    the polarity that fits the list) - decided by the data, whatever a cast or an annotation says. None: not such a list."""
    if depth > 6 or isinstance(g.node, ast.Lambda):
        return None
    if isinstance(c, ast.Call) and _call_name(c) == "cast" and len(c.args) == 2:
        return _bucket_verdict(repo, g, c.args[1], depth + 1, pos)
    if isinstance(c, ast.Tuple) and pos and pos[0] < len(c.elts):
        return _bucket_verdict(repo, g, c.elts[pos[0]], depth + 1, pos[1:])
    if isinstance(c, ast.Call) and not pos or isinstance(c, ast.Call):
        cs = origins(repo)._callees(g, c) if isinstance(c, ast.Call) else []
        if len(cs) == 1 and not isinstance(cs[0].node, ast.Lambda):
            vs = [_bucket_verdict(repo, cs[0], r, depth + 1, pos) for r in Origins._returns(cs[0])]
            if vs and all(v is not None for v in vs):
                return all(vs)
        return None
    if isinstance(c, ast.Name) and c.id not in g.param_names:
        binds = origins(repo)._bindings(g, c.id, c)
        if len(binds) == 1 and binds[0][0] == "value":
            return _bucket_verdict(repo, g, binds[0][1], depth + 1, tuple(binds[0][2]) + pos)
        return None
    if isinstance(c, ast.Subscript) and not pos and isinstance(c.value, ast.Name) and isinstance(c.slice, ast.Constant) and isinstance(c.slice.value, int) and not isinstance(c.slice.value, bool):
        B, k = c.value.id, c.slice.value
        d_ = local_defs(repo, g).get(B)
        if d_ is None and B not in g.param_names:  # (an annotated assignment)
            anns = [a for a in own_nodes(g.node) if isinstance(a, ast.AnnAssign) and a.value is not None and isinstance(a.target, ast.Name) and a.target.id == B]
            stores_ = [x for x in own_nodes(g.node) if isinstance(x, ast.Name) and x.id == B and isinstance(x.ctx, ast.Store)]
            d_ = anns[0].value if len(anns) == 1 and len(stores_) == 1 else None
        if not (isinstance(d_, (ast.Tuple, ast.List)) and d_.elts and all(isinstance(x, ast.List) and not x.elts for x in d_.elts) and 0 <= k < len(d_.elts)):
            return None
        seen_append = False
        for n in own_nodes(g.node):
            if isinstance(n, ast.Name) and n.id == B and isinstance(n.ctx, ast.Load):
                sub = parent(n)
                if not (isinstance(sub, ast.Subscript) and sub.value is n):
                    return None  # the pair is handed on as a whole
                att = parent(sub)
                if isinstance(att, ast.Attribute) and isinstance(parent(att), ast.Call) and parent(att).func is att:
                    call = parent(att)
                    if att.attr != "append" or len(call.args) != 1:
                        return None
                    x, idx = call.args[0], sub.slice
                    if isinstance(idx, ast.Constant) and isinstance(idx.value, int):
                        if idx.value == k:
                            seen_append = True
                            if not _is_regex_filter(repo, g, x, call, depth + 1):
                                return False
                    elif isinstance(idx, ast.IfExp) and isinstance(idx.body, ast.Constant) and isinstance(idx.orelse, ast.Constant):
                        t = idx.test
                        neg = isinstance(t, ast.UnaryOp) and isinstance(t.op, ast.Not)
                        core = t.operand if neg else t
                        is_flag = isinstance(core, ast.Attribute) and core.attr == REGEX_FLAG and norm(core.value) == norm(x)
                        when_flag, otherwise = (idx.orelse.value, idx.body.value) if neg else (idx.body.value, idx.orelse.value)
                        if k in (when_flag, otherwise):
                            seen_append = True
                            if not is_flag or otherwise == k:
                                return False  # elements without the flag (or chosen by something else) land in this list
                    elif isinstance(idx, ast.Attribute) and idx.attr == REGEX_FLAG and norm(idx.value) == norm(x):
                        seen_append = True  # buckets[x.identifier_is_regex]: index True == 1
                        if k != 1:
                            return False
                    else:
                        return None
        return True if seen_append else None
    return None


def _all_regex_filters(repo: Repo, g: FuncInfo, c: ast.expr, depth: int = 0, pos: tuple = ()) -> bool:
    """Every element of the collection `c` is a regex filter."""
    T = types_of(repo)
    if depth > 7:
        return False
    try:
        bv = _bucket_verdict(repo, g, c, 0, pos)  # (where the data can be followed it decides, not a cast / an annotation)
    except RecursionError:
        raise
    except Exception:  # noqa: BLE001
        bv = None
    if bv is not None:
        return bv
    if not pos and _regex_typed(T, g, c, elements=True):
        return True
    if pos:
        if isinstance(c, ast.Tuple) and pos[0] < len(c.elts):
            return _all_regex_filters(repo, g, c.elts[pos[0]], depth + 1, pos[1:])
    if isinstance(c, ast.Call):
        nm = _call_name(c)
        if isinstance(c.func, ast.Name) and nm in WRAPPERS and c.args:
            return _all_regex_filters(repo, g, c.args[0], depth + 1, pos)
        if isinstance(c.func, ast.Name) and nm == "filter" and len(c.args) == 2 and not pos:
            fn = c.args[0]
            if isinstance(fn, ast.Lambda) and len(fn.args.args) == 1:
                lf = getattr(fn, "_func", None)
                if lf is not None and _flag_holds(lf, fn.body, fn.args.args[0].arg) is False:
                    b = fn.body
                    if isinstance(b, ast.Attribute) and b.attr == REGEX_FLAG and norm(b.value) == fn.args.args[0].arg:
                        return True
            return _all_regex_filters(repo, g, c.args[1], depth + 1)
        cs = origins(repo)._callees(g, c)
        if cs:
            for h in cs:
                rets = origins(repo)._returns(h)
                if not rets or not all(_all_regex_filters(repo, h, r, depth + 1, pos) for r in rets):
                    return False
            return True
        return False
    if isinstance(c, (ast.ListComp, ast.SetComp, ast.GeneratorExp)) and not pos:
        if isinstance(c.elt, ast.Name):
            return _is_regex_filter(repo, g, c.elt, c.elt, depth + 1)
        return _is_regex_filter(repo, g, c.elt, c.elt, depth + 1)
    if isinstance(c, ast.Subscript) and isinstance(c.slice, ast.Slice):
        return _all_regex_filters(repo, g, c.value, depth + 1, pos)
    if isinstance(c, ast.Name) and not isinstance(g.node, ast.Lambda):
        binds = origins(repo)._bindings(g, c.id, c)
        if c.id in g.param_names:
            if binds:
                return False
            args = _callers_args(repo, g, c.id)
            return bool(args) and all(not isinstance(a, ast.Starred) and _all_regex_filters(repo, h, a, depth + 1, pos) for h, a in args)
        if not binds:
            return g.outer is not None and _all_regex_filters(repo, g.outer, c, depth + 1, pos)
        for kind, src, p in binds:
            if kind != "value":
                return False
            if isinstance(src, (ast.List, ast.Set)) and not src.elts or (isinstance(src, ast.Call) and _call_name(src) in ("list", "set") and not src.args):
                continue  # starts empty: see the mutators below
            if not _all_regex_filters(repo, g, src, depth + 1, p + pos):
                return False
        for n in own_nodes(g.node):
            if isinstance(n, ast.Call) and isinstance(n.func, ast.Attribute) and isinstance(n.func.value, ast.Name) and n.func.value.id == c.id and n.args:
                if n.func.attr in ("append", "add") and not _is_regex_filter(repo, g, n.args[0], n, depth + 1):
                    return False
                if n.func.attr in ("extend", "update") and not _all_regex_filters(repo, g, n.args[0], depth + 1):
                    return False
                if n.func.attr == "insert":
                    return False
        return True
    return False


def _user_regex(repo: Repo, f: FuncInfo, pat: ast.expr) -> bool:
    """The pattern is, unmodified, the identifier of regex filters - recognised by their static type (ModuleNameRegexFilter) or by
    the public flag `identifier_is_regex` that selected them: a user-supplied regex, matched against names by design."""
    if isinstance(pat, (ast.JoinedStr, ast.BinOp)):
        return False
    O = origins(repo)
    before = O._keep_identifiers
    O._keep_identifiers = True
    try:
        work = list(O.value(f, pat))
        if not work:
            return False
        done = 0
        while work:
            g, e, kind = work.pop()
            done += 1
            if kind != "value" or done > 60:
                return False
            if isinstance(e, ast.Call) and (repo.resolve_name(g.module, e.func) or "") == "re.compile" and e.args:
                sub = O.value(g, e.args[0])
                if not sub:
                    return False
                work += sub
                continue
            if not (isinstance(e, ast.Attribute) and e.attr == "identifier"):
                return False
            if not _is_regex_filter(repo, g, e.value, e):
                return False
        return True
    finally:
        O._keep_identifiers = before


def _pattern_pieces(repo: Repo, f: FuncInfo, pat: ast.expr, depth: int = 0) -> tuple[bool, bool] | None:
    """(a name enters the pattern un-escaped, a name enters it through re.escape); None if the construction cannot be followed.
    The flow tags cannot tell `"|".join(map(re.escape, names))` from `"|".join(names)`: collections of filters carry the tag NAME
    into whatever is built from them."""
    if depth > 6:
        return None
    fl = name_flow(repo)
    raw = esc = False

    def merge(r):
        nonlocal raw, esc
        if r is None:
            return False
        raw, esc = raw or r[0], esc or r[1]
        return True

    e = pat
    if isinstance(e, ast.Constant):
        return False, False
    if isinstance(e, ast.JoinedStr):
        for v in e.values:
            if isinstance(v, ast.FormattedValue) and not merge(_pattern_pieces(repo, f, v.value, depth + 1)):
                return None
        return raw, esc
    if isinstance(e, ast.BinOp) and isinstance(e.op, (ast.Add, ast.Mod)):
        parts = [e.left, *(e.right.elts if isinstance(e.op, ast.Mod) and isinstance(e.right, ast.Tuple) else [e.right])]
        for x in parts:
            if not merge(_pattern_pieces(repo, f, x, depth + 1)):
                return None
        return raw, esc
    if isinstance(e, ast.Call):
        fq = repo.resolve_name(f.module, e.func) or "" if isinstance(e.func, (ast.Name, ast.Attribute)) else ""
        if fq == "re.escape":
            return False, True
        if fq == "re.compile" and e.args:
            return _pattern_pieces(repo, f, e.args[0], depth + 1)
        if isinstance(e.func, ast.Attribute) and e.func.attr == "format" and _const_str(e.func.value) is not None:
            for x in [*e.args, *[k.value for k in e.keywords]]:
                if not merge(_pattern_pieces(repo, f, x, depth + 1)):
                    return None
            return raw, esc
        if isinstance(e.func, ast.Attribute) and e.func.attr == "join" and _const_str(e.func.value) is not None and len(e.args) == 1:
            for g, x, kind in origins(repo).elements(f, e.args[0]):
                if kind != "value" or not merge(_pattern_pieces(repo, g, x, depth + 1)):
                    return None
            return raw, esc
        if isinstance(e.func, ast.Name) and e.func.id == "str" and len(e.args) == 1:
            return _pattern_pieces(repo, f, e.args[0], depth + 1)
    if isinstance(e, (ast.Name, ast.Attribute, ast.Subscript, ast.Call, ast.IfExp)):
        leaves = origins(repo).value(f, e)
        if len(leaves) == 1 and leaves[0][1] is e:
            tags = set(fl.tags(e))
            if "NAME" in tags:
                return True, False
            return False, "ESC:NAME" in tags
        for g, x, kind in leaves:
            if kind != "value":
                return None
            if x is e:
                return None
            if not merge(_pattern_pieces(repo, g, x, depth + 1)):
                return None
        return raw, esc
    return None


# --------------------------------------------------------------------------- cutting a name at an index


def _strip_offset(e: ast.expr) -> tuple[ast.expr, int | None]:
    """(core, k) for `core + k` / `core - k` / `k + core`, k an int constant; (e, 0) otherwise."""
    if isinstance(e, ast.BinOp) and isinstance(e.op, (ast.Add, ast.Sub)):
        l, r = e.left, e.right
        if isinstance(r, ast.Constant) and isinstance(r.value, int):
            return l, r.value if isinstance(e.op, ast.Add) else -r.value
        if isinstance(l, ast.Constant) and isinstance(l.value, int) and isinstance(e.op, ast.Add):
            return r, l.value
        return e, None
    return e, 0


def _loop_binding(f: FuncInfo, name: str, use: ast.AST | None = None):
    """(target, iter, owner) of the for statement / comprehension generator that binds `name` - the one enclosing `use`, or the only one."""
    if isinstance(f.node, ast.Lambda):
        return None
    if use is not None:
        try:
            prev = use
            for a in ancestors(use):
                if a is f.node:
                    break
                if isinstance(a, (ast.ListComp, ast.SetComp, ast.GeneratorExp, ast.DictComp)):
                    for g in a.generators:
                        if any(isinstance(x, ast.Name) and x.id == name for x in ast.walk(g.target)):
                            return g.target, g.iter, g
                if isinstance(a, (ast.For, ast.AsyncFor)) and any(isinstance(x, ast.Name) and x.id == name for x in ast.walk(a.target)) and any(prev is st_ for st_ in a.body):
                    if not any(isinstance(x, ast.Name) and x.id == name and isinstance(x.ctx, ast.Store) for st_ in a.body for x in ast.walk(st_)):
                        return a.target, a.iter, a
                prev = a
        except Exception:  # noqa: BLE001
            pass
    stores = [n for n in own_nodes(f.node) if isinstance(n, ast.Name) and n.id == name and isinstance(n.ctx, ast.Store)]
    if len(stores) != 1 or name in f.param_names:
        return None
    for n in own_nodes(f.node):
        if isinstance(n, (ast.For, ast.AsyncFor, ast.comprehension)) and any(x is stores[0] for x in ast.walk(n.target)):
            return n.target, n.iter, n
    return None


def _found_guard(repo: Repo, f: FuncInfo, node: ast.AST, hay: str, index_texts: set[str]) -> bool:
    """The path condition of `node` implies that the searched separator was found (index != -1 / '.' in name)."""
    from core.guards import atom as mk, atoms_of, f_not, f_or, implies

    from .common import guard_formula

    facts = guard_formula(f, node)
    pos, neg = [], []
    for a in atoms_of(facts):
        e = _unbool(_parse_atom(a))
        if e is None:
            continue
        if isinstance(e, ast.Compare) and len(e.ops) == 1:
            l, op, r = e.left, e.ops[0], e.comparators[0]
            if isinstance(op, ast.In) and _const_str(l) == "." and norm(r) == hay:
                pos.append(mk(a))
                continue
            for x, y, flip in ((l, r, False), (r, l, True)):
                xs = {norm(x)} | ({norm(x.target), norm(x.value)} if isinstance(x, ast.NamedExpr) else set())
                if xs & index_texts and isinstance(y, (ast.Constant, ast.UnaryOp)):
                    try:
                        k = ast.literal_eval(y)
                    except Exception:  # noqa: BLE001
                        continue
                    if not isinstance(k, int):
                        continue
                    o = type(op)
                    if flip:
                        o = {ast.Lt: ast.Gt, ast.Gt: ast.Lt, ast.LtE: ast.GtE, ast.GtE: ast.LtE}.get(o, o)
                    if (o is ast.GtE and k >= 0) or (o is ast.Gt and k >= -1):
                        pos.append(mk(a))
                    elif (o is ast.Eq and k == -1) or (o is ast.Lt and k <= 0) or (o is ast.LtE and k <= -1):
                        neg.append(mk(a))
        elif isinstance(e, ast.Call) and _call_name(e) == "count" and isinstance(e.func, ast.Attribute) and norm(e.func.value) == hay and e.args and _const_str(e.args[0]) == ".":
            pos.append(mk(a))  # truthiness of name.count('.')
    goal = f_or([*pos, *[f_not(x) for x in neg]])
    try:
        return bool(pos or neg) and implies(facts, goal)
    except AnalysisError:
        return False


class _GiveUp(Exception):
    pass


def _range_nonempty(f: FuncInfo, loop: ast.AST) -> bool:
    """`for .. in range(n)` (n a constant >= 1, or a variable / expression that the path condition of the loop shows to be positive:
    `if n <= 0: return ..` before it): the body runs at least once."""
    from core.guards import atom as mk, atoms_of, f_not, f_or, implies

    from .common import guard_formula

    it = getattr(loop, "iter", None)
    if not (isinstance(it, ast.Call) and isinstance(it.func, ast.Name) and it.func.id == "range" and len(it.args) == 1 and not it.keywords):
        return False
    n = it.args[0]
    if isinstance(n, ast.Constant):
        return isinstance(n.value, int) and not isinstance(n.value, bool) and n.value >= 1
    text = norm(n)
    try:
        facts = guard_formula(f, loop)
    except Exception:  # noqa: BLE001
        return False
    pos, neg = [], []
    for a in atoms_of(facts):
        e = _unbool(_parse_atom(a))
        if not (isinstance(e, ast.Compare) and len(e.ops) == 1):
            continue
        l, op, r = e.left, type(e.ops[0]), e.comparators[0]
        for x, y, flip in ((l, r, False), (r, l, True)):
            if norm(x) != text:
                continue
            try:
                k = ast.literal_eval(y)
            except Exception:  # noqa: BLE001
                continue
            if isinstance(k, bool) or not isinstance(k, int):
                continue
            o = {ast.Lt: ast.Gt, ast.Gt: ast.Lt, ast.LtE: ast.GtE, ast.GtE: ast.LtE}.get(op, op) if flip else op
            if (o is ast.Gt and k >= 0) or (o is ast.GtE and k >= 1):
                pos.append(mk(a))
            elif (o is ast.LtE and k >= 0) or (o is ast.Lt and k >= 1):
                neg.append(mk(a))
    try:
        return bool(pos or neg) and implies(facts, f_or([*pos, *[f_not(x) for x in neg]]))
    except AnalysisError:
        return False


def _dominating_assign(f: FuncInfo, use: ast.AST, name: str) -> ast.Assign | None:
    """The plain assignment `name = ..` that precedes the statement of `use` in the same statement list (or in the list around an
    enclosing if / with / try), with no other store to the name in between: the value the name certainly has at `use`."""
    st = use if isinstance(use, ast.stmt) else stmt_of(use)
    while st is not None and st is not f.node:
        owner = parent(st)
        blk = next((b for fld in ("body", "orelse", "finalbody") for b in [getattr(owner, fld, None)] if isinstance(b, list) and any(x is st for x in b)), None)
        if blk is None:
            return None
        i = next(k for k, x in enumerate(blk) if x is st)
        for prev in reversed(blk[:i]):
            if isinstance(prev, ast.Assign) and len(prev.targets) == 1 and isinstance(prev.targets[0], ast.Name) and prev.targets[0].id == name:
                return prev
            if any(isinstance(x, ast.Name) and x.id == name and isinstance(x.ctx, (ast.Store, ast.Del)) for x in ast.walk(prev)):
                return None
        if not isinstance(owner, (ast.If, ast.With, ast.AsyncWith, ast.Try)):
            return None  # (a loop may carry another value around, a function boundary ends the search)
        st = owner
    return None


def _dominating_unchanged(f: FuncInfo, d: ast.Assign, use: ast.AST, var: str) -> bool:
    """No store to `var` between the assignment `d` and the statement of `use` (which `d` precedes in one statement list)."""
    st = use if isinstance(use, ast.stmt) else stmt_of(use)
    chain = [st, *[a for a in ancestors(st)]]
    owner = parent(d)
    blk = next((b for fld in ("body", "orelse", "finalbody") for b in [getattr(owner, fld, None)] if isinstance(b, list) and any(x is d for x in b)), None)
    if blk is None:
        return False
    i = next(k for k, x in enumerate(blk) if x is d)
    for nxt in blk[i + 1 :]:
        if any(nxt is c for c in chain):
            # inside the statement that holds the use: only what precedes the use on the way down matters - be strict
            inner = [x for x in ast.walk(nxt) if isinstance(x, ast.Name) and x.id == var and isinstance(x.ctx, (ast.Store, ast.Del))]
            return all(getattr(x, "lineno", 0) >= getattr(st, "lineno", 0) for x in inner)
        if any(isinstance(x, ast.Name) and x.id == var and isinstance(x.ctx, (ast.Store, ast.Del)) for x in ast.walk(nxt)):
            return False
    return False


def _memo_candidates(repo: Repo | None, f: FuncInfo, hay: str) -> dict[str, str]:
    """Dict parameters / locals of `f` that may serve as a memo `prefix of a name -> boundary index of it`: the syntactic part of
    the check - {dict name: index variable stored into it}. Required: the only mutation of the dict in `f` is `D[key] = v`, always
    the same local `v`; `v` never grows (it starts at `len(hay)` and is afterwards only assigned `hay.rfind(".", 0, v)`, a read
    of the memo at `hay[:v]`, or None - so what is stored is never longer than the keys, which are cut at earlier values of `v`);
    the dict object is created empty and handed to nothing but this function (followed through the parameters of up to 3 callers).
    That keys are dot-bounded prefixes and values boundary indices is verified by the caller with the interpreted environments."""
    fn = f.node
    if repo is None or not isinstance(fn, (ast.FunctionDef, ast.AsyncFunctionDef)):
        return {}
    out: dict[str, str] = {}
    stores: dict[str, list[ast.Assign]] = {}
    for n in own_nodes(fn):
        if isinstance(n, ast.Assign) and len(n.targets) == 1 and isinstance(n.targets[0], ast.Subscript) and isinstance(n.targets[0].value, ast.Name) and not isinstance(n.targets[0].slice, ast.Slice):
            stores.setdefault(n.targets[0].value.id, []).append(n)

    def cut_at(e: ast.expr, v: str, depth: int = 0) -> bool:
        """`e` is hay[:v] (directly or a local whose every assignment is that)."""
        if isinstance(e, ast.Subscript) and isinstance(e.slice, ast.Slice) and e.slice.lower is None and e.slice.step is None and isinstance(e.slice.upper, ast.Name) and e.slice.upper.id == v and norm(e.value) == hay:
            return True
        if isinstance(e, ast.Name) and depth < 2 and e.id not in f.param_names:
            d_ = _dominating_assign(f, e, e.id)
            # (the index variable must not change between the cut and the use either)
            return d_ is not None and cut_at(d_.value, v, depth + 1) and _dominating_unchanged(f, d_, e, v)
        return False

    def never_grows(e: ast.expr, v: str, D: str, first: bool, depth: int = 0) -> bool:
        if depth > 3:
            return False
        if isinstance(e, ast.Constant) and e.value is None:
            return True
        if isinstance(e, ast.Call) and _call_name(e) == "len" and len(e.args) == 1 and norm(e.args[0]) == hay:
            return first
        if isinstance(e, ast.Call) and isinstance(e.func, ast.Attribute) and e.func.attr == "rfind" and norm(e.func.value) == hay and len(e.args) == 3 and _const_str(e.args[0]) == "." and isinstance(e.args[1], ast.Constant) and e.args[1].value == 0 and isinstance(e.args[2], ast.Name) and e.args[2].id == v:
            return True
        if isinstance(e, ast.IfExp):
            return never_grows(e.body, v, D, False, depth + 1) and never_grows(e.orelse, v, D, False, depth + 1)
        if isinstance(e, ast.Subscript) and isinstance(e.value, ast.Name) and e.value.id == D and not isinstance(e.slice, ast.Slice):
            return cut_at(e.slice, v)
        if isinstance(e, ast.Name) and e.id != v and e.id not in f.param_names:
            vals = [a.value for a in own_nodes(fn) if isinstance(a, (ast.Assign, ast.AnnAssign)) and a.value is not None and any(isinstance(t, ast.Name) and t.id == e.id for t in (a.targets if isinstance(a, ast.Assign) else [a.target]))]
            others = [x for x in own_nodes(fn) if isinstance(x, ast.Name) and x.id == e.id and isinstance(x.ctx, ast.Store)]
            return bool(vals) and len(vals) == len(others) and all(never_grows(x, v, D, False, depth + 1) for x in vals)
        return False

    def created_empty_for(g: FuncInfo, param: str, depth: int = 0) -> bool:
        """Every caller passes a dict it created empty (or received the same way) and uses for nothing else."""
        if depth > 3:
            return False
        sites = _callers_args(repo, g, param)
        if not sites:
            return False
        for h, a in sites:
            if not isinstance(a, ast.Name) or isinstance(h.node, ast.Lambda):
                return False
            loads = [x for x in own_nodes(h.node) if isinstance(x, ast.Name) and x.id == a.id and isinstance(x.ctx, ast.Load)]
            for x in loads:
                c = parent(x)
                if not (isinstance(c, ast.Call) and (x in c.args or any(k.value is x for k in c.keywords))):
                    return False
                cs = origins(repo)._callees(h, c)
                if len(cs) != 1 or cs[0].fq != g.fq:
                    return False
            if a.id in h.param_names:
                if not created_empty_for(h, a.id, depth + 1):
                    return False
                continue
            binds = [b for b in own_nodes(h.node) if isinstance(b, (ast.Assign, ast.AnnAssign)) and b.value is not None and any(isinstance(t, ast.Name) and t.id == a.id for t in (b.targets if isinstance(b, ast.Assign) else [b.target]))]
            stores_ = [x for x in own_nodes(h.node) if isinstance(x, ast.Name) and x.id == a.id and isinstance(x.ctx, ast.Store)]
            if len(binds) != 1 or len(stores_) != 1:
                return False
            v = binds[0].value
            if not ((isinstance(v, ast.Dict) and not v.keys) or (isinstance(v, ast.Call) and _call_name(v) == "dict" and not v.args and not v.keywords)):
                return False
        return True

    for D, writes in stores.items():
        vs = {norm(w.value) for w in writes if isinstance(w.value, ast.Name)}
        if len(vs) != 1 or not all(isinstance(w.value, ast.Name) for w in writes):
            continue
        v = writes[0].value.id
        if v in f.param_names:
            continue
        # no other mutation / rebinding of the dict
        bad = False
        for x in own_nodes(fn):
            if isinstance(x, ast.Name) and x.id == D:
                p_ = parent(x)
                if isinstance(x.ctx, (ast.Store, ast.Del)):
                    bad = True
                elif isinstance(p_, ast.Subscript) and p_.value is x:
                    if isinstance(p_.ctx, ast.Del):
                        bad = True
                elif isinstance(p_, ast.Compare) and x in p_.comparators and all(isinstance(o, (ast.In, ast.NotIn)) for o in p_.ops):
                    pass
                else:
                    bad = True  # handed on, iterated, a method is called on it ...
        if bad:
            continue
        assigns = [a for a in own_nodes(fn) if isinstance(a, (ast.Assign, ast.AnnAssign)) and a.value is not None and any(isinstance(t, ast.Name) and t.id == v for t in (a.targets if isinstance(a, ast.Assign) else [a.target]))]
        stores_v = [x for x in own_nodes(fn) if isinstance(x, ast.Name) and x.id == v and isinstance(x.ctx, ast.Store)]
        if not assigns or len(assigns) != len(stores_v):
            continue
        assigns.sort(key=lambda a: a.lineno)
        if assigns[0] not in fn.body:
            continue  # (the initial value is assigned once, before any loop)
        if not all(never_grows(a.value, v, D, i == 0) for i, a in enumerate(assigns)):
            continue
        if D in f.param_names:
            if not created_empty_for(f, D):
                continue
        else:
            continue  # (a local memo is empty in every call: nothing to read)
        out[D] = v
    return out


def _index_values_at(f: FuncInfo, var: str, hay: str, at: ast.AST, repo: Repo | None = None) -> frozenset | None:
    """Which kinds of values the index variable `var` can hold when the statement that contains `at` is reached - a small
    path-sensitive interpretation of the function body. Every local is mapped to a set of kinds: neg (-1: separator not found /
    sentinel), zero (constant 0), sep (position of a '.' of `hay`: find / rfind result that is not -1, index / rindex),
    len (len(hay)), other (anything else). Values: `hay.find(".", ..)`, `hay.index(".")`, `len(hay)`, -1, 0, another local,
    conditional expressions, `max(i, 0)`. Tests of a local against integer constants (`i < 0`, `i == -1`, `i != -1`, `i >= 0`,
    either side, truthiness, `not`, `and` / `or`, walrus) refine the sets on the two branches of if / while / conditional
    expressions; loops are iterated to a fixpoint, break / continue / return / raise end a path; an exception handler may be
    entered after any assignment of the try body. None: the variable may hold something else there (no statement is made then)."""
    fn = f.node
    if not isinstance(fn, (ast.FunctionDef, ast.AsyncFunctionDef)) or var in f.param_names:
        return None
    target = at if isinstance(at, ast.stmt) else stmt_of(at)
    if target is None:
        return None
    OTHER = frozenset({"other"})
    MEMO_VALUE = frozenset({"sep", "len", "none"})  # what a verified memo `prefix of the name -> boundary index of it | None` holds
    memos: dict[str, str] = dict(_memo_candidates(repo, f, hay))  # assumed while interpreting, verified afterwards
    all_at: dict[int, dict] = {}
    HAS_DOT, YES, NO, BOTH = "<'.' in name>", frozenset({"yes"}), frozenset({"no"}), frozenset({"yes", "no"})
    WHOLE = "<results of whole-name searches>"  # the locals that hold the result of `name.find(".")` / `name.rfind(".")` without bounds
    seen_at: list = [None]
    poisoned = {n_ for x in ast.walk(fn) if isinstance(x, (ast.Nonlocal, ast.Global)) for n_ in x.names}  # (changed behind our back)
    if var in poisoned:
        return None

    def get(env: dict, v: str) -> frozenset:
        return OTHER if v in poisoned else env.get(v, OTHER)

    def join_env(a, b):
        if a is None:
            return b
        if b is None:
            return a
        out = {k: a.get(k, BOTH if k == HAS_DOT else OTHER) | b.get(k, BOTH if k == HAS_DOT else OTHER) for k in set(a) | set(b) if k != WHOLE}
        out[WHOLE] = a.get(WHOLE, frozenset()) & b.get(WHOLE, frozenset())
        return out

    def can(kind: str, op: type, k: int, want: bool) -> bool:
        """Some value of this kind makes `value <op> k` evaluate to `want`."""
        table = {ast.Lt: lambda x: x < k, ast.LtE: lambda x: x <= k, ast.Gt: lambda x: x > k, ast.GtE: lambda x: x >= k, ast.Eq: lambda x: x == k, ast.NotEq: lambda x: x != k}
        fn_ = table.get(op)
        if fn_ is None or kind in ("other", "none"):
            return True
        if kind == "neg":
            return fn_(-1) is want
        if kind == "zero":
            return fn_(0) is want
        # any non-negative integer: the truth value changes at most once around k
        return any(fn_(x) is want for x in (0, max(k - 1, 0), max(k, 0), max(k, 0) + 1))

    def bind_walrus(e: ast.AST, env: dict) -> dict:
        """Assignment expressions somewhere inside `e` (weak update: they may or may not have been evaluated)."""
        for x in ast.walk(e):
            if isinstance(x, ast.NamedExpr) and isinstance(x.target, ast.Name):
                env = {**env, x.target.id: get(env, x.target.id) | value(x.value, env)[0], WHOLE: env.get(WHOLE, frozenset()) - {x.target.id}}
            elif isinstance(x, (ast.ListComp, ast.SetComp, ast.DictComp, ast.GeneratorExp)):
                for g in x.generators:  # (a comprehension variable of the same name is another variable: nothing is known about loads of it)
                    for t in ast.walk(g.target):
                        if isinstance(t, ast.Name) and t.id in env:
                            env = {**env, t.id: OTHER}
        return env

    def is_whole_search(v: ast.expr) -> bool:
        return isinstance(v, ast.Call) and isinstance(v.func, ast.Attribute) and norm(v.func.value) == hay and len(v.args) == 1 and not v.keywords and _const_str(v.args[0]) == "." and v.func.attr in ("find", "rfind")

    def value(v: ast.expr, env: dict) -> tuple[frozenset, dict]:
        """(kinds of the value of `v`, environment after evaluating it)."""
        if isinstance(v, ast.NamedExpr) and isinstance(v.target, ast.Name):
            k, env = value(v.value, env)
            return k, assign(v.target, k, env, whole=is_whole_search(v.value))
        if isinstance(v, ast.Name):
            return get(env, v.id), env
        if isinstance(v, ast.IfExp):
            a = refine(v.test, env, True)
            b = refine(v.test, env, False)
            ka, ea = value(v.body, a) if a is not None else (frozenset(), None)
            kb, eb = value(v.orelse, b) if b is not None else (frozenset(), None)
            out = join_env(ea, eb)
            return ka | kb, out if out is not None else env
        if isinstance(v, ast.Call) and isinstance(v.func, ast.Attribute) and norm(v.func.value) == hay and v.args and _const_str(v.args[0]) == "." and v.func.attr in SEARCH_METHODS:
            k = {"neg", "sep"} if v.func.attr in ("find", "rfind") else {"sep"}
            if len(v.args) == 1 and not v.keywords:  # the whole name is searched: `"." in name` was possibly decided before
                dot = env.get(HAS_DOT, BOTH)
                k = k - ({"neg"} if dot == YES else set()) - ({"sep"} if dot == NO else set())
            return frozenset(k), bind_walrus(v, env)
        if isinstance(v, ast.Call) and isinstance(v.func, ast.Name) and v.func.id == "len" and len(v.args) == 1 and not v.keywords and norm(v.args[0]) == hay:
            return frozenset({"len"}), env
        if isinstance(v, ast.Constant) and v.value is None:
            return frozenset({"none"}), env
        if isinstance(v, ast.Subscript) and isinstance(v.value, ast.Name) and v.value.id in memos and not isinstance(v.slice, ast.Slice):
            return MEMO_VALUE, bind_walrus(v.slice, env)
        if isinstance(v, ast.Call) and isinstance(v.func, ast.Name) and v.func.id == "max" and len(v.args) == 2 and not v.keywords and any(isinstance(a, ast.Constant) and a.value == 0 and not isinstance(a.value, bool) for a in v.args):
            inner = next(a for a in v.args if not (isinstance(a, ast.Constant) and a.value == 0))
            k, env = value(inner, env)
            return frozenset("zero" if x == "neg" else x for x in k), env
        try:
            k = ast.literal_eval(v)
            if not isinstance(k, bool) and isinstance(k, int) and k in (-1, 0):
                return frozenset({"neg" if k == -1 else "zero"}), env
        except Exception:  # noqa: BLE001
            pass
        return OTHER, bind_walrus(v, env)

    def refine(test: ast.expr, env, want: bool):
        """Environment on the branch where `test` evaluates to `want` (None = unreachable)."""
        if env is None:
            return None
        if isinstance(test, ast.Constant):
            return env if bool(test.value) is want else None
        if isinstance(test, ast.UnaryOp) and isinstance(test.op, ast.Not):
            return refine(test.operand, env, not want)
        if isinstance(test, ast.BoolOp):
            conj = isinstance(test.op, ast.And)
            if conj == want:  # every operand has the value `want`
                for v in test.values:
                    env = refine(v, env, want)
                return env
            out = None  # operand i is the first with the other value
            cur = env
            for v in test.values:
                out = join_env(out, refine(v, cur, want))
                cur = refine(v, cur, not want)
            return out
        if isinstance(test, ast.NamedExpr) and isinstance(test.target, ast.Name):
            _k, env = value(test, env)
            return refine(test.target, env, want)
        if isinstance(test, ast.Name) and test.id in env and test.id not in poisoned:  # truthiness of an index
            kept = frozenset(k for k in env[test.id] if not ((k == "zero" and want) or (k == "neg" and not want)))
            return {**env, test.id: kept} if kept else None
        dot_test = None  # does the test say whether the name holds a separator at all?
        if isinstance(test, ast.Compare) and len(test.ops) == 1 and isinstance(test.ops[0], (ast.In, ast.NotIn)) and _const_str(test.left) == "." and norm(test.comparators[0]) == hay:
            dot_test = isinstance(test.ops[0], ast.In)
        elif isinstance(test, ast.Call) and isinstance(test.func, ast.Attribute) and test.func.attr == "count" and norm(test.func.value) == hay and len(test.args) == 1 and _const_str(test.args[0]) == ".":
            dot_test = True
        if dot_test is not None:
            has = dot_test is want
            if env.get(HAS_DOT, BOTH) == (NO if has else YES):
                return None
            env = {**env, HAS_DOT: YES if has else NO}
            for w in env.get(WHOLE, frozenset()):  # results of earlier searches of the whole name
                kept = env[w] - ({"neg"} if has else {"sep"})
                if not kept:
                    return None
                env[w] = kept
            return env
        if isinstance(test, ast.Compare) and len(test.ops) == 1 and isinstance(test.ops[0], (ast.Is, ast.IsNot, ast.Eq, ast.NotEq)):
            for x, y in ((test.left, test.comparators[0]), (test.comparators[0], test.left)):
                if isinstance(y, ast.Constant) and y.value is None and isinstance(x, ast.Name) and x.id in env and x.id not in poisoned:
                    is_none = isinstance(test.ops[0], (ast.Is, ast.Eq)) is want
                    kept = frozenset(k for k in env[x.id] if (k in ("none", "other")) or not is_none) if is_none else frozenset(k for k in env[x.id] if k != "none")
                    return {**env, x.id: kept} if kept else None
        if isinstance(test, ast.Compare) and len(test.ops) == 1:
            l, op, r = test.left, type(test.ops[0]), test.comparators[0]
            for x, y, flip in ((l, r, False), (r, l, True)):
                try:
                    k = ast.literal_eval(y)
                except Exception:  # noqa: BLE001
                    continue
                if isinstance(k, bool) or not isinstance(k, int):
                    continue
                if isinstance(x, ast.NamedExpr) and isinstance(x.target, ast.Name):
                    _k, env = value(x, env)
                    x = x.target
                if isinstance(x, ast.Name) and x.id in env and x.id not in poisoned:
                    o = {ast.Lt: ast.Gt, ast.Gt: ast.Lt, ast.LtE: ast.GtE, ast.GtE: ast.LtE}.get(op, op) if flip else op
                    kept = frozenset(v for v in env[x.id] if can(v, o, k, want))
                    return {**env, x.id: kept} if kept else None
                break
        return bind_walrus(test, env)

    def assign(t: ast.expr, kinds: frozenset | None, env: dict, whole: bool = False) -> dict:
        if isinstance(t, ast.Name):
            if t.id == hay:  # the searched name itself changes: positions in it and its length are stale
                env = {k: (v if not (v & {"sep", "len"}) else OTHER) for k, v in env.items() if k not in (HAS_DOT, WHOLE)}
            env = {**env, t.id: kinds if kinds is not None else OTHER}
            env[WHOLE] = env.get(WHOLE, frozenset()) - {t.id} | ({t.id} if whole else frozenset())
            return env
        for x in ast.walk(t):
            if isinstance(x, ast.Name) and isinstance(x.ctx, ast.Store):
                env = {**env, x.id: OTHER}
        return env

    def block(stmts: list, env):
        """(fall-through, break, continue) environments of a statement list."""
        brk = cont = None
        for s in stmts:
            if env is None:
                break
            env, b, c = stmt(s, env)
            brk, cont = join_env(brk, b), join_env(cont, c)
        return env, brk, cont

    def loop(s, env, test: ast.expr | None):
        head = env
        brk_all = back = None
        for _ in range(12):
            inside = refine(test, head, True) if test is not None else assign(s.target, None, head)
            out, b, c = block(s.body, inside)
            brk_all = join_env(brk_all, b)
            back = join_env(out, c)  # the environments at the end of a round
            new_head = join_env(head, back)
            if new_head == head:
                break
            head = new_head
        else:
            raise _GiveUp
        if s is target:  # (the iterable of a for loop is evaluated once, the test of a while loop before every round)
            seen_at[0] = join_env(seen_at[0], head if test is not None else env)
        if test is not None:
            done = refine(test, head, False)
        else:  # a for loop ends after its last round - or at once, unless its range is known not to be empty
            done = back if _range_nonempty(f, s) else head
        e_out, e_b, e_c = block(s.orelse, done)
        return join_env(e_out, brk_all), e_b, e_c

    def stmt(s: ast.stmt, env):
        all_at[id(s)] = join_env(all_at.get(id(s)), env)
        if s is target and not isinstance(s, (ast.While, ast.For, ast.AsyncFor)):
            seen_at[0] = join_env(seen_at[0], env)
        if isinstance(s, (ast.FunctionDef, ast.AsyncFunctionDef, ast.ClassDef)):
            return assign(ast.Name(id=s.name, ctx=ast.Store()), None, env), None, None
        if isinstance(s, (ast.Assign, ast.AnnAssign)):
            if s.value is None:
                return env, None, None
            tgts = s.targets if isinstance(s, ast.Assign) else [s.target]
            if len(tgts) == 1 and isinstance(tgts[0], (ast.Tuple, ast.List)) and isinstance(s.value, (ast.Tuple, ast.List)) and len(tgts[0].elts) == len(s.value.elts) and not any(isinstance(x, ast.Starred) for x in [*tgts[0].elts, *s.value.elts]):
                ks = []
                for v in s.value.elts:  # (all right-hand sides are evaluated first)
                    k, env = value(v, env)
                    ks.append(k)
                for t, k in zip(tgts[0].elts, ks):
                    env = assign(t, k, env)
                return env, None, None
            k, env = value(s.value, env)
            for t in tgts:
                env = assign(t, k, env, whole=is_whole_search(s.value))
            return env, None, None
        if isinstance(s, ast.AugAssign):
            env = bind_walrus(s.value, env)
            return assign(s.target, None, env), None, None
        if isinstance(s, ast.If):
            a, ab, ac = block(s.body, refine(s.test, env, True))
            b, bb, bc = block(s.orelse, refine(s.test, env, False))
            return join_env(a, b), join_env(ab, bb), join_env(ac, bc)
        if isinstance(s, ast.While):
            return loop(s, env, s.test)
        if isinstance(s, (ast.For, ast.AsyncFor)):
            return loop(s, bind_walrus(s.iter, env), None)
        if isinstance(s, ast.Break):
            return None, env, None
        if isinstance(s, ast.Continue):
            return None, None, env
        if isinstance(s, (ast.Return, ast.Raise)):
            return None, None, None
        if isinstance(s, (ast.With, ast.AsyncWith)):
            for i in s.items:
                env = bind_walrus(i.context_expr, env)
                if i.optional_vars is not None:
                    env = assign(i.optional_vars, None, env)
            return block(s.body, env)
        if isinstance(s, ast.Try) or s.__class__.__name__ == "TryStar":
            out, b, c = block(s.body, env)
            # an exception can leave the body after any of its assignments: weak update with everything the body may store
            mid = env
            for x in ast.walk(ast.Module(body=s.body, type_ignores=[])):
                if isinstance(x, ast.Name) and isinstance(x.ctx, (ast.Store, ast.Del)):
                    st_ = parent(x)
                    k = OTHER
                    if isinstance(st_, (ast.Assign, ast.AnnAssign, ast.NamedExpr)) and getattr(st_, "value", None) is not None and (x is getattr(st_, "target", None) or x in getattr(st_, "targets", [])):
                        k = _try_value(st_.value)
                    mid = {**mid, x.id: get(mid, x.id) | k, WHOLE: mid.get(WHOLE, frozenset()) - {x.id}}
            e_out, e_b, e_c = block(s.orelse, out)
            res, rb, rc = e_out, join_env(b, e_b), join_env(c, e_c)
            for h in s.handlers:
                h_env = assign(ast.Name(id=h.name, ctx=ast.Store()), None, mid) if h.name else mid
                h_out, h_b, h_c = block(h.body, h_env)
                res, rb, rc = join_env(res, h_out), join_env(rb, h_b), join_env(rc, h_c)
            if s.finalbody:
                f_out, f_b, f_c = block(s.finalbody, join_env(res, mid))
                if f_out is None:
                    res = None
                elif res is not None:  # (on the normal path only what the finally block itself assigns changes)
                    stored = {x.id for st_ in s.finalbody for x in ast.walk(st_) if isinstance(x, ast.Name) and isinstance(x.ctx, (ast.Store, ast.Del))}
                    res = {k: (f_out.get(k, OTHER) if k in stored else v) for k, v in res.items()}
                rb, rc = join_env(rb, f_b), join_env(rc, f_c)
            return res, rb, rc
        if isinstance(s, ast.Delete):
            for t in s.targets:
                env = assign(t, None, env)
            return env, None, None
        if isinstance(s, (ast.Expr, ast.Assert)):
            return bind_walrus(s, env), None, None
        if isinstance(s, (ast.Pass, ast.Import, ast.ImportFrom, ast.Global, ast.Nonlocal)):
            for a in getattr(s, "names", []):
                if isinstance(a, ast.alias):
                    env = assign(ast.Name(id=(a.asname or a.name).split(".")[0], ctx=ast.Store()), None, env)
            return env, None, None
        raise _GiveUp  # match statements etc.

    def _try_value(v: ast.expr) -> frozenset:
        """Kinds of a value assigned inside a try body, for the weak update at the handlers (locals read there: anything)."""
        k, _e = value(v, {})
        return k

    def kinds_before(st_: ast.AST, v: str) -> frozenset:
        e_ = all_at.get(id(st_))
        return get(e_, v) if e_ is not None else OTHER

    def prefix_cut_ok(e: ast.expr, st_: ast.AST, depth: int = 0) -> bool:
        """`e`, evaluated at statement `st_`, is a prefix of the name that ends at a separator or is the whole name."""
        if isinstance(e, ast.Subscript) and isinstance(e.slice, ast.Slice) and e.slice.lower is None and e.slice.step is None and isinstance(e.slice.upper, ast.Name) and norm(e.value) == hay:
            return kinds_before(st_, e.slice.upper.id) <= {"sep", "len"} and bool(kinds_before(st_, e.slice.upper.id))
        if isinstance(e, ast.Name) and depth < 2 and e.id not in f.param_names:
            # the variable of a loop over a list that only ever receives such prefixes
            for a in ancestors(st_):
                if a is fn:
                    break
                if isinstance(a, (ast.For, ast.AsyncFor)) and isinstance(a.target, ast.Name) and a.target.id == e.id and isinstance(a.iter, ast.Name) and not any(st_ is x or any(st_ is y for y in ast.walk(x)) for x in a.orelse):
                    L = a.iter.id
                    if L in f.param_names:
                        return False
                    appends = []
                    for x in own_nodes(fn):
                        if isinstance(x, ast.Name) and x.id == L:
                            p_ = parent(x)
                            if isinstance(x.ctx, ast.Store):
                                asg = parent(x)
                                if not (isinstance(asg, (ast.Assign, ast.AnnAssign)) and isinstance(asg.value, ast.List) and not asg.value.elts):
                                    return False
                            elif isinstance(p_, ast.Attribute) and p_.attr == "append" and isinstance(parent(p_), ast.Call) and len(parent(p_).args) == 1:
                                appends.append(parent(p_))
                            elif x is a.iter:
                                pass
                            else:
                                return False
                    return bool(appends) and all(prefix_cut_ok(c.args[0], stmt_of(c), depth + 1) for c in appends)
            d_ = _dominating_assign(f, st_, e.id)
            if d_ is None or not isinstance(d_.value, ast.Subscript) or not isinstance(d_.value.slice, ast.Slice) or not isinstance(d_.value.slice.upper, ast.Name):
                return False
            return prefix_cut_ok(d_.value, d_, depth + 1)  # (the prefix was cut where it was assigned)
        return False

    for _round in range(len(memos) + 1):
        all_at.clear()
        seen_at[0] = None
        try:
            block(fn.body, {})
        except (_GiveUp, RecursionError):
            return None
        failed = None
        for D, v in memos.items():
            for w in [n_ for n_ in own_nodes(fn) if isinstance(n_, ast.Assign) and len(n_.targets) == 1 and isinstance(n_.targets[0], ast.Subscript) and isinstance(n_.targets[0].value, ast.Name) and n_.targets[0].value.id == D]:
                kv = kinds_before(w, v)
                if not kv or not kv <= MEMO_VALUE or not prefix_cut_ok(w.targets[0].slice, w):
                    failed = D
                    break
            if failed:
                break
        if failed is None:
            break
        del memos[failed]  # not a memo of boundary indices: its values are unknown - interpret again without it
    env_at = seen_at[0]
    if env_at is None:
        return None
    kinds = get(env_at, var)
    return None if "other" in kinds or not kinds else kinds


def _boundary_index_var(repo: Repo, f: FuncInfo, var: str, hay: str, at: ast.AST, nonneg: bool = False) -> str | None:
    """Every binding of `var` is the position of a separator in `hay` (`hay.find(".", ..)` / `hay.rfind(".", ..)`), the length of
    `hay` (the whole name) or a not-found sentinel (-1 / 0): 'safe' if `at` is only reached with a found position,
    'unsafe' if -1 can arrive there, None if the variable is something else."""
    if isinstance(f.node, ast.Lambda) or var in f.param_names:
        return None
    binds = origins(repo)._bindings(f, var)
    vals = [src for kind, src, p_ in binds if kind == "value" and not p_]

    def sentinel(v: ast.expr) -> bool:
        try:
            return ast.literal_eval(v) in (-1, 0) and not isinstance(ast.literal_eval(v), bool)
        except Exception:  # noqa: BLE001
            return False

    def whole(v: ast.expr) -> bool:
        return isinstance(v, ast.Call) and _call_name(v) == "len" and len(v.args) == 1 and norm(v.args[0]) == hay

    finds = [v for v in vals if isinstance(v, ast.Call) and isinstance(v.func, ast.Attribute) and v.func.attr in ("find", "rfind") and norm(v.func.value) == hay and v.args and _const_str(v.args[0]) == "."]
    if not (binds and len(vals) == len(binds) and finds and all(v in finds or sentinel(v) or whole(v) for v in vals)):
        # other spellings (index / rindex in a try, conditional expressions, copies of another index variable, `max(i, 0)`):
        # decided by the reaching values alone
        if not binds or any(kind != "value" for kind, _src, _p in binds):
            return None
        kinds = _index_values_at(f, var, hay, at, repo)
        if not kinds or not (kinds & {"sep", "neg", "len"}):
            return None
        if "neg" not in kinds or (nonneg and "zero" not in kinds):
            return "safe"
        return "safe" if _found_guard(repo, f, at, hay, {var}) else "unsafe"
    if nonneg or _found_guard(repo, f, at, hay, {var}):
        return "safe"
    # reaching values: on every path to the cut the not-found result was replaced (`if i < 0: i = len(name)`) or excluded
    kinds = _index_values_at(f, var, hay, at, repo)
    if kinds and "neg" not in kinds:
        return "safe"
    return "unsafe"


def _index_from_helper(repo: Repo, f: FuncInfo, call: ast.Call, hay: str, boundary_funcs: set[str] | None = None) -> str | None:
    """`call` invokes a repo helper with the name `hay` as argument; every (non-None) result of the helper is a boundary index of
    that name - a separator position / the whole length walked with find / rfind - or the length of a string that is the name
    or one of its ancestors by a boundary-safe test: 'safe'; the length of a raw string prefix: 'unsafe'; else None."""
    cs = origins(repo)._callees(f, call)
    if len(cs) != 1 or isinstance(cs[0].node, ast.Lambda):
        return None
    g = cs[0]
    pos_ = _positional(g)
    hp = next((pos_[i] for i, a in enumerate(call.args) if i < len(pos_) and norm(a) == hay), None) or next((k.arg for k in call.keywords if norm(k.value) == hay), None)
    if hp is None or any(isinstance(x, (ast.Yield, ast.YieldFrom)) for x in own_nodes(g.node)):
        return None
    rets = [r for r in own_nodes(g.node) if isinstance(r, ast.Return) and r.value is not None and not (isinstance(r.value, ast.Constant) and r.value.value is None)]
    if not rets:
        return None
    verdicts = []
    for r in rets:
        v = r.value
        core, off = _strip_offset(v)
        if isinstance(v, ast.Constant) and v.value == 0:
            verdicts.append("safe")
        elif isinstance(core, ast.Name) and off == 0:
            verdicts.append(_boundary_index_var(repo, g, core.id, hp, r) or "unknown")
        elif isinstance(core, ast.Call) and _call_name(core) == "len" and len(core.args) == 1 and off == 0:
            if norm(core.args[0]) == hp:
                verdicts.append("safe")
            else:
                verdicts.append(_slice_by_len_at(repo, g, r, ast.Name(id=hp, ctx=ast.Load()), core.args[0], boundary_funcs or set(), 1)[0])
        else:
            verdicts.append("unknown")
    if all(x == "safe" for x in verdicts):
        return "safe"
    if any(x == "unsafe" for x in verdicts):
        return "unsafe"
    return None


def _index_cut(repo: Repo, f: FuncInfo, node: ast.Subscript, bound: ast.expr, is_upper: bool) -> tuple[str, str]:
    """Verdict for `name[:bound]` / `name[bound:]` where bound is neither a constant nor a len(): the cut must be at a separator."""
    hay = norm(node.value)
    texts = {norm(bound)}
    core, off = _strip_offset(bound)
    nonneg = False  # max(i, 0): "not found" (-1) becomes the empty prefix, which cuts nothing off a component
    if isinstance(core, ast.Call) and isinstance(core.func, ast.Name) and core.func.id == "max" and len(core.args) == 2 and not core.keywords and any(isinstance(a, ast.Constant) and a.value == 0 for a in core.args) and off == 0:
        core = next(a for a in core.args if not (isinstance(a, ast.Constant) and a.value == 0))
        core, off = _strip_offset(core)
        nonneg = True
    if isinstance(core, ast.Name):
        d = local_defs(repo, f).get(core.id)
        if d is None and not isinstance(f.node, ast.Lambda) and core.id not in f.param_names:
            # assigned several times, every time the position of a separator in the same string: `i = s.find("."); while i != -1: ..; i = s.find(".", i + 1)`
            if off == 1 and _boundary_index_var(repo, f, core.id, hay, node, nonneg=True) is not None:
                return "safe", "cut one past the separator found by find/rfind"
            if off == 0:
                v_ = _boundary_index_var(repo, f, core.id, hay, node, nonneg)
                if v_ == "safe":
                    return "safe", "cut at a separator found by find/rfind (or at the end of the name), reached only when one was found"
                if v_ == "unsafe":
                    return "unsafe", f"`{norm(node, 60)}`: find('.') is -1 for a name without (further) separator, the slice then cuts off the last character"
        if isinstance(d, ast.Call) and off == 0 and not (isinstance(d.func, ast.Attribute) and d.func.attr in SEARCH_METHODS):
            # the index is computed by a helper: `n = self._length_of_closest_aliased(name, aliased)` ... `name[:n]`
            v_ = _index_from_helper(repo, f, d, hay)
            if v_ == "safe":
                return "safe", "cut at an index returned by a helper: a separator position of this name (or its whole length / the length of one of its ancestors)"
            if v_ == "unsafe":
                return "unsafe", f"`{norm(node, 60)}`: the index returned by the helper is the length of a raw string prefix of the name (or a position that may be -1)"
        if d is not None:
            texts.add(core.id)
            c2, o2 = _strip_offset(d)
            if off is not None and o2 is not None:
                core, off = c2, off + o2
                texts.add(norm(core))
    if isinstance(core, ast.Call) and isinstance(core.func, ast.Attribute) and core.func.attr in SEARCH_METHODS and core.args:
        same = norm(core.func.value) == hay
        texts.add(norm(core))
        if _const_str(core.args[0]) != ".":
            return "unsafe", f"`{norm(node, 60)}` cuts a module name where another string occurs in it, not at a component boundary"
        if not same:
            return "unknown", f"`{norm(node, 60)}`: the index was searched in another string (`{norm(core.func.value, 30)}`)"
        if core.func.attr in ("index", "rindex"):
            return ("safe", "cut at the position of a separator (index raises when there is none)") if off in (0, 1) else ("unknown", f"`{norm(node, 60)}`: offset {off} from the separator")
        if off == 1:
            return "safe", "cut one past the separator found by find/rfind (position 0 when there is none: the whole name)"
        if off == 0:
            if nonneg or _found_guard(repo, f, node, hay, texts):
                return "safe", "cut at the separator found by find/rfind, reached only when one was found"
            return "unsafe", f"`{norm(node, 60)}`: {core.func.attr}('.') is -1 for a name without separator, the slice then cuts off its last character - the name is walked through its raw string prefixes"
        return "unknown", f"`{norm(node, 60)}`: offset {off} from the separator"
    if isinstance(core, ast.Name) and off is not None:
        lb = _loop_binding(f, core.id, core if parent(core) is not None else node)
        if lb is not None:
            tgt, it, owner = lb
            v = _positions_of(repo, f, node, core.id, tgt, it, hay, off, depth=0)
            if v is not None:
                return v
    if isinstance(core, ast.Call) and isinstance(core.func, ast.Attribute) and core.func.attr in ("start", "end") and not core.args and isinstance(core.func.value, ast.Name) and off == 0:
        lb = _loop_binding(f, core.func.value.id)
        src = lb[1] if lb is not None and isinstance(lb[0], ast.Name) else local_defs(repo, f).get(core.func.value.id)
        if isinstance(src, ast.Call) and (repo.resolve_name(f.module, src.func) or "") in ("re.finditer", "re.search", "re.match") and len(src.args) >= 2 and norm(src.args[1]) == hay:
            pat = _const_str(src.args[0])
            if pat in ("\\.", "[.]"):
                if core.func.attr == "start" or not is_upper:
                    return "safe", "cut at a position where the regular expression '\\.' matched the separator"
    # a local with one definition that is none of the above (`end = i if i != -1 else len(name)`, `end = max(i, 0)`): reaching values
    c0, o0 = _strip_offset(bound)
    if isinstance(c0, ast.Name) and o0 in (0, 1) and not isinstance(f.node, ast.Lambda) and local_defs(repo, f).get(c0.id) is not None:
        v_ = _boundary_index_var(repo, f, c0.id, hay, node, nonneg=(o0 == 1))
        if v_ == "safe":
            return "safe", "cut at a separator found by find/rfind/index (or at the end of the name): the not-found result -1 cannot reach this slice"
        if v_ == "unsafe":
            return "unsafe", f"`{norm(node, 60)}`: find('.') is -1 for a name without (further) separator, the slice then cuts off the last character"
    return "unknown", f"`{norm(node, 60)}`: cannot establish that the index `{norm(bound, 30)}` is the position of a separator"


def _positions_of(repo: Repo, f: FuncInfo, node: ast.AST, var: str, tgt: ast.expr, it: ast.expr, hay: str, off: int, depth: int) -> tuple[str, str] | None:
    """`var` ranges over character positions of `hay` (enumerate / range(len)) - safe iff a test that the position holds '.'
    guards `node` (or guarded the collection of the positions)."""
    from core.guards import atom as mk, atoms_of, f_or, implies

    from .common import guard_formula

    char_var = None
    positions = False
    hay_e = _parse_atom(hay)
    hay_src = _chars_of(repo, f, hay_e) if hay_e is not None else None  # the sliced value is the character list of a name
    hays = {hay} | ({norm(hay_src)} if hay_src is not None else set())

    def same(x: ast.expr) -> bool:
        """`x` is the sliced string, or the list of its characters (same positions)."""
        if norm(x) in hays:
            return True
        src = _chars_of(repo, f, x)
        return src is not None and norm(src) in hays

    if isinstance(it, ast.Call) and _call_name(it) == "enumerate" and it.args and same(it.args[0]) and isinstance(tgt, ast.Tuple) and len(tgt.elts) == 2 and isinstance(tgt.elts[0], ast.Name) and tgt.elts[0].id == var:
        positions = True
        if isinstance(tgt.elts[1], ast.Name):
            char_var = tgt.elts[1].id
    elif isinstance(it, ast.Call) and _call_name(it) == "range" and any(isinstance(c, ast.Call) and _call_name(c) == "len" and c.args and same(c.args[0]) for a in it.args for c in ast.walk(a)) and isinstance(tgt, ast.Name):
        positions = True
    if positions:
        facts = guard_formula(f, node)
        good = []
        for a in atoms_of(facts):
            e = _parse_atom(a)
            if isinstance(e, ast.Compare) and len(e.ops) == 1 and isinstance(e.ops[0], ast.Eq):
                pair = [e.left, e.comparators[0]]
                sides = {norm(x) for x in pair}
                if any(_char_value(repo, f, x) == "." for x in pair) and (sides & ({char_var} if char_var else set()) or any(isinstance(x, ast.Subscript) and norm(x.slice) == var and same(x.value) for x in pair)):
                    good.append(mk(a))
        try:
            if good and off in (0, 1) and implies(facts, f_or(good)):
                return "safe", "cut at a character position that holds the separator"
        except AnalysisError:
            return None
        return "unsafe", f"`{norm(node, 60)}`: every character position of the name is a cut point (no test that the position holds '.')"
    if isinstance(tgt, ast.Name) and tgt.id == var and off in (0, 1) and not isinstance(it, ast.Name) and _separator_positions_of(repo, f, it, _canon(repo, f, _parse_atom(hay) or ast.Name(id=hay, ctx=ast.Load()))):
        return "safe", "cut at one of the separator positions computed by a helper"
    # positions collected first: `dots = [i for i, c in enumerate(name) if c == "."]` ... `for p in dots: name[:p]`
    if depth == 0 and isinstance(tgt, ast.Name) and isinstance(it, ast.Name):
        d = local_defs(repo, f).get(it.id)
        if isinstance(d, (ast.ListComp, ast.GeneratorExp, ast.SetComp)) and len(d.generators) == 1 and isinstance(d.elt, ast.Name):
            g = d.generators[0]
            v = _positions_of(repo, f, d.elt, d.elt.id, g.target, g.iter, hay, off, depth=1)
            if v is not None:
                return (v[0], v[1] if v[0] == "safe" else f"`{norm(node, 60)}`: the positions in `{it.id}` are not tested to hold '.'")
    return None


def _len_field(repo: Repo, f: FuncInfo, e: ast.expr) -> ast.Call | None:
    """`self._end` where the only assignment of the field is `self._end = len(self._root)` in a method that also holds the only
    assignment(s) of `self._root`, all of them before it: the field is the length of that other field - returns `len(self._root)`."""
    if not (isinstance(e, ast.Attribute) and isinstance(e.value, ast.Name) and e.value.id == "self" and f.cls is not None and not isinstance(f.node, ast.Lambda)):
        return None
    key = ("len_field", id(repo), f.cls.fq, e.attr)
    if key in _cache:
        return _cache[key]
    out = None
    try:
        O = origins(repo)
        asg = O._field_assignments(f, e.attr)
        if len(asg) == 1:
            m, v = asg[0]
            if isinstance(v, ast.Call) and isinstance(v.func, ast.Name) and v.func.id == "len" and len(v.args) == 1 and not v.keywords and not _is_local(m, "len"):
                a = v.args[0]
                if isinstance(a, ast.Attribute) and isinstance(a.value, ast.Name) and a.value.id == "self" and a.attr != e.attr:
                    other = O._field_assignments(f, a.attr)
                    if other and all(m2 is m and getattr(v2, "lineno", 10**9) < getattr(v, "lineno", 0) for m2, v2 in other):
                        out = ast.Call(func=ast.Name(id="len", ctx=ast.Load()), args=[ast.Attribute(value=ast.Name(id="self", ctx=ast.Load()), attr=a.attr, ctx=ast.Load())], keywords=[])
    except Exception:  # noqa: BLE001
        out = None
    _cache[key] = out
    return out


def _attr_constant_collection(repo: Repo, f: FuncInfo, e: ast.Attribute) -> ast.Tuple | None:
    """`self.X` / `cls.X` / `Class.X` that is a class-level tuple / list / set / frozenset of string constants: the tuple of them."""
    classes = []
    if isinstance(e.value, ast.Name) and e.value.id in ("self", "cls") and f.cls is not None:
        classes = repo.mro(f.cls)
    elif isinstance(e.value, (ast.Name, ast.Attribute)):
        fq = repo.resolve_name(f.module, e.value)
        ci = repo.classes.get(fq) if fq else None
        if ci is not None:
            classes = repo.mro(ci)
    for ci in classes:
        if e.attr in ci.class_attrs:
            v = ci.class_attrs[e.attr]
            if isinstance(v, ast.Call) and isinstance(v.func, ast.Name) and v.func.id in ("frozenset", "tuple", "set", "list") and len(v.args) == 1:
                v = v.args[0]
            if isinstance(v, (ast.Tuple, ast.List, ast.Set)) and v.elts and all(_const_str(x) is not None for x in v.elts):
                if isinstance(e.value, ast.Name) and e.value.id == "self" and origins(repo)._field_assignments(f, e.attr)[:-1]:
                    return None  # (also assigned on instances)
                return ast.Tuple(elts=[ast.Constant(value=_const_str(x)) for x in v.elts], ctx=ast.Load())
            return None
    return None


def _bound_local(f: FuncInfo, n: ast.AST) -> str | None:
    """The local variable that is bound to exactly the value `n` by its only assignment: `v = n`, `v: T = n`,
    `v, w = n, other` (pairwise tuple assignment)."""
    if isinstance(f.node, ast.Lambda):
        return None
    st = stmt_of(n)
    var = None
    if isinstance(st, ast.Assign) and len(st.targets) == 1:
        t = st.targets[0]
        if st.value is n and isinstance(t, ast.Name):
            var = t.id
        elif isinstance(t, (ast.Tuple, ast.List)) and isinstance(st.value, (ast.Tuple, ast.List)) and len(t.elts) == len(st.value.elts) and not any(isinstance(x, ast.Starred) for x in [*t.elts, *st.value.elts]):
            for tt, vv in zip(t.elts, st.value.elts):
                if vv is n and isinstance(tt, ast.Name):
                    # (the right-hand sides are evaluated before any target is bound: no target may be read on the right)
                    tnames = {x.id for x in t.elts if isinstance(x, ast.Name)}
                    if not any(isinstance(x, ast.Name) and x.id in tnames for x in ast.walk(st.value)):
                        var = tt.id
    elif isinstance(st, ast.AnnAssign) and st.value is n and isinstance(st.target, ast.Name):
        var = st.target.id
    if var is None or var in f.param_names:
        return None
    if len([x for x in own_nodes(f.node) if isinstance(x, ast.Name) and x.id == var and isinstance(x.ctx, ast.Store)]) != 1:
        return None
    return var


def _len_calls(repo: Repo, f: FuncInfo, b: ast.expr | None) -> list[ast.Call]:
    """The len(..) calls a slice bound is computed from (directly or through a single-assignment local)."""
    if b is None:
        return []
    out = [c for c in ast.walk(b) if isinstance(c, ast.Call) and isinstance(c.func, ast.Name) and c.func.id == "len" and c.args]

    def fields(x: ast.AST) -> list[ast.Call]:  # a length kept in a field: `self._end = len(self._root)`
        return [c for a in ast.walk(x) if isinstance(a, ast.Attribute) for c in [_len_field(repo, f, a)] if c is not None]

    out += fields(b)
    for x in ast.walk(b):
        if isinstance(x, ast.Name):
            d = local_defs(repo, f).get(x.id)
            if d is not None and not isinstance(d, (ast.ListComp, ast.GeneratorExp, ast.SetComp, ast.DictComp)):
                out += [c for c in ast.walk(d) if isinstance(c, ast.Call) and isinstance(c.func, ast.Name) and c.func.id == "len" and c.args]
                out += fields(d)
    return out


def _len_bound(repo: Repo, f: FuncInfo, b: ast.expr | None, hay: str = "") -> ast.Call | None:
    """The len(other) call a slice bound is computed from; lengths of the sliced string itself do not count."""
    return next((c for c in _len_calls(repo, f, b) if norm(c.args[0]) != hay), None)


def _slice_as_prefix_test(repo: Repo, f: FuncInfo, n: ast.Subscript, _cmp: tuple | None = None) -> tuple[str, str] | None:
    """`name[:len(p)] == p` is `name.startswith(p)`, `name[:len(o) + 1] == o + "."` is `name.startswith(o + ".")`,
    `name[-len(s):] == s` is `name.endswith(s)`: classified like the method."""
    cmp_ = parent(n)
    if _cmp is not None:
        cmp_, other_side = _cmp
    else:
        if not (isinstance(cmp_, ast.Compare) and len(cmp_.ops) == 1 and isinstance(cmp_.ops[0], (ast.Eq, ast.NotEq))):
            # the slice is kept in a local that is only ever compared: `head = name[:len(p)]` ... `head == p`
            var = _bound_local(f, n)
            if var is None:
                return None
            uses = [x for x in own_nodes(f.node) if isinstance(x, ast.Name) and x.id == var and isinstance(x.ctx, ast.Load)]
            verdicts = []
            for u_ in uses:
                c_ = parent(u_)
                if not (isinstance(c_, ast.Compare) and len(c_.ops) == 1 and isinstance(c_.ops[0], (ast.Eq, ast.NotEq))):
                    return None
                o_ = c_.comparators[0] if c_.left is u_ else c_.left
                if o_ is u_:
                    return None
                verdicts.append(_slice_as_prefix_test(repo, f, n, _cmp=(c_, o_)))
            if not verdicts or any(v is None for v in verdicts):
                return None
            bad = next((v for v in verdicts if v[0] != "safe"), None)
            return bad or verdicts[0]
        other_side = cmp_.comparators[0] if cmp_.left is n else cmp_.left
        if other_side is n:
            return None
    lo, hi = n.slice.lower, n.slice.upper
    side = _expand(repo, f, other_side)
    if lo is None and hi is not None:
        core, off = _strip_offset(hi)
        if isinstance(core, ast.Name):
            d = local_defs(repo, f).get(core.id)
            if d is not None:
                c2, o2 = _strip_offset(d)
                if off is not None and o2 is not None:
                    core, off = c2, off + o2
        if isinstance(core, ast.Attribute) and _len_field(repo, f, core) is not None:
            core = _len_field(repo, f, core)  # a length kept in a field
        if isinstance(core, ast.Call) and _call_name(core) == "len" and core.args and off is not None:
            p_ = core.args[0]
            if off == 0 and norm(p_) in (norm(other_side), norm(side)):
                st = needle_status(repo, f, other_side)
                if st == "dot":
                    return "safe", "prefix compared by slicing; the prefix ends in '.'"
                if st in ("bare", "mixed", "unknown"):
                    reason = _raw_test_is_guarded(repo, f, cmp_, n.value, other_side) if isinstance(cmp_.ops[0], ast.Eq) else None
                    if reason is not None:
                        return "safe", reason
                if st in ("bare", "mixed"):
                    return "unsafe", f"`{norm(cmp_, 80)}`: raw string prefix test (by slicing) on a module name - 'pkg.ab' counts as part of 'pkg.a'" + (" (the compared string ends with the separator only on some paths)" if st == "mixed" else "")
                return None
            if off == 1 and _is_dotted_form(side, {norm(p_)}):
                return "safe", "prefix plus separator compared by slicing (whole dotted components)"
    if hi is None and isinstance(lo, ast.UnaryOp) and isinstance(lo.op, ast.USub):
        core = lo.operand
        if isinstance(core, ast.Call) and _call_name(core) == "len" and core.args and norm(core.args[0]) in (norm(other_side), norm(side)):
            if _starts_with_dot(side):
                return "safe", "suffix compared by slicing; it starts at a '.' boundary"
            return "unsafe", f"`{norm(cmp_, 80)}`: raw string suffix test (by slicing) on a module name"
    return None


# --------------------------------------------------------------------------- boundary evidence
#
# A raw prefix test (`H.startswith(N)`, `H[:len(N)] == N`) or a cut at len(N) is harmless where it is known that nothing or the
# separator follows the first len(N) characters of H. This knowledge ("evidence") may sit anywhere: in the conditions on the path
# to the test, in a nested `if` around everything that depends on the test, in the returned value of a predicate.


def _value_defs(repo: Repo, f: FuncInfo) -> dict[str, ast.expr]:
    """local_defs plus the targets of a tuple assignment (`head, sep, tail = x.partition(".")` gives head = x.partition(".")[0])."""
    key = ("value_defs", id(repo), f.fq)
    if key in _cache:
        return _cache[key]
    out = dict(local_defs(repo, f))
    if not isinstance(f.node, ast.Lambda):
        stores: dict[str, int] = {}
        for n in own_nodes(f.node):
            if isinstance(n, ast.Name) and isinstance(n.ctx, ast.Store):
                stores[n.id] = stores.get(n.id, 0) + 1
        for n in own_nodes(f.node):
            if isinstance(n, ast.Assign) and len(n.targets) == 1 and isinstance(n.targets[0], (ast.Tuple, ast.List)) and not isinstance(n.value, (ast.Tuple, ast.List)):
                for i, t in enumerate(n.targets[0].elts):
                    if isinstance(t, ast.Name) and stores.get(t.id) == 1 and t.id not in f.param_names:
                        out[t.id] = ast.Subscript(value=n.value, slice=ast.Constant(value=i), ctx=ast.Load())
            elif isinstance(n, ast.Assign) and len(n.targets) == 1 and isinstance(n.targets[0], (ast.Tuple, ast.List)) and isinstance(n.value, (ast.Tuple, ast.List)) and len(n.value.elts) == len(n.targets[0].elts):
                for t, v in zip(n.targets[0].elts, n.value.elts):
                    if isinstance(t, ast.Name) and stores.get(t.id) == 1 and t.id not in f.param_names:
                        out[t.id] = v
    _cache[key] = out
    return out


def _expand_names(repo: Repo, f: FuncInfo, e: ast.AST, depth: int = 0):
    """Copy of `e` in which locals with exactly one definition are replaced by that definition (recursively)."""
    defs = _value_defs(repo, f)

    def rec(x, d: int):
        if isinstance(x, list):
            return [rec(y, d) for y in x]
        if not isinstance(x, ast.AST):
            return x
        if isinstance(x, ast.Name) and isinstance(x.ctx, ast.Load) and x.id in defs and d < 5:
            v = defs[x.id]
            if not isinstance(v, (ast.ListComp, ast.SetComp, ast.DictComp, ast.GeneratorExp, ast.Lambda, ast.Dict, ast.List, ast.Set, ast.Await, ast.Yield, ast.YieldFrom)):
                return rec(v, d + 1)
        if isinstance(x, (ast.Lambda, ast.ListComp, ast.SetComp, ast.DictComp, ast.GeneratorExp)):
            return _clone(x)
        if isinstance(x, ast.NamedExpr):
            return rec(x.value, d)
        if isinstance(x, ast.Name) and isinstance(x.ctx, ast.Load) and not _is_local(f, x.id) and (f.outer is None or not _is_local(f.outer, x.id)):
            c = _const_str(_module_constant(repo, f, x.id))
            if c is not None:
                return ast.Constant(value=c)
        if isinstance(x, ast.Attribute) and isinstance(x.ctx, ast.Load):
            c = _attr_constant(repo, types_of(repo), f, x)
            if c is not None:
                return ast.Constant(value=c)
            lf = _len_field(repo, f, x)
            if lf is not None:
                return lf
            coll = _attr_constant_collection(repo, f, x)
            if coll is not None:
                return coll
        new = type(x)()
        for fld in x._fields:
            if hasattr(x, fld):
                setattr(new, fld, rec(getattr(x, fld), d))
        return new

    return rec(e, depth)


def _canon(repo: Repo, f: FuncInfo, e: ast.AST) -> str:
    try:
        return " ".join(ast.unparse(_expand_names(repo, f, e)).split())
    except Exception:  # noqa: BLE001
        return norm(e, 400)


def _separator_positions_of(repo: Repo, f: FuncInfo, e: ast.expr, hay: str, depth: int = 0) -> bool:
    """`e` denotes the positions of the separators in the string `hay`: `[i for i, c in enumerate(hay) if c == "."]`, possibly
    behind a local name or a helper of the same object / with hay as argument."""
    if depth > 3:
        return False
    if isinstance(e, ast.Call) and isinstance(e.func, ast.Name) and e.func.id in WRAPPERS and e.args:
        return _separator_positions_of(repo, f, e.args[0], hay, depth + 1)
    if isinstance(e, (ast.ListComp, ast.SetComp, ast.GeneratorExp)) and len(e.generators) == 1 and isinstance(e.elt, ast.Name):
        g = e.generators[0]
        if isinstance(g.iter, ast.Call) and _call_name(g.iter) == "enumerate" and g.iter.args and _canon(repo, f, g.iter.args[0]) == hay and isinstance(g.target, ast.Tuple) and len(g.target.elts) == 2 and all(isinstance(x, ast.Name) for x in g.target.elts) and g.target.elts[0].id == e.elt.id:
            ch = g.target.elts[1].id
            return any(
                isinstance(c, ast.Compare) and len(c.ops) == 1 and isinstance(c.ops[0], ast.Eq) and any(isinstance(x, ast.Name) and x.id == ch for x in (c.left, c.comparators[0])) and any(_char_value(repo, f, x) == "." for x in (c.left, c.comparators[0]))
                for c in g.ifs
            )
        return False
    if isinstance(e, ast.Name):
        d = local_defs(repo, f).get(e.id)
        return d is not None and _separator_positions_of(repo, f, d, hay, depth + 1)
    if isinstance(e, ast.Call):
        cs = origins(repo)._callees(f, e)
        if len(cs) == 1 and not isinstance(cs[0].node, ast.Lambda):
            g = cs[0]
            rets = origins(repo)._returns(g)
            if len(rets) != 1:
                return False
            # the string: the same attribute of the same object (method of the same class), or the argument bound to a parameter
            hay_in_g = hay
            pos_ = _positional(g)
            for i, a in enumerate(e.args):
                if i < len(pos_) and _canon(repo, f, a) == hay:
                    hay_in_g = pos_[i]
            if hay_in_g == hay and not (hay.startswith("self.") and g.cls is not None and f.cls is not None and isinstance(e.func, ast.Attribute) and norm(e.func.value) == "self"):
                return False
            return _separator_positions_of(repo, g, rets[0], hay_in_g, depth + 1)
    return False


def _evidence(repo: Repo, f: FuncInfo, x: ast.expr, H: str, N: str) -> tuple[int, str]:
    """(+1, kind): the (name-expanded) condition `x` being true shows that nothing ('empty') or the separator ('dot') follows
    H[:len(N)], or one of the two ('both'); (-1, kind): its being false shows that; (0, ''): no evidence."""
    L = f"len({N})"
    rest = f"{H}[{L}:]"
    u = lambda t: " ".join(t.split())  # noqa: E731
    # `H.removeprefix(N)` is the remainder wherever H starts with N (and H itself - never empty, never starting with '.' - elsewhere)
    txt = lambda e: u(ast.unparse(e)).replace(f"{H}.removeprefix({N})", rest)  # noqa: E731
    if isinstance(x, ast.Call) and isinstance(x.func, ast.Name) and x.func.id == "bool" and len(x.args) == 1:
        x = x.args[0]
        if isinstance(x, ast.Compare):
            return _evidence(repo, f, x, H, N)
        t = txt(x)
        if t == rest:
            return -1, "empty"  # falsy remainder: nothing follows
        if t in (f"{rest}.partition('.')[0]", f"{rest}.split('.')[0]", f"{rest}.split('.', 1)[0]"):
            return -1, "both"  # nothing before the first separator of the remainder: it is empty or starts with '.'
        if isinstance(x, ast.Call) and isinstance(x.func, ast.Attribute) and x.func.attr == "startswith" and x.args:
            if txt(x.func.value) == rest and _const_str(x.args[0]) == ".":
                return 1, "dot"
            if txt(x.func.value) == H and _is_dotted_form(x.args[0], {N}):
                return 1, "dot"
        return 0, ""
    if isinstance(x, ast.Compare) and len(x.ops) == 1:
        l, op, r = x.left, x.ops[0], x.comparators[0]
        tl, tr = txt(l), txt(r)
        if isinstance(op, (ast.Eq, ast.NotEq)):
            sides = {tl, tr}
            kind = ""
            if sides in ({f"{rest}[0]", "'.'"}, {f"{rest}[:1]", "'.'"}, {f"{H}[{L}]", "'.'"}, {f"{H}[{L}:{L} + 1]", "'.'"}, {f"{H}.find('.', {L})", L}):
                kind = "dot"
            elif sides in ({rest, "''"}, {H, N}, {f"len({H})", L}):
                kind = "empty"
            elif sides == {f"{rest}.partition('.')[0]", "''"}:
                kind = "both"
            if kind:
                return (1 if isinstance(op, ast.Eq) else -1), kind
            return 0, ""
        if isinstance(op, (ast.In, ast.NotIn)):
            sign = 1 if isinstance(op, ast.In) else -1
            if tl in (f"{rest}[:1]", f"{H}[{L}:{L} + 1]"):
                consts = None
                if isinstance(r, (ast.Tuple, ast.List, ast.Set)) and all(_const_str(e_) is not None for e_ in r.elts):
                    consts = {_const_str(e_) for e_ in r.elts}
                elif _const_str(r) is not None:
                    consts = {"", *list(_const_str(r))}
                if consts is not None and consts <= {"", "."} and "." in consts:
                    return sign, "both" if "" in consts else "dot"
            if tl == L and _separator_positions_of(repo, f, r, H):
                return sign, "dot"
        return 0, ""
    return 0, ""


def _evidence_polarity(repo: Repo, f: FuncInfo, x: ast.expr, H: str, N: str) -> int:
    return _evidence(repo, f, x, H, N)[0]


def _evidence_goal(repo: Repo, f: FuncInfo, formula, hay_e: ast.expr, needle_e: ast.expr, kinds: tuple[str, ...] = ("dot", "empty", "both")):
    """Disjunction of the literals of `formula` that are boundary evidence (of the given kinds) for (hay, needle); None if there is none."""
    from core.guards import atom as mk, atoms_of, f_not, f_or

    H, N = _canon(repo, f, hay_e), _canon(repo, f, needle_e)
    lits = []
    for a in atoms_of(formula):
        e = _parse_atom(a)
        if e is None:
            continue
        pol, kind = _evidence(repo, f, _expand_names(repo, f, e), H, N)
        if kind not in kinds:
            continue
        if pol > 0:
            lits.append(mk(a))
        elif pol < 0:
            lits.append(f_not(mk(a)))
    return f_or(lits) if lits else None


def _has_evidence(repo: Repo, f: FuncInfo, formula, hay_e: ast.expr, needle_e: ast.expr) -> bool:
    from core.guards import implies

    goal = _evidence_goal(repo, f, formula, hay_e, needle_e)
    if goal is None:
        return False
    try:
        return implies(formula, goal)
    except AnalysisError:
        return False


def _is_remainder_def(repo: Repo, f: FuncInfo, st: ast.AST, H: str, N: str) -> bool:
    """`rest = H[len(N):]` / `head, sep, tail = H[len(N):].partition(".")` / `n = len(N)`: definitions, not consequences."""
    if not isinstance(st, (ast.Assign, ast.AnnAssign)) or getattr(st, "value", None) is None:
        return False
    t = _canon(repo, f, st.value)
    rest = f"{H}[len({N}):]"
    return t == rest or t.startswith(rest + ".partition(") or t.startswith(rest + "[") or t in (f"len({N})", f"len({H})") or t.startswith(f"{H}.removeprefix({N})")


def _guard(f: FuncInfo, node: ast.AST):
    """guard_formula, completed for conditions that bind a name with `:=`.

    core/cfg.py drops a branch condition as soon as something it mentions is (re)bound - also when the binding is a walrus inside
    the very condition (`if not m.startswith(p := x.rstrip(".")): return False`), which then is missing on the paths behind it. A
    walrus target that is stored nowhere else has one value: the condition is sound to keep."""
    from core.cfg import always_exits
    from core.guards import f_and, f_not, to_formula

    from .common import copy_prop, guard_formula

    base = guard_formula(f, node)
    if isinstance(f.node, ast.Lambda):
        return base
    walrus = [x for x in own_nodes(f.node) if isinstance(x, ast.NamedExpr) and isinstance(x.target, ast.Name)]
    if not walrus:
        return base
    stores: dict[str, int] = {}
    for x in own_nodes(f.node):
        if isinstance(x, ast.Name) and isinstance(x.ctx, ast.Store):
            stores[x.id] = stores.get(x.id, 0) + 1
    extra = []
    subst = copy_prop(f)
    child = node
    for a in ancestors(node):
        for fld in ("body", "orelse", "finalbody"):
            blk = getattr(a, fld, None)
            if isinstance(blk, list) and any(child is st_ for st_ in blk):
                for st_ in blk:
                    if st_ is child:
                        break
                    if isinstance(st_, ast.If):
                        ws = [w for w in ast.walk(st_.test) if isinstance(w, ast.NamedExpr) and isinstance(w.target, ast.Name)]
                        if ws and all(stores.get(w.target.id) == 1 for w in ws):
                            if always_exits(st_.body) and not (st_.orelse and always_exits(st_.orelse)):
                                extra.append(f_not(to_formula(st_.test, subst)))
                            elif st_.orelse and always_exits(st_.orelse) and not always_exits(st_.body):
                                extra.append(to_formula(st_.test, subst))
        if isinstance(a, ast.If) and a is not node:
            ws = [w for w in ast.walk(a.test) if isinstance(w, ast.NamedExpr) and isinstance(w.target, ast.Name)]
            if ws and all(stores.get(w.target.id) == 1 for w in ws):
                if any(child is st_ for st_ in a.body):
                    extra.append(to_formula(a.test, subst))
                elif any(child is st_ for st_ in a.orelse):
                    extra.append(f_not(to_formula(a.test, subst)))
        if a is f.node:
            break
        child = a
    return f_and([base, *extra]) if extra else base


def _match_decides(repo: Repo, f: FuncInfo, node: ast.AST, hay_e: ast.expr, needle_e: ast.expr) -> bool:
    """`node` sits in a `case` of a match statement over the character after the prefix (`match rest[:1]: case "" | ".": .. case _: ..`):
    the case patterns are the test of the next character."""
    case = None
    for a in ancestors(node):
        if a is f.node:
            return False
        if isinstance(a, ast.match_case):
            case = a
        elif isinstance(a, ast.Match) and case is not None:
            H, N = _canon(repo, f, hay_e), _canon(repo, f, needle_e)

            def consts(pat) -> set[str] | None:
                if isinstance(pat, ast.MatchValue) and _const_str(pat.value) is not None:
                    return {_const_str(pat.value)}
                if isinstance(pat, ast.MatchOr):
                    out: set[str] = set()
                    for q in pat.patterns:
                        c = consts(q)
                        if c is None:
                            return None
                        out |= c
                    return out
                return None

            def kind_of(c: ast.match_case) -> str:
                cs = consts(c.pattern)
                if cs is None or c.guard is not None:
                    return ""
                probe = ast.Compare(left=a.subject, ops=[ast.In()], comparators=[ast.Tuple(elts=[ast.Constant(value=x) for x in sorted(cs)], ctx=ast.Load())])
                pol, kind = _evidence(repo, f, _expand_names(repo, f, probe), H, N)
                if pol > 0:
                    return kind
                if cs == {""}:
                    pol, kind = _evidence(repo, f, _expand_names(repo, f, ast.Compare(left=a.subject, ops=[ast.Eq()], comparators=[ast.Constant(value="")])), H, N)
                    return "empty" if pol > 0 or " ".join(ast.unparse(_expand_names(repo, f, a.subject)).split()) in (f"{H}[len({N}):][:1]", f"{H}[len({N}):len({N}) + 1]") else ""
                return ""

            if kind_of(case):
                return True
            wildcard = isinstance(case.pattern, ast.MatchAs) and case.pattern.pattern is None and case.guard is None
            return wildcard and any(kind_of(c) in ("dot", "both") for c in a.cases if c is not case)
    return False


def _index_error_decides(repo: Repo, f: FuncInfo, node: ast.AST, hay_e: ast.expr, needle_e: ast.expr) -> bool:
    """`node` sits in the `except IndexError` handler of a try whose body reads the character after the prefix (`H[len(N)]`):
    it is reached exactly when nothing follows the prefix."""
    H, N = _canon(repo, f, hay_e), _canon(repo, f, needle_e)
    handler = None
    for a in ancestors(node):
        if a is f.node:
            return False
        if isinstance(a, ast.ExceptHandler):
            handler = a
        elif isinstance(a, ast.Try) and handler is not None and handler in a.handlers:
            t = handler.type
            names_ = [norm(x) for x in (t.elts if isinstance(t, ast.Tuple) else [t])] if t is not None else []
            if "IndexError" not in names_:
                return False
            want = {f"{H}[len({N})]", f"{H}[len({N}):][0]"}
            return any(isinstance(x, ast.Subscript) and _canon(repo, f, x) in want for st_ in a.body for x in ast.walk(st_))
    return False


def _raw_test_is_guarded(repo: Repo, f: FuncInfo, test: ast.expr, hay_e: ast.expr, needle_e: ast.expr) -> str | None:
    """A raw prefix test `test` (truthy = H starts with the plain string N) is harmless if
      (a) the conditions on the path to it already are boundary evidence, or
      (b) the truth of the value it is part of implies evidence (predicate: `return H.startswith(N) and H[len(N):][:1] in ("", ".")`), or
      (c) every statement / comprehension element that is only reached when it holds is additionally guarded by evidence.
    Returns the reason, or None."""
    from core.guards import atoms_of, f_and, f_not, f_or, implies, to_formula

    from .common import copy_prop

    if isinstance(f.node, ast.Lambda) and not isinstance(test, ast.expr):
        return None
    try:
        g0 = _guard(f, test)
        if _has_evidence(repo, f, g0, hay_e, needle_e):
            return "the next character is known to be the separator (or absent) on every path to this prefix test"
        subst = copy_prop(f)
        raw = to_formula(test, subst)
        raw_atoms = atoms_of(raw)
        if len(raw_atoms) != 1:
            return None
        H, N = _canon(repo, f, hay_e), _canon(repo, f, needle_e)
        # (b) the value the test is part of
        st = stmt_of(test)
        top = test
        while parent(top) is not None and isinstance(parent(top), (ast.BoolOp, ast.UnaryOp, ast.IfExp, ast.Compare)) and parent(top) is not st:
            top = parent(top)
        value_stmt = isinstance(st, (ast.Return, ast.Assign, ast.AnnAssign)) and getattr(st, "value", None) is top or isinstance(f.node, ast.Lambda)
        if value_stmt or (isinstance(parent(top), ast.Call) and top in parent(top).args) or isinstance(parent(top), (ast.ListComp, ast.GeneratorExp, ast.SetComp, ast.keyword)):
            whole = f_and([_guard(f, top), to_formula(top, subst)])
            goal = _evidence_goal(repo, f, whole, hay_e, needle_e)
            if goal is not None and implies(whole, f_or([f_not(raw), goal])):
                return "the value this raw prefix test is part of is only true when the next character is the separator or absent"
            if value_stmt or not isinstance(parent(top), ast.comprehension):
                # the value of the raw test escapes (returned, stored, collected): consequences cannot be followed here
                tgt = (st.targets[0] if isinstance(st, ast.Assign) and len(st.targets) == 1 else getattr(st, "target", None)) if isinstance(st, (ast.Assign, ast.AnnAssign)) else None
                if not isinstance(tgt, ast.Name) or isinstance(f.node, ast.Lambda):
                    return None
                # a flag: it must be used for branching only (a returned / stored / passed flag carries the raw decision away)
                for x in own_nodes(f.node):
                    if isinstance(x, ast.Name) and x.id == tgt.id and isinstance(x.ctx, ast.Load):
                        p_ = parent(x)
                        while isinstance(p_, (ast.BoolOp, ast.UnaryOp)):
                            x, p_ = p_, parent(p_)
                        if not (isinstance(p_, (ast.If, ast.While, ast.IfExp, ast.comprehension, ast.Assert)) and (getattr(p_, "test", None) is x or (isinstance(p_, ast.comprehension) and x in p_.ifs))):
                            return None
        # (c) consequences
        effects: list[ast.AST] = []
        if not isinstance(f.node, ast.Lambda):
            for n in own_nodes(f.node):
                if isinstance(n, (ast.Return, ast.Expr, ast.Assign, ast.AugAssign, ast.AnnAssign, ast.Raise, ast.Delete, ast.Break, ast.Continue)):
                    effects.append(n)
                elif isinstance(n, (ast.ListComp, ast.SetComp, ast.GeneratorExp)):
                    effects.append(n.elt)
                elif isinstance(n, ast.DictComp):
                    effects += [n.key, n.value]
                elif isinstance(n, ast.IfExp):
                    effects += [n.body, n.orelse]
        dependent = 0
        for e_ in effects:
            if any(x is test for x in ast.walk(e_)):
                continue  # the test itself is evaluated inside: covered by (b)
            ge = _guard(f, e_)
            if not (raw_atoms <= atoms_of(ge)) or not implies(ge, raw):
                continue
            if isinstance(e_, ast.stmt) and _is_remainder_def(repo, f, e_, H, N):
                continue
            dependent += 1
            if _match_decides(repo, f, e_, hay_e, needle_e) or _index_error_decides(repo, f, e_, hay_e, needle_e):
                continue
            whole = ge
            if isinstance(e_, ast.Return) and e_.value is not None:
                v = to_formula(e_.value, subst)
                if v == ("const", False):
                    continue  # "no": never wrong for a string that only has the raw prefix
                if isinstance(e_.value, (ast.BoolOp, ast.Compare, ast.UnaryOp)):
                    whole = f_and([ge, v])  # a returned condition: only its truth ("yes") has to be backed by evidence
            if not _has_evidence(repo, f, whole, hay_e, needle_e):
                # the branch taken when the next character is known NOT to be a separator is a decision on the boundary as well
                # (only a test of the next *character* decides it: `H != N` alone says nothing about what follows)
                goal = _evidence_goal(repo, f, whole, hay_e, needle_e, kinds=("dot", "both"))
                if goal is None or not implies(whole, f_not(goal)):
                    return None
        if dependent:
            return "everything that depends on this raw prefix test is additionally guarded by a test of the next character"
    except AnalysisError:
        return None
    return None


def _remainder_uses(repo: Repo, f: FuncInfo, n: ast.AST, hay_e: ast.expr, needle_e: ast.expr) -> tuple[bool, bool]:
    """How the string left after cutting len(N) characters off H is used: (every use is a boundary test itself,
    every use is such a test or guarded by one). (False, False) if it escapes."""

    if isinstance(f.node, ast.Lambda):
        return False, False
    H, N = _canon(repo, f, hay_e), _canon(repo, f, needle_e)

    def single_store(var: str) -> bool:
        return var not in f.param_names and len([x for x in own_nodes(f.node) if isinstance(x, ast.Name) and x.id == var and isinstance(x.ctx, ast.Store)]) == 1

    def loads(var: str) -> list[ast.AST]:
        return [x for x in own_nodes(f.node) if isinstance(x, ast.Name) and x.id == var and isinstance(x.ctx, ast.Load)]

    st = stmt_of(n)
    if isinstance(st, ast.Assign) and st.value is n and len(st.targets) == 1 and isinstance(st.targets[0], ast.Name):
        if not single_store(st.targets[0].id):
            return False, False
        uses = loads(st.targets[0].id)
    elif _bound_local(f, n) is not None:  # (pairwise tuple assignment, annotated assignment)
        uses = loads(_bound_local(f, n))
    elif isinstance(parent(n), ast.NamedExpr) and parent(n).value is n and isinstance(parent(n).target, ast.Name):
        if not single_store(parent(n).target.id):
            return False, False
        uses = [parent(n), *loads(parent(n).target.id)]
    else:
        uses = [n]
    if not uses:
        return False, False
    only_tests, guarded, tested = True, True, False
    work = list(uses)
    while work:
        u_ = work.pop()
        x = u_
        is_test = False
        for _ in range(4):
            p = parent(x)
            if p is None or isinstance(p, ast.stmt):
                break
            x = p
            probe = ast.Call(func=ast.Name(id="bool", ctx=ast.Load()), args=[x], keywords=[]) if not isinstance(x, ast.Compare) else x
            if _evidence_polarity(repo, f, _expand_names(repo, f, probe), H, N) != 0:
                is_test = True
                break
        p = parent(u_)
        ust = stmt_of(u_)
        if isinstance(ust, ast.Match) and any(x is u_ for x in ast.walk(ust.subject)):
            tested = True  # the subject of a match statement: the cases test it
            continue
        if _match_decides(repo, f, u_, hay_e, needle_e):
            tested = True
            continue
        if is_test or (isinstance(p, ast.UnaryOp) and isinstance(p.op, ast.Not)) or isinstance(p, (ast.If, ast.While, ast.BoolOp)) or (isinstance(p, ast.IfExp) and p.test is u_) or (isinstance(p, ast.Call) and _call_name(p) in ("len", "bool")):
            tested = True
            continue
        if isinstance(p, ast.Attribute) and p.attr in ("partition", "split") and isinstance(parent(p), ast.Call):
            # taken apart at the separator: the parts are looked at instead
            call = parent(p)
            if not (call.args and _const_str(call.args[0]) == "."):
                return False, False
            cst = stmt_of(call)
            if isinstance(cst, ast.Assign) and cst.value is call and len(cst.targets) == 1 and isinstance(cst.targets[0], (ast.Tuple, ast.List)) and all(isinstance(t, ast.Name) for t in cst.targets[0].elts):
                for t in cst.targets[0].elts:
                    if not single_store(t.id):
                        return False, False
                    work += loads(t.id)
                continue
            if isinstance(parent(call), ast.Subscript):
                work.append(parent(call))
                continue
            return False, False
        only_tests = False
        try:
            if not _has_evidence(repo, f, _guard(f, u_), hay_e, needle_e):
                guarded = False
        except AnalysisError:
            guarded = False
    return only_tests and tested, guarded and tested


# --------------------------------------------------------------------------- relation predicates
#
# A function whose truthy result implies "H is N or below N" (whole components): `h == n or h.startswith(n + ".")`, a raw prefix
# test with boundary evidence, a component-wise comparison, or a combination / delegation of these. Used where the relation is
# established by calling such a function (`if name.is_or_is_below(other): ... name.relative_to(other)`).


def _component_prefix_expr(repo: Repo, g: FuncInfo, e: ast.expr, H: str, N: str) -> bool:
    """`e` (names expanded) is true only if the components of N are a leading run of the components of H."""
    txt = lambda x: " ".join(ast.unparse(x).split())  # noqa: E731
    hs, ns = f"{H}.split('.')", f"{N}.split('.')"
    if isinstance(e, ast.Compare) and len(e.ops) == 1 and isinstance(e.ops[0], ast.Eq):
        sides = {txt(e.left), txt(e.comparators[0])}
        if sides == {f"{hs}[:len({ns})]", ns}:
            return True
        if sides == {f"tuple({hs})[:len({ns})]", f"tuple({ns})"} or sides == {f"tuple({hs}[:len({ns})])", f"tuple({ns})"}:
            return True
    if isinstance(e, ast.Call) and _call_name(e) == "all" and len(e.args) == 1 and isinstance(e.args[0], (ast.GeneratorExp, ast.ListComp)) and len(e.args[0].generators) == 1:
        gen = e.args[0].generators[0]
        it = gen.iter
        if isinstance(it, ast.Call) and _call_name(it) == "zip_longest" and len(it.args) == 2 and [txt(a) for a in it.args] == [hs, ns] and isinstance(gen.target, ast.Tuple) and len(gen.target.elts) == 2 and all(isinstance(x, ast.Name) for x in gen.target.elts):
            x, y = (t.id for t in gen.target.elts)
            elt = e.args[0].elt
            # `y is None or x == y`: every component of N is matched, H may have more
            if isinstance(elt, ast.BoolOp) and isinstance(elt.op, ast.Or) and len(elt.values) == 2:
                a, b = (txt(v) for v in elt.values)
                if {a, b} in ({f"{y} is None", f"{x} == {y}"}, {f"{y} is None", f"{y} == {x}"}):
                    return True
    if isinstance(e, ast.BoolOp) and isinstance(e.op, ast.And):
        texts = [txt(v) for v in e.values]
        lens_ok = any(t in (f"len({hs}) >= len({ns})", f"len({ns}) <= len({hs})") for t in texts)
        zips = any(isinstance(v, ast.Call) and _call_name(v) == "all" and v.args and isinstance(v.args[0], (ast.GeneratorExp, ast.ListComp)) and isinstance(v.args[0].generators[0].iter, ast.Call) and _call_name(v.args[0].generators[0].iter) == "zip" and {txt(a) for a in v.args[0].generators[0].iter.args} == {hs, ns} and isinstance(v.args[0].elt, ast.Compare) and isinstance(v.args[0].elt.ops[0], ast.Eq) for v in e.values)
        if lens_ok and zips:
            return True
    return False


def _resolve_callable_text(repo: Repo, g: FuncInfo, fn: ast.expr) -> FuncInfo | None:
    """The repo function a (re-parsed, parent-less) callee expression denotes: `helper`, `self.helper`, `cls.helper`, `Class.helper`,
    `obj.method` for a local `obj` of known class."""
    T = types_of(repo)
    if isinstance(fn, ast.Name):
        h = g
        while h is not None:
            for cand in g.module.all_funcs:
                if cand.outer is h and cand.name == fn.id and not isinstance(cand.node, ast.Lambda):
                    return cand
            h = h.outer
        if fn.id in g.module.functions:
            return g.module.functions[fn.id]
        fq = g.module.imports.get(fn.id)
        if fq:
            m2, _, attr = fq.rpartition(".")
            om = repo.modules.get(m2)
            if om is not None and attr in om.functions:
                return om.functions[attr]
        return None
    if isinstance(fn, ast.Attribute):
        ci = None
        if isinstance(fn.value, ast.Name) and fn.value.id in ("self", "cls") and g.cls is not None:
            ci = g.cls
        else:
            try:
                t = T.expr(g, fn.value)
            except Exception:  # noqa: BLE001
                return None
            cs = [repo.classes.get(m[1]) for m in members(t) if m[0] in ("cls", "type")]
            if len(cs) == 1 and cs[0] is not None and len(members(t)) == 1:
                ci = cs[0]
        if ci is not None:
            m = repo.lookup_method(ci, fn.attr)
            if m is not None and not m.is_property:
                return m
    return None


def _relation_call(repo: Repo, g: FuncInfo, call: ast.expr, H: str, others: set[str], depth: int) -> bool:
    """`call` (re-parsed from an atom, names expanded) invokes a relation predicate with (H, one of others)."""
    if not isinstance(call, ast.Call) or depth > 3:
        return False
    fn = call.func
    pre: list[ast.expr] = []
    if isinstance(fn, ast.Call) and _call_name(fn) == "partial" and fn.args:  # partial(pred, h)(n)
        pre = list(fn.args[1:])
        fn = fn.args[0]
    callee = _resolve_callable_text(repo, g, fn)
    if callee is None or isinstance(callee.node, ast.Lambda):
        return False
    args = [*pre, *call.args]
    if any(isinstance(a, ast.Starred) for a in args):
        return False
    pos_ = _positional(callee)
    bound: dict[str, ast.expr] = {}
    for i, a in enumerate(args):
        if i < len(pos_):
            bound[pos_[i]] = a
    for k in call.keywords:
        if k.arg:
            bound[k.arg] = k.value
    txt = lambda x: " ".join(ast.unparse(x).split())  # noqa: E731
    hp = next((p for p, a in bound.items() if txt(a) == H), None)
    op_ = next((p for p, a in bound.items() if txt(a) in others and p != hp), None)
    h_text = hp
    if hp is None and isinstance(fn, ast.Attribute) and callee.cls is not None:
        # the name is a field / property of the receiver:  recv.is_below(other)  with  H == recv.<field>
        recv = txt(fn.value)
        if H.startswith(recv + "."):
            h_text = "self." + H[len(recv) + 1 :]
        elif recv == H:
            return False
    if h_text is None or op_ is None:
        return False
    return _relation_predicate(repo, callee, h_text, op_, depth + 1)


def _relation_predicate(repo: Repo, g: FuncInfo, H: str, N: str, depth: int = 0) -> bool:
    """The truthy result of `g` implies that `H` (a parameter or `self.<field>`, text in g's terms) is `N` (a parameter) or below it."""
    from core.guards import atom as mk, atoms_of, f_and, f_not, f_or, implies, to_formula

    from .common import copy_prop

    key = ("relpred", id(repo), g.fq, H, N)
    if key in _cache:
        return _cache[key]
    _cache[key] = False  # recursion guard
    ok = False
    try:
        if depth <= 3 and not isinstance(g.node, ast.Lambda) and not any(isinstance(x, (ast.Yield, ast.YieldFrom)) for x in own_nodes(g.node)):
            rets = [r for r in own_nodes(g.node) if isinstance(r, ast.Return) and r.value is not None]
            h_e, n_e = _parse_atom(H), _parse_atom(N)
            ok = bool(rets) and h_e is not None and n_e is not None
            subst = copy_prop(g)
            for r in rets if ok else []:
                F = f_and([_guard(g, r), to_formula(r.value, subst)])
                if F == ("const", False):
                    continue
                safe_a, raw_a = _relation_atoms(repo, g, F, H, {N})
                good = list(safe_a)
                raws = list(raw_a)
                for a in atoms_of(F):
                    e = _parse_atom(a)
                    if e is None:
                        continue
                    x = _expand_names(repo, g, e)
                    inner = _unbool(x)
                    txt = " ".join(ast.unparse(inner).split())
                    if isinstance(inner, ast.Compare) and len(inner.ops) == 1 and isinstance(inner.ops[0], ast.Eq):
                        sides = {" ".join(ast.unparse(inner.left).split()), " ".join(ast.unparse(inner.comparators[0]).split())}
                        if sides == {f"{H}[:len({N})]", N}:
                            raws.append(mk(a))
                    if _component_prefix_expr(repo, g, inner, H, N):
                        good.append(mk(a))
                    elif isinstance(inner, ast.Call) and _relation_call(repo, g, inner, H, {N}, depth):
                        good.append(mk(a))
                ev = _evidence_goal(repo, g, F, h_e, n_e)
                if raws and _index_error_decides(repo, g, r, h_e, n_e):
                    ev = ("const", True)  # reached when nothing follows the prefix
                goal = f_or([*good, *([f_and([f_or(raws), ev])] if raws and ev is not None else [])])
                if goal == ("const", False) or not implies(F, goal):
                    ok = False
                    break
    except AnalysisError:
        ok = False
    _cache[key] = ok
    return ok


class Ancestry:
    """Is a value the name `h` itself or one of its ancestors (a leading run of its whole components)?

    Ancestors are recognised by how they are made: `x.rpartition(".")[0]`, `x.rsplit(".", 1)[0]`, `x[:i]` with i the position of
    a separator, `".".join(x.split(".")[:k])`, elements of get_parent_modules(x) (public API) or of any helper whose results are
    made this way - for x the name or, again, one of its ancestors (loops that walk upwards)."""

    def __init__(self, repo: Repo) -> None:
        self.repo = repo
        self.O = origins(repo)

    def value(self, g: FuncInfo, e: ast.expr, h: str, depth: int = 0, seen: frozenset = frozenset()) -> bool:
        key = (g.fq, id(e), "v", h)
        if key in seen:
            return True  # walking upwards: `parent = parent.rpartition(".")[0]`
        if depth > 8:
            return False
        seen = seen | {key}
        d = depth + 1
        if norm(e) == h:
            return True
        if isinstance(e, ast.Constant):
            return e.value is None or e.value == ""
        if isinstance(e, ast.IfExp):
            return self.value(g, e.body, h, d, seen) and self.value(g, e.orelse, h, d, seen)
        if isinstance(e, ast.Subscript):
            v = e.value
            if not isinstance(e.slice, ast.Slice):
                idx = e.slice.value if isinstance(e.slice, ast.Constant) else None
                if isinstance(v, ast.Call) and isinstance(v.func, ast.Attribute) and v.args and _const_str(v.args[0]) == ".":
                    a = v.func.attr
                    if (a in ("rpartition", "partition") and idx == 0) or (a == "rsplit" and idx == 0) or (a == "split" and idx == 0):
                        return self.value(g, v.func.value, h, d, seen)
                return self.elements(g, v, h, d, seen)  # one element of a collection of ancestors
            if e.slice.lower is None and e.slice.upper is not None and e.slice.step is None:
                try:
                    verdict, _why = _index_cut(self.repo, g, e, e.slice.upper, True)
                except Exception:  # noqa: BLE001
                    verdict = "unknown"
                return verdict == "safe" and self.value(g, v, h, d, seen)
            return False
        if isinstance(e, ast.Call):
            nm = _call_name(e)
            if isinstance(e.func, ast.Attribute) and nm == "join" and _const_str(e.func.value) == "." and len(e.args) == 1:
                arg = e.args[0]
                while isinstance(arg, ast.Subscript) and isinstance(arg.slice, ast.Slice) and arg.slice.lower is None:
                    arg = arg.value
                if isinstance(arg, ast.Call) and _call_name(arg) == "islice" and arg.args:
                    arg = arg.args[0]
                for g2, x, kind in self.O.value(g, arg):
                    while isinstance(x, ast.Subscript) and isinstance(x.slice, ast.Slice) and x.slice.lower is None:
                        x = x.value
                    if not (kind == "value" and g2 is g and isinstance(x, ast.Call) and _call_name(x) == "split" and isinstance(x.func, ast.Attribute) and x.args and _const_str(x.args[0]) == "." and self.value(g, x.func.value, h, d, seen)):
                        return False
                return True
            if isinstance(e.func, ast.Name) and nm in ("next", "min", "max") and e.args:
                ok = self.elements(g, e.args[0], h, d, seen)
                return ok and all(self.value(g, a, h, d, seen) for a in e.args[1:]) and all(self.value(g, k.value, h, d, seen) for k in e.keywords if k.arg == "default")
            if isinstance(e.func, ast.Name) and nm == "str" and len(e.args) == 1:
                return self.value(g, e.args[0], h, d, seen)
            return self._call(g, e, h, d, seen, elements=False)
        if isinstance(e, ast.Name):
            if isinstance(g.node, ast.Lambda) or e.id in g.param_names:
                return False
            binds = self.O._bindings(g, e.id, e)
            if not binds:
                return False
            for kind, src, pos in binds:
                if kind == "value" and not pos:
                    if not self.value(g, src, h, d, seen):
                        return False
                elif kind == "value" and pos == (0,) and isinstance(src, ast.Call) and isinstance(src.func, ast.Attribute) and src.func.attr in ("rpartition", "partition") and src.args and _const_str(src.args[0]) == ".":
                    if not self.value(g, src.func.value, h, d, seen):
                        return False
                elif kind == "elem" and not pos:
                    if not self.elements(g, src, h, d, seen):
                        return False
                else:
                    return False
            return True
        return False

    def _call(self, g: FuncInfo, call: ast.Call, h: str, d: int, seen: frozenset, elements: bool) -> bool:
        nm = _call_name(call)
        if nm == "get_parent_modules" and call.args:
            return elements and self.value(g, call.args[0], h, d, seen)  # public API: the ancestors of its argument
        cs = self.O._callees(g, call)
        if len(cs) != 1 or isinstance(cs[0].node, ast.Lambda):
            return False
        callee = cs[0]
        pos_ = _positional(callee)
        hp = None
        for i, a in enumerate(call.args):
            if i < len(pos_) and not isinstance(a, ast.Starred) and self.value(g, a, h, d, seen):
                hp = pos_[i]
                break
        if hp is None:
            for k in call.keywords:
                if k.arg and self.value(g, k.value, h, d, seen):
                    hp = k.arg
        if hp is None:
            return False
        ys = [n for n in own_nodes(callee.node) if isinstance(n, (ast.Yield, ast.YieldFrom))]
        if ys:
            if not elements:
                return False
            return all((self.value(callee, y.value, hp, d, seen) if isinstance(y, ast.Yield) and y.value is not None else self.elements(callee, y.value, hp, d, seen) if isinstance(y, ast.YieldFrom) else False) for y in ys)
        rets = [r.value for r in own_nodes(callee.node) if isinstance(r, ast.Return) and r.value is not None]
        if not rets:
            return False
        return all((self.elements if elements else self.value)(callee, r, hp, d, seen) for r in rets)

    def elements(self, g: FuncInfo, c: ast.expr, h: str, depth: int = 0, seen: frozenset = frozenset()) -> bool:
        key = (g.fq, id(c), "e", h)
        if key in seen:
            return True
        if depth > 8:
            return False
        seen = seen | {key}
        d = depth + 1
        if isinstance(c, ast.Starred):
            return self.elements(g, c.value, h, d, seen)
        if isinstance(c, (ast.List, ast.Tuple, ast.Set)):
            return all(self.elements(g, x.value, h, d, seen) if isinstance(x, ast.Starred) else self.value(g, x, h, d, seen) for x in c.elts)
        if isinstance(c, ast.BinOp) and isinstance(c.op, ast.Add):
            return self.elements(g, c.left, h, d, seen) and self.elements(g, c.right, h, d, seen)
        if isinstance(c, ast.Subscript) and isinstance(c.slice, ast.Slice):
            return self.elements(g, c.value, h, d, seen)
        if isinstance(c, (ast.ListComp, ast.SetComp, ast.GeneratorExp)):
            return self.value(g, c.elt, h, d, seen)
        if isinstance(c, ast.Call):
            nm = _call_name(c)
            if isinstance(c.func, ast.Name) and nm in (*WRAPPERS, "islice", "takewhile", "dropwhile") and c.args:
                return self.elements(g, c.args[-1] if nm in ("takewhile", "dropwhile") else c.args[0], h, d, seen)
            if isinstance(c.func, ast.Name) and nm == "filter" and len(c.args) == 2:
                return self.elements(g, c.args[1], h, d, seen)
            if isinstance(c.func, ast.Name) and nm == "chain":
                return all(self.elements(g, a, h, d, seen) for a in c.args)
            if isinstance(c.func, ast.Name) and nm == "accumulate" and len(c.args) == 2:
                # accumulate(x.split(".")[..], lambda a, b: f"{a}.{b}"): the dotted prefixes of x
                src, fn = c.args
                while isinstance(src, ast.Subscript) and isinstance(src.slice, ast.Slice):
                    src = src.value
                src = _expand(self.repo, g, src)
                while isinstance(src, ast.Subscript) and isinstance(src.slice, ast.Slice):
                    src = src.value
                joins = isinstance(fn, ast.Lambda) and len(fn.args.args) == 2 and norm(fn.body) in (f"f'{{{fn.args.args[0].arg}}}.{{{fn.args.args[1].arg}}}'", f"{fn.args.args[0].arg} + '.' + {fn.args.args[1].arg}") or norm(fn) in ("'{}.{}'.format",)
                return bool(joins) and isinstance(src, ast.Call) and _call_name(src) == "split" and isinstance(src.func, ast.Attribute) and src.args and _const_str(src.args[0]) == "." and self.value(g, src.func.value, h, d, seen)
            return self._call(g, c, h, d, seen, elements=True)
        if isinstance(c, ast.Name):
            if isinstance(g.node, ast.Lambda) or c.id in g.param_names:
                return False
            binds = self.O._bindings(g, c.id, c)
            if not binds:
                return False
            for kind, src, pos in binds:
                if kind != "value" or pos:
                    return False
                if (isinstance(src, (ast.List, ast.Set)) and not src.elts) or (isinstance(src, ast.Call) and _call_name(src) in ("list", "set", "deque") and not src.args):
                    continue
                if not self.elements(g, src, h, d, seen):
                    return False
            text = c.id
            for n in own_nodes(g.node):
                if isinstance(n, ast.Call) and isinstance(n.func, ast.Attribute) and isinstance(n.func.value, ast.Name) and n.func.value.id == text and n.args:
                    a = n.func.attr
                    if a in ("append", "add", "appendleft") and not self.value(g, n.args[0], h, d, seen):
                        return False
                    if a == "insert" and len(n.args) == 2 and not self.value(g, n.args[1], h, d, seen):
                        return False
                    if a in ("extend", "update", "extendleft") and not self.elements(g, n.args[0], h, d, seen):
                        return False
            return True
        return False


def _ancestor_or_self(repo: Repo, f: FuncInfo, e: ast.expr, hay: str, depth: int = 0) -> bool:
    """`e` is `hay` itself or one of its ancestors (possibly None on other paths)."""
    key = ("ancestry", id(repo))
    if key not in _cache:
        _cache[key] = Ancestry(repo)
    try:
        return _cache[key].value(f, e, hay)
    except RecursionError:
        raise
    except Exception:  # noqa: BLE001
        return False


def _remainder_only_examined(repo: Repo, f: FuncInfo, n: ast.AST) -> bool:
    """The string left after cutting the prefix (`rest = name[len(p):]` / `name.removeprefix(p)`) is used for nothing but the test
    that it is empty or starts with the separator - then the cut itself decides nothing."""
    if isinstance(f.node, ast.Lambda):
        return False
    st = stmt_of(n)
    uses: list[ast.AST] = []
    if isinstance(st, ast.Assign) and st.value is n and len(st.targets) == 1 and isinstance(st.targets[0], ast.Name):
        var = st.targets[0].id
        stores = [x for x in own_nodes(f.node) if isinstance(x, ast.Name) and x.id == var and isinstance(x.ctx, ast.Store)]
        if len(stores) != 1 or var in f.param_names:
            return False
        uses = [x for x in own_nodes(f.node) if isinstance(x, ast.Name) and x.id == var and isinstance(x.ctx, ast.Load)]
    elif _bound_local(f, n) is not None:  # (pairwise tuple assignment, annotated assignment)
        var = _bound_local(f, n)
        uses = [x for x in own_nodes(f.node) if isinstance(x, ast.Name) and x.id == var and isinstance(x.ctx, ast.Load)]
    else:
        uses = [n]
    if not uses:
        return False
    dot_test = False
    for u in uses:
        p = parent(u)
        ok = False
        if isinstance(p, ast.Compare) and len(p.ops) == 1 and isinstance(p.ops[0], (ast.Eq, ast.NotEq)):
            other = p.comparators[0] if p.left is u else p.left
            if _const_str(other) == "":
                ok = True
            elif isinstance(other, (ast.Name, ast.Attribute, ast.Call)):
                ok = True  # compared with the uncut name: "was anything removed?"
        elif isinstance(p, ast.Attribute) and p.attr == "startswith" and isinstance(parent(p), ast.Call) and parent(p).args and _const_str(parent(p).args[0]) == ".":
            ok = dot_test = True
        elif isinstance(p, ast.Subscript) and p.value is u and norm(p.slice) in ("0", ":1"):
            pp = parent(p)
            if isinstance(pp, ast.Compare) and len(pp.ops) == 1:
                c = pp.comparators[0] if pp.left is p else pp.left
                if _const_str(c) == "." and isinstance(pp.ops[0], (ast.Eq, ast.NotEq)):
                    ok = dot_test = True
                elif isinstance(pp.ops[0], (ast.In, ast.NotIn)) and isinstance(c, (ast.Tuple, ast.List, ast.Set)) and sorted(str(_const_str(x)) for x in c.elts) == ["", "."]:
                    ok = dot_test = True
        elif isinstance(p, ast.UnaryOp) and isinstance(p.op, ast.Not):
            ok = True
        elif isinstance(p, (ast.BoolOp, ast.If, ast.While, ast.IfExp)) and (not isinstance(p, ast.IfExp) or p.test is u):
            ok = True  # truthiness
        elif isinstance(p, ast.Call) and _call_name(p) in ("len", "bool"):
            ok = True
        if not ok:
            return False
    return dot_test


def _helper_selections(repo: Repo, g: FuncInfo) -> list[tuple[str, object]] | None:
    """What a selecting helper hands out: [(element variable, condition that holds for every element handed out)] - one entry per
    `return [v for v in xs if cond]` (also through a local / list() / sorted()) or per `yield v` inside a loop `for v in xs`
    (the path condition of the yield); None if the helper hands out anything else."""
    from core.guards import f_and, to_formula

    from .common import copy_prop, guard_formula

    if isinstance(g.node, ast.Lambda):
        return None
    yields = [x for x in own_nodes(g.node) if isinstance(x, (ast.Yield, ast.YieldFrom))]
    rets = Origins._returns(g)
    out: list[tuple[str, object]] = []
    if yields:
        if rets or any(isinstance(y, ast.YieldFrom) for y in yields):
            return None
        for y in yields:
            if not isinstance(y.value, ast.Name):
                return None
            loop = next((a_ for a_ in ancestors(y) if isinstance(a_, (ast.For, ast.AsyncFor)) and isinstance(a_.target, ast.Name) and a_.target.id == y.value.id), None)
            if loop is None or any(isinstance(x, ast.Name) and x.id == y.value.id and isinstance(x.ctx, ast.Store) and x is not loop.target for st_ in loop.body for x in ast.walk(st_)):
                return None
            out.append((y.value.id, guard_formula(g, y)))
        return out
    if not rets:
        return None
    for r in rets:
        for _ in range(3):
            if isinstance(r, ast.Name):
                r = local_defs(repo, g).get(r.id)
            elif isinstance(r, ast.Call) and isinstance(r.func, ast.Name) and _call_name(r) in ("sorted", "list", "tuple", "set", "frozenset", "iter") and r.args:
                r = r.args[0]
            else:
                break
        if isinstance(r, (ast.List, ast.Tuple, ast.Set)) and not r.elts:
            continue
        if not (isinstance(r, (ast.ListComp, ast.SetComp, ast.GeneratorExp)) and len(r.generators) == 1 and isinstance(r.elt, ast.Name) and isinstance(r.generators[0].target, ast.Name) and r.generators[0].target.id == r.elt.id and r.generators[0].ifs):
            return None
        out.append((r.elt.id, f_and([to_formula(c, copy_prop(g)) for c in r.generators[0].ifs])))
    return out or None


def _element_selected_by_helper(repo: Repo, f: FuncInfo, use: ast.AST, hay_e: ast.expr, other_e: ast.expr) -> bool:
    """One of the two strings is the variable of a loop / comprehension over `helper(.., <the other string>, ..)`, and every element
    the helper hands out (filtered comprehension it returns, or `yield` under a condition inside its loop) satisfies
    `hay == other or hay.startswith(other + ".")` - with the element in the role of the loop variable and the parameter that
    receives the other string in the other role:
      for m in self._submodules_including(p): m[len(p):]      (the name is the element)
      for p in self._containing(m, candidates): m[len(p):]    (the prefix is the element)"""
    from core.guards import f_or, implies

    for var_e, arg_e, var_is_hay in ((hay_e, other_e, True), (other_e, hay_e, False)):
        if not isinstance(var_e, ast.Name):
            continue
        lb = _loop_binding(f, var_e.id, use)
        if lb is None or not isinstance(lb[0], ast.Name):
            continue
        it = lb[1]
        for _ in range(3):
            if isinstance(it, ast.Name):
                it = local_defs(repo, f).get(it.id)
            elif isinstance(it, ast.Call) and isinstance(it.func, ast.Name) and _call_name(it) in ("sorted", "list", "tuple", "set", "reversed", "iter", "frozenset") and it.args:
                it = it.args[0]
            else:
                break
        if not isinstance(it, ast.Call):
            continue
        cs = origins(repo)._callees(f, it)
        if len(cs) != 1 or isinstance(cs[0].node, ast.Lambda):
            continue
        g = cs[0]
        arg_text = norm(arg_e)
        pos_ = _positional(g)
        if isinstance(it.func, ast.Attribute) and pos_ and pos_[0] in ("self", "cls"):
            pos_ = pos_[1:]
        op = next((pos_[i] for i, a in enumerate(it.args) if i < len(pos_) and norm(a) == arg_text), None) or next((k.arg for k in it.keywords if norm(k.value) == arg_text), None)
        if op is None or origins(repo)._bindings(g, op):
            continue  # not handed to the helper / re-bound inside it
        sels = _helper_selections(repo, g)
        if not sels:
            continue
        ok = True
        for elt, facts in sels:
            H, N = (elt, op) if var_is_hay else (op, elt)
            safe_a, _raw = _relation_atoms(repo, g, facts, H, {N})
            try:
                if not (safe_a and implies(facts, f_or(safe_a))):
                    ok = False
            except AnalysisError:
                ok = False
        if ok:
            return True
    return False


def _slice_by_len(repo: Repo, f: FuncInfo, n: ast.AST, other_e: ast.expr, boundary_funcs: set[str], depth: int = 0, hay_e: ast.expr | None = None, relation_only: bool = False) -> tuple[str, str]:
    """Verdict for removing the first len(other) characters of the name `hay` at node `n` (`hay[len(other):]`, `hay.removeprefix(other)`).

    relation_only: accept only when `hay == other or hay.startswith(other + ".")` is established at `n` (not because the result
    is merely examined) - for operations that are a cut only under that relation (`hay.replace(other, x, 1)`)."""
    from core.guards import f_or, implies

    hay_e = hay_e if hay_e is not None else n.value
    other = norm(other_e)
    hay = norm(hay_e)
    facts, others = _site_facts(repo, f, n, other)
    safe_a, raw_a = _relation_atoms(repo, f, facts, hay, others)
    try:
        if safe_a and implies(facts, f_or(safe_a)):
            return "safe", "prefix length of an ancestor established by a boundary-safe test"
        if _ancestor_or_self(repo, f, other_e, hay):
            return "safe", "the other string is the name itself or one of its ancestors (get_parent_modules)"
        if not relation_only:
            if f.fq in boundary_funcs or _boundary_predicate(repo, f, hay, other):
                return "safe", "the remainder is only examined by the boundary test of this predicate"
            if _remainder_only_examined(repo, f, n):
                return "safe", "the remainder is only tested to be empty or to start with the separator"
            only_tests, guarded = _remainder_uses(repo, f, n, hay_e, other_e)
            if only_tests:
                return "safe", "the remainder is only tested to be empty or to start with the separator"
            if guarded and raw_a and implies(facts, f_or([*safe_a, *raw_a])):
                return "safe", "after the raw prefix test the remainder is used only where it was tested to be empty or to start with the separator"
        if raw_a and implies(facts, f_or([*safe_a, *raw_a])):
            return "unsafe", f"`{norm(n, 60)}` cuts a module name at the length of another string without a boundary-safe prefix test"
    except AnalysisError:
        pass
    # the other string was selected by a helper: `ancestor = self._most_specific(name, candidates)` with
    # `return next(m for m in candidates if name == m or name.startswith(m + "."))` / a loop returning the first match
    if depth < 2 and isinstance(other_e, ast.Name) and not isinstance(f.node, ast.Lambda):
        d_ = local_defs(repo, f).get(other_e.id)
        if isinstance(d_, ast.Call):
            cs = origins(repo)._callees(f, d_)
            if len(cs) == 1 and not isinstance(cs[0].node, ast.Lambda):
                g = cs[0]
                pos_ = _positional(g)
                hp = next((pos_[i] for i, a in enumerate(d_.args) if norm(a) == hay and i < len(pos_)), None) or next((k.arg for k in d_.keywords if norm(k.value) == hay), None)
                rets = [r for r in own_nodes(g.node) if isinstance(r, ast.Return) and r.value is not None and not (isinstance(r.value, ast.Constant) and r.value.value is None)]
                if hp is not None and rets and not any(isinstance(x, (ast.Yield, ast.YieldFrom)) for x in own_nodes(g.node)):
                    ok = True
                    for r in rets:
                        try:
                            facts_r, others_r = _site_facts(repo, g, r.value, norm(r.value), assume_not_none=True)  # None: nothing is cut
                            safe_r, _raw = _relation_atoms(repo, g, facts_r, hp, others_r)
                            if not (safe_r and implies(facts_r, f_or(safe_r))) and not _ancestor_or_self(repo, g, r.value, hp):
                                ok = False
                        except AnalysisError:
                            ok = False
                    if ok:
                        return "safe", "the other string was selected by a helper that returns an ancestor (or the name itself) established by a boundary-safe test"
    # the relation may have been established by the callers of a small helper: `label = alias + _rest(name, ancestor)`
    if depth < 2 and not isinstance(f.node, ast.Lambda) and isinstance(hay_e, ast.Name) and isinstance(other_e, ast.Name) and hay_e.id in f.param_names and other_e.id in f.param_names:
        ha, oa = _callers_args(repo, f, hay_e.id), _callers_args(repo, f, other_e.id)
        if ha and oa and len(ha) == len(oa):
            verdicts = []
            for (g, h_expr), (g2, o_expr) in zip(ha, oa):
                if g is not g2 or isinstance(h_expr, ast.Starred) or isinstance(o_expr, ast.Starred):
                    verdicts.append("unknown")
                    continue
                call = next((c for c in calls_in(g.node) if any(a is h_expr for a in [*c.args, *[k.value for k in c.keywords]])), None)
                if call is None:
                    verdicts.append("unknown")
                    continue
                v, _w = _slice_by_len_at(repo, g, call, h_expr, o_expr, boundary_funcs, depth + 1)
                verdicts.append(v)
            if verdicts and all(v == "safe" for v in verdicts):
                return "safe", "every caller establishes the boundary-safe prefix relation before the cut"
            if any(v == "unsafe" for v in verdicts):
                return "unsafe", f"`{norm(n, 60)}` cuts a module name at the length of another string; a caller establishes only a raw prefix relation"
    # the cut happens in a method of a small value class (`name.relative_to(other)`): every caller must have established the
    # relation between the receiver's field and the argument (`if name.is_or_is_below(other): ... name.relative_to(other)`)
    if depth < 2 and not isinstance(f.node, ast.Lambda) and f.cls is not None and isinstance(hay_e, ast.Attribute) and isinstance(hay_e.value, ast.Name) and hay_e.value.id == "self" and isinstance(other_e, ast.Name) and other_e.id in f.param_names:
        oa = _callers_args(repo, f, other_e.id)
        if oa:
            verdicts = []
            for g, o_expr in oa:
                call = next((c for c in calls_in(g.node) if any(a is o_expr for a in [*c.args, *[k.value for k in c.keywords]])), None)
                if call is None or isinstance(o_expr, ast.Starred) or not isinstance(call.func, ast.Attribute):
                    verdicts.append("unknown")
                    continue
                h_caller = f"{norm(call.func.value)}.{hay_e.attr}"
                try:
                    facts_c, others_c = _site_facts(repo, g, call, norm(o_expr))
                    safe_c, raw_c = _relation_atoms(repo, g, facts_c, h_caller, others_c)
                    verdicts.append("safe" if safe_c and implies(facts_c, f_or(safe_c)) else "unknown")
                except AnalysisError:
                    verdicts.append("unknown")
            if verdicts and all(v == "safe" for v in verdicts):
                return "safe", "every caller establishes, by a relation predicate of the same object, that the argument is the name or one of its ancestors"
    # the name is an element of what a helper selected for the other string: `for m in self._submodules_including(p): m[len(p):]`
    # with `return [m for m in names if m == p or m.startswith(p + ".")]`
    if depth < 2 and (isinstance(hay_e, ast.Name) or isinstance(other_e, ast.Name)) and not isinstance(f.node, ast.Lambda):
        try:
            if _element_selected_by_helper(repo, f, n, hay_e, other_e):
                return "safe", "one of the two strings is an element that a helper selected (filtered comprehension / generator) by a boundary-safe test against the other one"
        except RecursionError:
            raise
        except Exception:  # noqa: BLE001
            pass
    # no string test at all, and the name was reached along graph edges: `for m in walk_of_successors(p): label(m[len(p):])`
    if depth == 0:
        try:
            edge = next((x for _g, x, kind in origins(repo).value(f, hay_e) if kind == "elem" and isinstance(x, ast.Call) and isinstance(x.func, ast.Attribute) and x.func.attr in GRAPH_NEIGHBOURS), None)
        except RecursionError:
            raise
        except Exception:  # noqa: BLE001
            edge = None
        if edge is not None:
            return "unsafe", f"`{norm(n, 60)}` cuts a module name at the length of another one, and no test on the two strings establishes that the name is that module or lies below it by whole dotted components: `{hay}` is reached along graph edges (`{norm(edge, 50)}`), which relate nodes, not names - wherever an edge joins two names that are not dotted parent and child, the cut takes an unrelated piece of the name"
    return "unknown", f"`{norm(n, 60)}`: no test relating `{hay}` and `{other}` found on the paths to this slice"


def _slice_by_len_at(repo: Repo, g: FuncInfo, at: ast.AST, hay_e: ast.expr, other_e: ast.expr, boundary_funcs: set[str], depth: int) -> tuple[str, str]:
    """_slice_by_len for a cut that happens inside a callee: the facts are those at the call `at` in `g`."""
    from core.guards import f_or, implies

    other, hay = norm(other_e), norm(hay_e)
    facts, others = _site_facts(repo, g, at, other)
    safe_a, raw_a = _relation_atoms(repo, g, facts, hay, others)
    try:
        if safe_a and implies(facts, f_or(safe_a)):
            return "safe", ""
        if _ancestor_or_self(repo, g, other_e, hay):
            return "safe", ""
        if raw_a and implies(facts, f_or([*safe_a, *raw_a])):
            return "unsafe", ""
    except AnalysisError:
        pass
    return "unknown", ""


# --------------------------------------------------------------------------- the scan


def _head_tested_empty(repo: Repo, f: FuncInfo, call: ast.Call) -> bool:
    """`head, sep, tail = x.partition(p)` (or `x.partition(p)[0]`): the head is used, and only in tests that it is empty."""

    def emptiness_test(u: ast.AST) -> bool:
        p = parent(u)
        if isinstance(p, ast.Compare) and len(p.ops) == 1 and isinstance(p.ops[0], (ast.Eq, ast.NotEq)):
            other = p.comparators[0] if p.left is u else p.left
            return _const_str(other) == ""
        if isinstance(p, ast.UnaryOp) and isinstance(p.op, ast.Not):
            return True
        return isinstance(p, (ast.BoolOp, ast.If, ast.While)) or (isinstance(p, ast.IfExp) and p.test is u)

    if isinstance(f.node, ast.Lambda):
        return False
    p = parent(call)
    if isinstance(p, ast.Subscript) and isinstance(p.slice, ast.Constant) and p.slice.value == 0:
        return emptiness_test(p)
    st = stmt_of(call)
    if isinstance(st, ast.Assign) and st.value is call and len(st.targets) == 1 and isinstance(st.targets[0], (ast.Tuple, ast.List)) and len(st.targets[0].elts) == 3 and isinstance(st.targets[0].elts[0], ast.Name):
        head = st.targets[0].elts[0].id
        stores = [x for x in own_nodes(f.node) if isinstance(x, ast.Name) and x.id == head and isinstance(x.ctx, ast.Store)]
        loads = [x for x in own_nodes(f.node) if isinstance(x, ast.Name) and x.id == head and isinstance(x.ctx, ast.Load)]
        return len(stores) == 1 and bool(loads) and all(emptiness_test(x) for x in loads)
    return False


def _block_lower_bound(repo: Repo, f: FuncInfo, upper_call: ast.Call) -> ast.expr | None:
    """The expression giving the lower index of the slice whose upper index is (the local holding) `upper_call`."""
    if isinstance(f.node, ast.Lambda):
        return None
    targets = {id(upper_call)}
    st = stmt_of(upper_call)
    var = st.targets[0].id if isinstance(st, ast.Assign) and st.value is upper_call and len(st.targets) == 1 and isinstance(st.targets[0], ast.Name) else None
    for x in own_nodes(f.node):
        if isinstance(x, ast.Subscript) and isinstance(x.slice, ast.Slice) and x.slice.upper is not None and x.slice.lower is not None:
            up = x.slice.upper
            if id(up) in targets or (var is not None and isinstance(up, ast.Name) and up.id == var):
                lo = x.slice.lower
                if isinstance(lo, ast.Name):
                    lo = local_defs(repo, f).get(lo.id, lo)
                return lo
    return None


def _only_compared_with_zero(repo: Repo, f: FuncInfo, call: ast.Call) -> bool:
    """The result of `x.find(p)` / `x.index(p)` is used for nothing but `== 0` / `!= 0` (directly or through one local)."""

    def is_zero_test(u: ast.AST) -> bool:
        p = parent(u)
        return isinstance(p, ast.Compare) and len(p.ops) == 1 and isinstance(p.ops[0], (ast.Eq, ast.NotEq)) and any(isinstance(x, ast.Constant) and x.value == 0 and x.value is not False for x in (p.left, p.comparators[0]))

    if is_zero_test(call):
        return True
    st = stmt_of(call)
    if isinstance(st, ast.Assign) and st.value is call and len(st.targets) == 1 and isinstance(st.targets[0], ast.Name) and not isinstance(f.node, ast.Lambda):
        var = st.targets[0].id
        stores = [x for x in own_nodes(f.node) if isinstance(x, ast.Name) and x.id == var and isinstance(x.ctx, ast.Store)]
        loads = [x for x in own_nodes(f.node) if isinstance(x, ast.Name) and x.id == var and isinstance(x.ctx, ast.Load)]
        return len(stores) == 1 and bool(loads) and all(is_zero_test(x) for x in loads)
    return False


def _zip_in_all(call: ast.Call) -> bool:
    """zip(..) is the iterable of the generator inside all(..): an element-wise equality test."""
    p = parent(call)
    if not isinstance(p, ast.comprehension) or p.iter is not call:
        return False
    comp = parent(p)
    if not isinstance(comp, (ast.GeneratorExp, ast.ListComp)):
        return False
    outer = parent(comp)
    return isinstance(outer, ast.Call) and _call_name(outer) == "all" and isinstance(comp.elt, ast.Compare) and all(isinstance(o, ast.Eq) for o in comp.elt.ops)


def _char_prefix_sites(repo: Repo, f: FuncInfo, loop: ast.For, char: str, it: ast.expr) -> list[Site]:
    """A loop over the characters of a name that accumulates them (`acc.append(c)`, `acc += c`) emits prefixes of the name:
    every use of the accumulator inside the loop must be guarded by `c == "."`."""
    from core.guards import atom as mk, atoms_of, f_or, implies

    from .common import guard_formula

    accs: dict[str, list[ast.AST]] = {}
    body_nodes = [x for st in loop.body for x in ast.walk(st)]
    for x in body_nodes:
        if isinstance(x, ast.Call) and isinstance(x.func, ast.Attribute) and x.func.attr == "append" and isinstance(x.func.value, ast.Name) and len(x.args) == 1 and isinstance(x.args[0], ast.Name) and x.args[0].id == char:
            accs.setdefault(x.func.value.id, []).append(x)
        if isinstance(x, ast.AugAssign) and isinstance(x.op, ast.Add) and isinstance(x.target, ast.Name) and any(isinstance(y, ast.Name) and y.id == char for y in ast.walk(x.value)):
            accs.setdefault(x.target.id, []).append(x)
    out: list[Site] = []
    for acc, stmts in accs.items():
        own = {id(y) for st_ in stmts for y in ast.walk(st_)}
        for x in body_nodes:
            if isinstance(x, ast.Name) and x.id == acc and isinstance(x.ctx, ast.Load) and id(x) not in own:
                facts = guard_formula(f, x)
                good = []
                for a in atoms_of(facts):
                    e = _parse_atom(a)
                    if isinstance(e, ast.Compare) and len(e.ops) == 1 and isinstance(e.ops[0], ast.Eq):
                        sides = [e.left, e.comparators[0]]
                        if any(isinstance(x, ast.Name) and x.id == char for x in sides) and any(_char_value(repo, f, x) == "." for x in sides if not (isinstance(x, ast.Name) and x.id == char)):
                            good.append(mk(a))
                try:
                    ok = bool(good) and implies(facts, f_or(good))
                except AnalysisError:
                    ok = False
                use = stmt_of(x)
                out.append(Site(f, use if use is not None else x, "char-prefix", it, x, True, "safe" if ok else "unsafe", "the accumulated characters are used only where the current character is the separator" if ok else f"`{norm(use, 60)}`: the characters accumulated so far (a raw string prefix of the name) are used at a position that is not tested to hold '.'", "separator"))
    return out


def _chars_of(repo: Repo, f: FuncInfo, e: ast.expr, depth: int = 0) -> ast.expr | None:
    """`e` denotes the sequence of the characters of a string, in order: `list(s)`, `tuple(s)`, `[*s]`, `[c for c in s]`, or a
    single-assignment local bound to one of these - returns `s`."""
    if depth > 3:
        return None
    if isinstance(e, ast.Call) and isinstance(e.func, ast.Name) and e.func.id in ("list", "tuple") and len(e.args) == 1 and not e.keywords and not _is_local(f, e.func.id):
        inner = _chars_of(repo, f, e.args[0], depth + 1)
        return inner if inner is not None else e.args[0]
    if isinstance(e, (ast.List, ast.Tuple)) and len(e.elts) == 1 and isinstance(e.elts[0], ast.Starred):
        return e.elts[0].value
    if isinstance(e, (ast.ListComp, ast.GeneratorExp)) and len(e.generators) == 1 and not e.generators[0].ifs and isinstance(e.elt, ast.Name) and isinstance(e.generators[0].target, ast.Name) and e.elt.id == e.generators[0].target.id:
        return e.generators[0].iter
    if isinstance(e, ast.Name) and not isinstance(f.node, ast.Lambda):
        d = local_defs(repo, f).get(e.id)
        if d is not None and not isinstance(d, ast.Name):
            return _chars_of(repo, f, d, depth + 1)
    return None


def _pair_joiner_separator(repo: Repo, f: FuncInfo, fn: ast.expr, depth: int = 0) -> str | None:
    """The constant a two-argument combiner puts between its arguments (`"{}.{}".format`, `lambda a, b: f"{a}.{b}"`,
    `lambda a, b: a + "." + b`, `lambda a, b: ".".join((a, b))`, a small function that returns one of these); None if `fn` is
    not such a combiner."""
    if isinstance(fn, ast.Attribute) and fn.attr == "format":
        fmt = _const_str(fn.value)
        if fmt is None and isinstance(fn.value, (ast.Name, ast.Attribute)):
            fmt = fold(repo, f.module, fn.value, f)
        if fmt is None:
            return None
        import re as _re

        m = _re.fullmatch(r"\{(0?)\}(.*?)\{(1?)\}", fmt, _re.S)
        if m is None or (bool(m.group(1)) != bool(m.group(3))) or "{" in m.group(2) or "}" in m.group(2):
            return None
        return m.group(2)
    params: list[str] | None = None
    body: ast.expr | None = None
    if isinstance(fn, ast.Lambda):
        a = fn.args
        if not (a.vararg or a.kwarg or a.kwonlyargs or a.defaults) and len(a.posonlyargs) + len(a.args) == 2:
            params, body = [x.arg for x in [*a.posonlyargs, *a.args]], fn.body
    elif isinstance(fn, (ast.Name, ast.Attribute)) and depth < 2:
        g = _resolve_callable_text(repo, f, fn)
        if g is not None and isinstance(g.node, (ast.FunctionDef, ast.Lambda)):
            ps = [x for x in _positional(g) if x not in ("self", "cls")]
            if isinstance(g.node, ast.Lambda):
                params, body = ps, g.node.body
            else:
                stmts = [st_ for st_ in g.node.body if not (isinstance(st_, ast.Expr) and isinstance(st_.value, ast.Constant))]
                if len(stmts) == 1 and isinstance(stmts[0], ast.Return) and stmts[0].value is not None:
                    params, body = ps, stmts[0].value
            if params is not None and len(params) != 2:
                params = None
    if params is None or body is None:
        return None
    x, y = params

    def is_(e: ast.expr, v: str) -> bool:
        return isinstance(e, ast.Name) and e.id == v

    if isinstance(body, ast.JoinedStr):
        vals = body.values
        if len(vals) in (2, 3) and isinstance(vals[0], ast.FormattedValue) and isinstance(vals[-1], ast.FormattedValue) and is_(vals[0].value, x) and is_(vals[-1].value, y):
            if len(vals) == 2:
                return ""
            return vals[1].value if isinstance(vals[1], ast.Constant) and isinstance(vals[1].value, str) else None
        return None
    if isinstance(body, ast.BinOp) and isinstance(body.op, ast.Add):
        if is_(body.left, x) and is_(body.right, y):
            return ""
        if isinstance(body.left, ast.BinOp) and isinstance(body.left.op, ast.Add) and is_(body.left.left, x) and is_(body.right, y):
            return _char_value(repo, f, body.left.right) if _const_str(body.left.right) is None else _const_str(body.left.right)
        if isinstance(body.right, ast.BinOp) and isinstance(body.right.op, ast.Add) and is_(body.left, x) and is_(body.right.right, y):
            return _char_value(repo, f, body.right.left) if _const_str(body.right.left) is None else _const_str(body.right.left)
        return None
    if isinstance(body, ast.Call) and isinstance(body.func, ast.Attribute) and body.func.attr == "join" and len(body.args) == 1 and isinstance(body.args[0], (ast.Tuple, ast.List)):
        el = body.args[0].elts
        if len(el) == 2 and is_(el[0], x) and is_(el[1], y):
            return _const_str(body.func.value)
        return None
    if isinstance(body, ast.Call) and isinstance(body.func, ast.Attribute) and body.func.attr == "format" and len(body.args) == 2 and not body.keywords and is_(body.args[0], x) and is_(body.args[1], y):
        return _pair_joiner_separator(repo, f, body.func, depth + 1)
    return None


def scan(repo: Repo) -> list[Site]:
    key = ("name_sites", id(repo))
    if key not in _cache:
        _cache[key] = _scan(repo)
    return list(_cache[key])


def _scan(repo: Repo) -> list[Site]:
    T = types_of(repo)
    flow = name_flow(repo)
    sites: list[Site] = []
    boundary_funcs: set[str] = set()

    def tagged(e: ast.expr) -> set[str]:
        return set(flow.tags(e))

    for f in repo.all_functions():
        reviewed = REVIEWED_PATTERN_SITES.get((f.module.name, f.qualname))
        try:
            sites.extend(_order_sites(repo, f, tagged))
        except RecursionError:
            raise
        except Exception:  # noqa: BLE001 - the order lint makes no statement about shapes it cannot read
            pass
        for n in own_nodes(f.node):
            try:
                # ---- case folding of a name that is then compared: distinct names become one
                if isinstance(n, ast.Call) and isinstance(n.func, ast.Attribute) and n.func.attr in ("lower", "upper", "casefold", "swapcase", "title", "capitalize") and not n.args and "NAME" in tagged(n.func.value) and _is_str(T, f, n.func.value) is not False:
                    p_ = parent(n)
                    used_in_test = isinstance(p_, ast.Compare) or (isinstance(p_, ast.Attribute) and p_.attr in STR_REL_METHODS) or (isinstance(p_, ast.Call) and isinstance(p_.func, ast.Attribute) and p_.func.attr in STR_REL_METHODS and n in p_.args)
                    if used_in_test:
                        sites.append(Site(f, n, "casefold", n.func.value, None, True, "unsafe", f"`{norm(p_, 80)}`: a module name is case-folded before it is compared - names that differ only in case are identified (not invariant under injective renaming)"))
                    continue
                # ---- method-style operations
                if isinstance(n, ast.Call) and isinstance(n.func, ast.Attribute) and (n.func.attr in STR_REL_METHODS or n.func.attr in ("split", "rsplit")) and n.args:
                    hay, needle, op = n.func.value, n.args[0], n.func.attr
                    if isinstance(hay, ast.Name) and hay.id == "str" and len(n.args) >= 2 and not _is_local(f, "str"):
                        hay, needle = n.args[0], n.args[1]  # unbound method: str.startswith(name, prefix)
                    s = _is_str(T, f, hay)
                    if s is False:
                        continue
                    if s is None and op in ("count", "index"):
                        continue  # list.count / list.index on a value of unknown static type
                    tags = tagged(hay)
                    is_name = "NAME" in tags
                    if not is_name:
                        if op not in ("split", "rsplit"):
                            sites.append(Site(f, n, op, hay, needle, False, "not-name" if s else "unclassified", f"haystack `{norm(hay, 40)}` is not derived from a module name" if s else "provenance of the haystack unknown"))
                        continue
                    const = _const_str(needle)
                    if const is None and isinstance(needle, (ast.Name, ast.Attribute, ast.JoinedStr, ast.BinOp)) and "NAME" not in tagged(needle):
                        const = fold(repo, f.module, needle, f)  # a module-level / local constant
                        if const is None and isinstance(needle, ast.Attribute):
                            const = _attr_constant(repo, T, f, needle)
                    group = "relation"
                    if op in ("startswith", "removeprefix"):
                        if const is not None and not const.endswith("."):
                            sites.append(Site(f, n, op, hay, needle, True, "not-name", f"constant prefix {const!r}: a lexical test, not a relation between two module names"))
                            continue
                        parts = needle.elts if isinstance(needle, ast.Tuple) else [needle]
                        if isinstance(needle, ast.Tuple) and parts and all(_const_str(x) is not None and not _const_str(x).endswith(".") for x in parts):
                            sites.append(Site(f, n, op, hay, needle, True, "not-name", "constant prefixes: a lexical test, not a relation between two module names"))
                            continue
                        sts = {needle_status(repo, f, p) for p in parts}
                        st = sts.pop() if len(sts) == 1 else ("bare" if "bare" in sts else ("mixed" if "mixed" in sts else "unknown"))
                        safe = st == "dot" or _boundary_companion(f, n, hay, needle)
                        why = "prefix ends in '.' (whole dotted components)" if safe else f"`{norm(n, 80)}`: raw string prefix test on a module name - 'pkg.ab' counts as part of 'pkg.a'"
                        if st == "mixed" and not safe:
                            plain = [o for p_ in parts for o in dot_origins(repo, f, p_)]
                            shown = "; ".join(f"`{norm(x.right if isinstance(x, ast.BinOp) and isinstance(x.left, ast.Name) and x.left.id == '<prev>' else x, 60)}`{' appended' if isinstance(x, ast.BinOp) and isinstance(x.left, ast.Name) and x.left.id == '<prev>' else ''} in {g.relpath.split('/')[-1]}::{g.qualname}" for g, x in plain[:3])
                            why = f"`{norm(n, 80)}`: the prefix ends with the separator '.' only on some paths - it is a plain name where it comes from {shown or 'another origin'}: there this is a raw string prefix test ('pkg.core_utils' counts as part of 'pkg.core')"
                        if not safe and _boundary_predicate(repo, f, norm(hay), norm(needle)):
                            safe, why = True, "raw prefix test inside a predicate that also requires the next character to be '.' or absent"
                            boundary_funcs.add(f.fq)
                        if not safe and len(parts) == 1 and op == "startswith":
                            reason = _raw_test_is_guarded(repo, f, n, hay, needle)
                            if reason is not None:
                                safe, why = True, reason
                        if not safe and op == "removeprefix" and st in ("bare", "mixed") and len(parts) == 1:
                            v, w = _slice_by_len(repo, f, n, needle, boundary_funcs, hay_e=hay)
                            if v == "safe":
                                safe, why = True, w
                        if not safe and st == "unknown":
                            sites.append(Site(f, n, op, hay, needle, True, "unknown", f"`{norm(n, 80)}`: cannot establish whether the prefix `{norm(needle, 40)}` ends with the separator '.'"))
                            continue
                    elif op in ("lstrip", "rstrip", "strip"):
                        if const is not None or "NAME" not in tagged(needle):
                            continue  # stripping constant characters (a trailing '.') is not a relation between names
                        safe, why = False, f"`{norm(n, 80)}`: str.{op} removes *characters* of the other name from the end(s), not a prefix or suffix of whole components"
                    elif op in ("endswith", "removesuffix"):
                        if const is not None and not const.startswith("."):
                            sites.append(Site(f, n, op, hay, needle, True, "not-name", f"constant suffix {const!r}: a lexical test, not a relation between two module names"))
                            continue
                        safe = _starts_with_dot(_expand(repo, f, needle))
                        why = "suffix starts at a '.' boundary" if safe else f"`{norm(n, 80)}`: raw string suffix test on a module name"
                    elif op in ("count", "find", "index", "rfind", "rindex", "partition", "rpartition", "split", "rsplit"):
                        safe = const == "."
                        if const is not None:
                            group = "separator"
                            why = "only the separator '.' is searched" if safe else f"`{norm(n, 80)}`: a module name is cut / searched at {const!r}, not at the separator '.'"
                        elif op in ("find", "index") and _only_compared_with_zero(repo, f, n) and needle_status(repo, f, needle) == "dot":
                            safe, why = True, "the position of a prefix that ends in '.' is only compared with 0: a prefix test on whole dotted components"
                        elif op == "partition" and _head_tested_empty(repo, f, n) and needle_status(repo, f, needle) == "dot":
                            safe, why = True, "the name is partitioned at a prefix that ends in '.' and the part before it is tested to be empty: a prefix test on whole dotted components"
                        else:
                            why = f"`{norm(n, 80)}`: substring search inside a module name ignores component boundaries"
                    else:  # replace
                        ntags = tagged(needle)
                        if const is None and "NAME" not in ntags:
                            sites.append(Site(f, n, op, hay, needle, True, "not-name", "replaces a non-name string"))
                            continue
                        safe = const is not None and "NAME" not in ntags
                        repl = _const_str(n.args[1]) if len(n.args) > 1 else None
                        if safe and const not in (".", "/", "\\") and repl is not None and "." in repl:
                            sites.append(Site(f, n, op, hay, needle, True, "unsafe", f"`{norm(n, 80)}`: {const!r} inside a module name is turned into the separator - different names become one", "separator"))
                            continue
                        why = "replaces a constant" if safe else f"`{norm(n, 80)}`: str.replace substitutes every occurrence of one module name inside another, not a leading run of whole components"
                        if not safe and const is None:
                            # name.replace(p, x, 1) substitutes the *first* occurrence of p: that is the leading run of whole
                            # components exactly when name == p or name.startswith(p + ".") holds at the call (position 0 is the
                            # leftmost occurrence then); after a raw prefix test, or without any test, it is another place
                            cnt = n.args[2] if len(n.args) == 3 else next((k.value for k in n.keywords if k.arg == "count"), None)
                            if len(n.args) in (2, 3) and isinstance(cnt, ast.Constant) and cnt.value == 1 and not isinstance(cnt.value, bool):
                                v, w = _slice_by_len(repo, f, n, needle, boundary_funcs, hay_e=hay, relation_only=True)
                                if v == "safe":
                                    safe, why = True, "only the first occurrence is replaced, and " + w + ": the first occurrence is the leading run of whole components"
                                else:
                                    why = f"`{norm(n, 80)}`: the first occurrence of one module name inside another is replaced, and no boundary-safe test establishes that the name is that module or lies below it - the occurrence may be anywhere (a raw prefix, the middle of a component)"
                    sites.append(Site(f, n, op, hay, needle, True, "safe" if safe else "unsafe", why, group))
                # ---- joining components
                elif isinstance(n, ast.Call) and isinstance(n.func, ast.Attribute) and n.func.attr == "join" and len(n.args) == 1 and _const_str(n.func.value) is not None:
                    arg = n.args[0]
                    comp = arg if isinstance(arg, (ast.GeneratorExp, ast.ListComp)) else None
                    elt = comp.elt if comp is not None else None
                    if comp is None:
                        if "PARTS" not in tagged(arg):
                            continue
                    elif "COMP" not in tagged(elt):
                        continue
                    sep = _const_str(n.func.value)
                    if sep in ("/", "\\"):
                        continue  # a module name written as a path
                    decorated = elt is not None and (_starts_with_dot(elt) or dot_status(repo, f, elt) == "dot")
                    if comp is not None and not isinstance(elt, ast.Name) and not decorated:
                        continue  # text built from components (a message), not a name
                    if sep == "." and not decorated:
                        verdict, why = "safe", "components are joined with the separator '.'"
                    elif sep == "" and decorated:
                        verdict, why = "safe", "every joined component carries its separator '.'"
                    else:
                        verdict, why = "unsafe", f"`{norm(n, 80)}`: the components of a module name are joined with {sep!r}, not with the separator '.'"
                    sites.append(Site(f, n, "join", n.args[0], n.func.value, True, verdict, why, "separator"))
                # ---- components folded pairwise into longer and longer names: accumulate(parts, "{}.{}".format), reduce(lambda a, b: a + "." + b, parts)
                elif isinstance(n, ast.Call) and isinstance(n.func, (ast.Name, ast.Attribute)) and (repo.resolve_name(f.module, n.func) or "") in ("itertools.accumulate", "functools.reduce") and len(n.args) >= 2:
                    folded = (repo.resolve_name(f.module, n.func) or "").endswith("reduce")
                    parts_e, fn_e = (n.args[1], n.args[0]) if folded else (n.args[0], n.args[1])
                    if "PARTS" not in tagged(parts_e):
                        continue
                    sep = _pair_joiner_separator(repo, f, fn_e)
                    if sep is None or sep in ("/", "\\"):
                        continue  # not a recognised joiner (no statement) / a module name written as a path
                    if sep == ".":
                        verdict, why = "safe", "components are joined pairwise with the separator '.'"
                    else:
                        verdict, why = "unsafe", f"`{norm(n, 80)}`: the components of a module name are joined pairwise with {sep!r}, not with the separator '.'"
                    sites.append(Site(f, n, "join", parts_e, fn_e, True, verdict, why, "separator"))
                # ---- a bound str method handed to map / filter / any: `any(map(name.startswith, prefixes))`
                elif isinstance(n, ast.Call) and isinstance(n.func, ast.Name) and n.func.id in ("map", "filter") and len(n.args) == 2 and isinstance(n.args[0], ast.Attribute) and n.args[0].attr in ("startswith", "endswith", "find", "__contains__"):
                    hay = n.args[0].value
                    if _is_str(T, f, hay) is False or "NAME" not in tagged(hay):
                        continue
                    needle = ast.Starred(value=n.args[1], ctx=ast.Load())
                    st = dot_status(repo, f, needle)
                    if st == "unknown":
                        tg = tagged(n.args[1])
                        st = "bare" if "DOT" not in tg and "NAME" in tg else "unknown"
                    op = n.args[0].attr
                    if op == "startswith" and st == "dot":
                        sites.append(Site(f, n, op, hay, n.args[1], True, "safe", "every prefix ends in '.' (whole dotted components)"))
                    elif op == "startswith" and st == "unknown":
                        sites.append(Site(f, n, op, hay, n.args[1], True, "unknown", f"`{norm(n, 80)}`: cannot establish whether the prefixes end with the separator '.'"))
                    else:
                        sites.append(Site(f, n, op, hay, n.args[1], True, "unsafe", f"`{norm(n, 80)}`: raw string {op} test on a module name, applied through the bound method"))
                # ---- a range of the sorted names delimited by a constructed key: bisect(names, name + "~")
                elif isinstance(n, ast.Call) and (repo.resolve_name(f.module, n.func) or "").startswith("bisect.bisect") and len(n.args) >= 2:
                    key_e = _expand(repo, f, n.args[1])
                    if "NAME" not in tagged(n.args[1]):
                        continue
                    # the piece that directly follows the name
                    follow = None
                    if isinstance(key_e, ast.JoinedStr) and len(key_e.values) >= 2 and isinstance(key_e.values[0], ast.FormattedValue):
                        follow = key_e.values[1].value if isinstance(key_e.values[1], ast.FormattedValue) else key_e.values[1]
                    elif isinstance(key_e, ast.BinOp) and isinstance(key_e.op, ast.Add):
                        x = key_e
                        while isinstance(x.left, ast.BinOp) and isinstance(x.left.op, ast.Add):
                            x = x.left
                        follow = x.right
                    if follow is None:
                        continue  # the position of the name itself
                    c = _char_value(repo, f, follow)
                    if c is not None and c[:1] == ".":
                        sites.append(Site(f, n, "bisect", n.args[0], n.args[1], True, "safe", "the bound continues the name with the separator: the block of its sub modules in the sorted names"))
                    elif c is not None and c[:1] == "/":
                        # exclusive upper bound of the block; the block must start behind the name itself, at name + "."
                        lower = _block_lower_bound(repo, f, n)
                        if lower is not None and isinstance(lower, ast.Call) and len(lower.args) >= 2 and norm(_expand(repo, f, lower.args[1])) == norm(_expand(repo, f, key_e.values[0].value if isinstance(key_e, ast.JoinedStr) else x.left)):
                            sites.append(Site(f, n, "bisect", n.args[0], n.args[1], True, "unsafe", f"`{norm(n, 70)}`: the block of sorted names starts at the module name itself and ends before name + '/': names that continue it with a character below '.' ('pkg.core-legacy', 'pkg.core+') are inside as well; the block of sub modules starts at name + '.'"))
                        else:
                            sites.append(Site(f, n, "bisect", n.args[0], n.args[1], True, "safe", "exclusive upper bound of the block of sub modules: the successor of the separator"))
                    elif c is not None:
                        sites.append(Site(f, n, "bisect", n.args[0], n.args[1], True, "unsafe", f"`{norm(n, 80)}`: the sorted names up to the module name followed by {c[:1]!r} are all names that have it as raw string prefix ('pkg.ab', 'pkg.a_b' for 'pkg.a'), not only its sub modules"))
                    else:
                        sites.append(Site(f, n, "bisect", n.args[0], n.args[1], True, "unknown", f"`{norm(n, 80)}`: a range of the sorted names is delimited by a key built from a module name; cannot establish that it ends right after the separator"))
                # ---- an early stop while scanning sorted names for ancestors: takewhile(is_ancestor, reversed(sorted_names))
                elif isinstance(n, ast.Call) and _call_name(n) in ("takewhile", "dropwhile") and len(n.args) == 2 and "NAME" in tagged(n.args[1]):
                    pred = n.args[0]
                    body = pred.body if isinstance(pred, ast.Lambda) else None
                    relational = body is not None and any(
                        isinstance(x, ast.Call) and isinstance(x.func, ast.Attribute) and x.func.attr in ("startswith", "endswith", "find", "index", "partition", "removeprefix")
                        and any("NAME" in tagged(y) for y in [x.func.value, *x.args] if isinstance(y, ast.expr))
                        for x in ast.walk(body)
                    )
                    if not relational and isinstance(pred, (ast.Name, ast.Attribute, ast.Call)):
                        target = pred.args[0] if isinstance(pred, ast.Call) and _call_name(pred) == "partial" and pred.args else pred
                        callee = _resolve_callable_text(repo, f, _clone(target)) if isinstance(target, (ast.Name, ast.Attribute)) else None
                        relational = callee is not None and any(s_.fi is callee and s_.name_typed and s_.group == "relation" for s_ in sites)
                    if relational:
                        sites.append(Site(f, n, _call_name(n), n.args[1], pred, True, "unsafe", f"`{norm(n, 80)}`: the scan over the names stops at the first one that is not related - this assumes that related names (ancestors) are neighbours in sort order, which depends on how their siblings are called ('pkg', 'pkg.a' | 'pkg.b.x': the sibling 'pkg.a' hides the ancestor 'pkg')"))
                # ---- library functions that compare names character by character
                elif isinstance(n, ast.Call) and (repo.resolve_name(f.module, n.func) or "") in ("os.path.commonprefix", "posixpath.commonprefix", "fnmatch.fnmatch", "fnmatch.fnmatchcase", "fnmatch.filter") and n.args:
                    fq = repo.resolve_name(f.module, n.func)
                    if fq.endswith("commonprefix"):
                        if "NAME" in tagged(n.args[0]):
                            sites.append(Site(f, n, "commonprefix", n.args[0], None, True, "unsafe", f"`{norm(n, 80)}`: commonprefix compares character by character - the common prefix of 'pkg.ab' and 'pkg.a' is 'pkg.a'"))
                    elif len(n.args) >= 2:
                        pat = _expand(repo, f, n.args[1])
                        if "NAME" in tagged(n.args[1]) and "NAME" in tagged(n.args[0]):
                            tail = pat.values[-1] if isinstance(pat, ast.JoinedStr) and pat.values else (pat.right if isinstance(pat, ast.BinOp) and isinstance(pat.op, ast.Add) else None)
                            ok = (_const_str(tail) or "").startswith(".") if tail is not None else False
                            sites.append(Site(f, n, "fnmatch", n.args[0], n.args[1], True, "safe" if ok else "unsafe", "glob pattern continues with the separator after the name" if ok else f"`{norm(n, 80)}`: a glob pattern is built from a module name without a component boundary (and its metacharacters are not escaped)"))
                # ---- comparison of two names through zip: character by character, or component-wise
                elif isinstance(n, ast.Call) and isinstance(n.func, ast.Name) and n.func.id == "zip" and len(n.args) == 2 and _zip_in_all(n):
                    if all("NAME" in tagged(a) and "PARTS" not in tagged(a) and _is_str(T, f, a) is True for a in n.args):
                        sites.append(Site(f, n, "zip-characters", n.args[0], n.args[1], True, "unsafe", f"`{norm(n, 80)}`: two module names are compared character by character up to the length of the shorter one - a raw string prefix test"))
                        continue
                    if not all("PARTS" in tagged(a) for a in n.args):
                        continue
                    strict = any(k.arg == "strict" and isinstance(k.value, ast.Constant) and k.value.value is True for k in n.keywords)
                    texts = set()
                    for a in n.args:
                        texts.add(norm(a))
                        d = _expand(repo, f, a)
                        texts.add(norm(d))
                    lens = False
                    for c in own_nodes(f.node):
                        if isinstance(c, ast.Compare) and len(c.ops) == 1:
                            sides = [c.left, c.comparators[0]]
                            got = [any(isinstance(x, ast.Call) and _call_name(x) == "len" and x.args and norm(x.args[0]) in texts for x in ast.walk(sd)) for sd in sides]
                            if all(got):
                                lens = True
                    if strict or lens:
                        verdict, why = "safe", "component lists compared element-wise, their lengths separately"
                    else:
                        verdict, why = "unsafe", f"`{norm(n, 80)}`: zip stops at the shorter component list - a proper ancestor ('pkg' for the prefix 'pkg.core') compares equal, the prefix relation holds in both directions"
                    sites.append(Site(f, n, "zip-components", n.args[0], n.args[1], True, verdict, why, "extent"))
                # ---- substring containment
                elif isinstance(n, ast.Compare) and len(n.ops) == 1 and isinstance(n.ops[0], (ast.In, ast.NotIn)):
                    needle, hay = n.left, n.comparators[0]
                    s = _is_str(T, f, hay)
                    if s is False or isinstance(hay, ast.Constant):
                        continue  # (membership of a character in a constant set of characters: see char-compare)
                    tags = tagged(hay)
                    if s is None:
                        continue  # a NAME-tagged value of unknown static type may be a collection of names
                    if "NAME" in tags or "NAME" in tagged(needle):
                        folded = _const_str(needle)
                        if folded is None and "NAME" not in tagged(needle) and isinstance(needle, (ast.Name, ast.Attribute)):
                            folded = fold(repo, f.module, needle, f) or (_attr_constant(repo, T, f, needle) if isinstance(needle, ast.Attribute) else None)
                        if folded is not None:
                            needle_c = ast.Constant(value=folded)
                            ok = folded == "."
                            sites.append(Site(f, n, "in", hay, needle, True, "safe" if ok else "not-name", "tests for the separator only" if ok else f"constant {folded!r} searched in a name: a lexical test, not a relation between two module names", "separator" if ok else "relation"))
                        elif isinstance(needle, ast.Constant) and isinstance(needle.value, str):
                            ok = needle.value == "."
                            sites.append(Site(f, n, "in", hay, needle, True, "safe" if ok else "not-name", "tests for the separator only" if ok else f"constant {needle.value!r} searched in a name: a lexical test, not a relation between two module names", "separator" if ok else "relation"))
                        elif "NAME" not in tags and _is_str(T, f, needle) is not True:
                            continue
                        elif all(_starts_with_dot(x) and dot_status(repo, f, x) == "dot" for x in (_expand(repo, f, needle), _expand(repo, f, hay))):
                            sites.append(Site(f, n, "in", hay, needle, True, "safe", "both strings are enclosed in separators: a run of whole components is searched"))
                        else:
                            sites.append(Site(f, n, "in", hay, needle, True, "unsafe", f"`{norm(n, 80)}`: substring test between strings where a module name is involved ('pkg.a' in 'pkg.ab.c' is true)"))
                    else:
                        sites.append(Site(f, n, "in", hay, needle, False, "not-name", "substring test on a non-name string"))
                # ---- regexes built from values
                elif isinstance(n, ast.Call) and (repo.resolve_name(f.module, n.func) or "").startswith("re.") and n.args:
                    fq = repo.resolve_name(f.module, n.func)
                    if fq in ("re.escape",):
                        continue
                    pat = n.args[0]
                    ptags = tagged(pat)
                    if isinstance(pat, ast.Constant):
                        continue
                    if "NAME" in ptags and _user_regex(repo, f, pat):
                        sites.append(Site(f, n, fq, n.args[1] if len(n.args) > 1 else None, pat, True, "reviewed", "the pattern is the identifier of a regex filter (ModuleNameRegexFilter): a user-supplied regex matched against names by design"))
                        continue
                    if reviewed:
                        sites.append(Site(f, n, fq, n.args[1] if len(n.args) > 1 else None, pat, True, "reviewed", reviewed))
                        continue
                    pieces = _pattern_pieces(repo, f, pat) if "NAME" in ptags else None
                    all_escaped = pieces is not None and not pieces[0] and pieces[1]
                    if all_escaped:
                        ptags = (ptags - {"NAME"}) | {"ESC:NAME"}
                    if "NAME" in ptags:
                        sites.append(Site(f, n, fq, n.args[-1], pat, True, "unsafe", f"`{norm(n, 80)}`: a regular expression is built from an un-escaped module name ('.' matches any character; no component boundary)"))
                    elif "ESC:NAME" in ptags:
                        text = norm(_expand(repo, f, pat))
                        safe = "(\\.|$)" in text or "(\\\\.|$)" in text or "\\." in text or "\\b" in text or fq == "re.fullmatch"
                        sites.append(Site(f, n, fq, n.args[-1], pat, True, "safe" if safe else "unsafe", "escaped name followed by a component boundary" if safe else f"`{norm(n, 80)}`: escaped module name without a trailing component boundary"))
                    elif ptags & {"REGEX"}:
                        sites.append(Site(f, n, fq, n.args[-1], pat, False, "reviewed", "user-supplied regex"))
                    else:
                        # pattern built from constants / non-name values
                        sites.append(Site(f, n, fq, n.args[-1] if len(n.args) > 1 else None, pat, False, "not-name", "pattern is not derived from a module name"))
                # ---- slicing a name
                elif isinstance(n, ast.Subscript) and isinstance(n.slice, ast.Slice) and isinstance(n.ctx, ast.Load) and "NAME" in tagged(n.value):
                    s = _is_str(T, f, n.value)
                    if s is not True and isinstance(n.value, ast.Name):
                        # a slice of the list of the characters of a name, joined again: "".join(chars[:i]) is name[:i]
                        src = _chars_of(repo, f, n.value)
                        p_ = parent(n)
                        if src is not None and "NAME" in tagged(src) and _is_str(T, f, src) is True and isinstance(p_, ast.Call) and isinstance(p_.func, ast.Attribute) and p_.func.attr == "join" and _const_str(p_.func.value) == "" and len(p_.args) == 1 and p_.args[0] is n:
                            for b, is_upper in [(n.slice.lower, False), (n.slice.upper, True)]:
                                if b is None or any(isinstance(c, ast.Call) and _call_name(c) == "len" for c in ast.walk(b)):
                                    continue
                                try:
                                    ast.literal_eval(b)
                                    continue  # constant bound
                                except Exception:  # noqa: BLE001
                                    pass
                                verdict, why = _index_cut(repo, f, n, b, is_upper)
                                sites.append(Site(f, n, "slice-by-index", n.value, b, True, verdict, why))
                                break
                            continue
                    if s is False:
                        continue
                    bounds = [(n.slice.lower, False), (n.slice.upper, True)]
                    as_test = _slice_as_prefix_test(repo, f, n)
                    if as_test is not None:
                        sites.append(Site(f, n, "slice-compare", n.value, parent(n), True, as_test[0], as_test[1]))
                        continue
                    hay_t = norm(n.value)
                    by_len = next((c for b, _u in bounds for c in [_len_bound(repo, f, b, hay_t)] if c is not None), None)
                    if by_len is not None:
                        other_e = by_len.args[0]
                        if _is_str(T, f, other_e) is False:
                            continue  # length of a component list, not of a string
                        verdict, why = _slice_by_len(repo, f, n, other_e, boundary_funcs)
                        sites.append(Site(f, n, "slice-by-len", n.value, by_len, True, verdict, why))
                        continue
                    if s is not True or "PARTS" in tagged(n.value):
                        continue
                    for b, is_upper in bounds:
                        if b is None:
                            continue
                        b_def = local_defs(repo, f).get(b.id) if isinstance(b, ast.Name) and not isinstance(f.node, ast.Lambda) else None
                        if _len_calls(repo, f, b) and not isinstance(b_def, ast.IfExp):
                            continue  # (a bound relative to the own length: a cut counted from the end, see the other bound)
                        try:
                            ast.literal_eval(b)
                            continue  # constant bound
                        except Exception:  # noqa: BLE001
                            pass
                        verdict, why = _index_cut(repo, f, n, b, is_upper)
                        sites.append(Site(f, n, "slice-by-index", n.value, b, True, verdict, why))
                        break
                # ---- characters of a name compared with constants
                elif isinstance(n, (ast.For, ast.AsyncFor, ast.comprehension)):
                    it = n.iter
                    if isinstance(it, ast.Call) and _call_name(it) == "enumerate" and it.args:
                        tgt = n.target.elts[1] if isinstance(n.target, ast.Tuple) and len(n.target.elts) == 2 else None
                        it = it.args[0]
                    else:
                        tgt = n.target
                    if isinstance(tgt, ast.Name) and _is_str(T, f, it) is not True:
                        src = _chars_of(repo, f, it)  # `chars = list(name)` ... `for c in chars`
                        if src is not None:
                            it = src
                    if not isinstance(tgt, ast.Name) or "NAME" not in tagged(it) or _is_str(T, f, it) is not True:
                        continue
                    if isinstance(n, (ast.For, ast.AsyncFor)):
                        sites.extend(_char_prefix_sites(repo, f, n, tgt.id, it))
                    for c in own_nodes(f.node):
                        if isinstance(c, ast.Compare) and len(c.ops) == 1 and any(isinstance(x, ast.Name) and x.id == tgt.id for x in (c.left, c.comparators[0])):
                            other = c.comparators[0] if isinstance(c.left, ast.Name) and c.left.id == tgt.id else c.left
                            k = _const_str(other)
                            if k is None and isinstance(other, (ast.Name, ast.Attribute)):
                                k = _char_value(repo, f, other) or (_attr_constant(repo, T, f, other) if isinstance(other, ast.Attribute) else None)
                            if k is None and isinstance(other, (ast.Tuple, ast.List, ast.Set)) and all(_const_str(x) is not None for x in other.elts):
                                k = "".join(sorted({_const_str(x) for x in other.elts}))
                            if k is None:
                                continue
                            ok = k == "."
                            sites.append(Site(f, c, "char-compare", it, other, True, "safe" if ok else "unsafe", "characters of the name are compared with the separator '.' only" if ok else f"`{norm(c, 60)}`: characters of a module name are compared with {k!r} - names are cut at other characters than '.'", "separator"))
            except RecursionError:
                raise
            except Exception as exc:  # noqa: BLE001 - an unusual shape must not pass silently nor abort the whole lint
                probe = [x for x in ast.walk(n) if isinstance(x, ast.expr)][:40] if isinstance(n, (ast.Call, ast.Compare, ast.Subscript)) else []
                if any("NAME" in tagged(x) for x in probe):
                    sites.append(Site(f, n, "internal", None, None, True, "unknown", f"`{norm(n, 60)}`: the lint failed on this construct ({type(exc).__name__}: {str(exc)[:80]})"))
    return sites


# --------------------------------------------------------------------------- F-NAME.ORDER: raw string order is not hierarchy order
#
# In a list of module names sorted as plain strings an ancestor precedes its descendants, and the block
# [bisect(name + "."), bisect(name + "/")) holds exactly the descendants of a name. Nothing else follows from the order: the
# descendants of a name do not directly follow it, and the ancestors of a name are not its neighbours - 'a' < 'a-b' < 'a.b'
# (characters below '.': '-', '+', '$', ' ', ...), and even with identifier-only names 'pkg' < 'pkg.a' < 'pkg.b.x'. A scan over such
# a list that stops, jumps or forgets earlier names as soon as a name is not related (or lies on a shallower level) treats string
# order as a pre-order of the module tree.

COUNTEREXAMPLE = "in plain string order 'a' < 'a-b' < 'a.b': the sibling 'a-b' stands between the module 'a' and its sub module 'a.b'"


def _sort_key_kind(repo: Repo, f: FuncInfo, key: ast.expr | None) -> str:
    """raw (no key / identity) | components (the list of the dotted components) | other."""
    if key is None or (isinstance(key, ast.Constant) and key.value is None):
        return "raw"
    if isinstance(key, ast.Lambda) and len(key.args.args) == 1 and not key.args.defaults:
        p, b = key.args.args[0].arg, key.body
        if isinstance(b, ast.Name) and b.id == p:
            return "raw"
        if isinstance(b, ast.Call) and _call_name(b) in ("tuple", "list") and len(b.args) == 1:
            b = b.args[0]
        if isinstance(b, ast.Call) and isinstance(b.func, ast.Attribute) and b.func.attr == "split" and isinstance(b.func.value, ast.Name) and b.func.value.id == p and len(b.args) == 1 and _char_value(repo, f, b.args[0]) == ".":
            return "components"
        return "other"
    if isinstance(key, (ast.Name, ast.Attribute)):
        g = _resolve_callable_text(repo, f, key)
        if g is not None and not isinstance(g.node, ast.Lambda):
            ps = [x for x in _positional(g) if x not in ("self", "cls")]
            rets = Origins._returns(g)
            if len(ps) == 1 and len(rets) == 1:
                b = rets[0]
                if isinstance(b, ast.Call) and _call_name(b) in ("tuple", "list") and len(b.args) == 1:
                    b = b.args[0]
                if isinstance(b, ast.Call) and isinstance(b.func, ast.Attribute) and b.func.attr == "split" and isinstance(b.func.value, ast.Name) and b.func.value.id == ps[0] and len(b.args) == 1 and _char_value(repo, g, b.args[0]) == ".":
                    return "components"
    return "other"


def name_list_order(repo: Repo, f: FuncInfo, e: ast.expr, depth: int = 0) -> str | None:
    """How the sequence denoted by `e` is ordered: 'raw' (sorted() / .sort() on plain strings), 'components' (sorted by the
    list of dotted components: a pre-order of the module tree), 'other' (another key), None (not known to be sorted).
    Wrappers that keep or reverse the order (reversed, list, tuple, iter, enumerate, slices) are looked through; locals, fields,
    and the return values of repo functions are followed."""
    if depth > 6:
        return None
    if isinstance(e, ast.Subscript) and isinstance(e.slice, ast.Slice):
        return name_list_order(repo, f, e.value, depth + 1)
    if isinstance(e, ast.Call):
        fn = e.func
        nm = _call_name(e)
        if isinstance(fn, ast.Name) and nm == "sorted" and e.args and not _is_local(f, "sorted"):
            return _sort_key_kind(repo, f, next((k.value for k in e.keywords if k.arg == "key"), None))
        if isinstance(fn, ast.Name) and nm in ("reversed", "list", "tuple", "iter", "enumerate") and e.args and not _is_local(f, nm):
            return name_list_order(repo, f, e.args[0], depth + 1)
        if isinstance(f.node, ast.Lambda):
            return None
        cs = origins(repo)._callees(f, e)
        if len(cs) == 1 and not isinstance(cs[0].node, ast.Lambda) and not any(isinstance(x, (ast.Yield, ast.YieldFrom)) for x in own_nodes(cs[0].node)):
            kinds = {name_list_order(repo, cs[0], r, depth + 1) for r in Origins._returns(cs[0])}
            return kinds.pop() if len(kinds) == 1 else None
        return None
    if isinstance(f.node, ast.Lambda):
        return None
    if isinstance(e, ast.Name):
        if e.id in f.param_names:
            # a parameter: ordered as what every call site passes (unless the function re-binds or sorts it itself)
            if origins(repo)._bindings(f, e.id) or any(isinstance(c, ast.Call) and isinstance(c.func, ast.Attribute) and c.func.attr == "sort" and isinstance(c.func.value, ast.Name) and c.func.value.id == e.id for c in own_nodes(f.node)):
                return None
            args = _callers_args(repo, f, e.id)
            if not args or any(isinstance(a, ast.Starred) for _h, a in args):
                return None
            kinds = {name_list_order(repo, h, a, depth + 1) for h, a in args}
            return kinds.pop() if len(kinds) == 1 else None
        binds = origins(repo)._bindings(f, e.id)
        vals = [src for kind, src, p_ in binds if kind == "value" and not p_]
        if not binds or len(vals) != len(binds):
            return None
        sorts = [c for c in own_nodes(f.node) if isinstance(c, ast.Call) and isinstance(c.func, ast.Attribute) and c.func.attr == "sort" and isinstance(c.func.value, ast.Name) and c.func.value.id == e.id]
        if sorts:  # sorted in place (after it was filled)
            kinds = {_sort_key_kind(repo, f, next((k.value for k in c.keywords if k.arg == "key"), None)) for c in sorts}
            return kinds.pop() if len(kinds) == 1 else None
        kinds = {name_list_order(repo, f, v, depth + 1) for v in vals}
        return kinds.pop() if len(kinds) == 1 else None
    if isinstance(e, ast.Attribute) and isinstance(e.value, ast.Name) and e.value.id in ("self", "cls") and f.cls is not None:
        O = origins(repo)
        asg = O._field_assignments(f, e.attr)
        if not asg:
            return None
        kinds = {name_list_order(repo, g, v, depth + 1) for g, v in asg}
        classes = [*repo.mro(f.cls), *repo.subclasses(f.cls)]
        for ci in classes:
            for m in [*ci.methods.values(), *ci.extra_methods]:
                for c in own_nodes(m.node):
                    if isinstance(c, ast.Call) and isinstance(c.func, ast.Attribute) and c.func.attr == "sort" and norm(c.func.value) == norm(e):
                        kinds = {_sort_key_kind(repo, m, next((k.value for k in c.keywords if k.arg == "key"), None))}
        return kinds.pop() if len(kinds) == 1 else None
    return None


def _order_sites(repo: Repo, f: FuncInfo, tagged) -> list[Site]:
    """Scans over module names sorted as plain strings that stop / jump / drop remembered names where a name is not related."""
    from core.guards import atom as mk, atoms_of, f_not, implies

    from .common import guard_formula

    if isinstance(f.node, ast.Lambda):
        return []
    out: list[Site] = []
    loops: list[tuple[ast.AST, ast.expr, set[str], str | None]] = []  # (loop, sorted sequence, element variables, index variable)
    for n in own_nodes(f.node):
        if isinstance(n, (ast.For, ast.AsyncFor)):
            it, tgt = n.iter, n.target
            if isinstance(it, ast.Call) and _call_name(it) == "enumerate" and it.args and isinstance(tgt, ast.Tuple) and len(tgt.elts) == 2:
                it, tgt = it.args[0], tgt.elts[1]
            if isinstance(tgt, ast.Name) and "NAME" in tagged(it):
                loops.append((n, it, {tgt.id}, None))
        if isinstance(n, (ast.For, ast.AsyncFor, ast.While)):
            # an index walk: `candidate = names[idx]` inside the loop
            for x in ast.walk(n):
                if isinstance(x, ast.Assign) and len(x.targets) == 1 and isinstance(x.targets[0], ast.Name) and isinstance(x.value, ast.Subscript) and not isinstance(x.value.slice, ast.Slice) and isinstance(x.value.slice, ast.Name) and "NAME" in tagged(x.value.value):
                    if any(l[0] is n for l in loops):
                        continue
                    loops.append((n, x.value.value, {x.targets[0].id}, x.value.slice.id))
                    break
    for loop, seq, elems, idx in loops:
        try:
            order = name_list_order(repo, f, seq)
        except RecursionError:
            raise
        except Exception:  # noqa: BLE001
            order = None
        if order not in ("raw", "components"):
            continue
        inner_loops = [x for st_ in loop.body for x in ast.walk(st_) if isinstance(x, (ast.For, ast.AsyncFor, ast.While))]

        def innermost_is_this(x: ast.AST) -> bool:
            for a in ancestors(x):
                if a is loop:
                    return True
                if isinstance(a, (ast.For, ast.AsyncFor, ast.While)):
                    return False
            return False

        def mentions(e_: ast.AST, names_: set[str]) -> bool:
            return any(isinstance(y, ast.Name) and y.id in names_ for y in ast.walk(e_))

        level_vars = set(elems)
        for x in ast.walk(loop):  # locals computed from the element: `level = name.count(".")`, `parts = name.split(".")`
            if isinstance(x, ast.Assign) and len(x.targets) == 1 and isinstance(x.targets[0], ast.Name) and mentions(x.value, elems):
                level_vars.add(x.targets[0].id)

        def evidence(x: ast.AST, levels: bool) -> str | None:
            """The path condition of `x` says that the current name is NOT related to another one (or compares levels)."""
            try:
                facts = guard_formula(f, x)
            except Exception:  # noqa: BLE001
                return None
            for a in atoms_of(facts):
                e_ = _unbool(_parse_atom(a))
                if e_ is None:
                    continue
                try:
                    ex = _expand_names(repo, f, e_)
                except Exception:  # noqa: BLE001
                    ex = e_
                rel = None
                for c in (e_, ex):  # (as written, and with single-assignment locals expanded)
                    if isinstance(c, ast.Call) and isinstance(c.func, ast.Attribute) and c.func.attr == "startswith" and c.args and (mentions(c.func.value, elems) or mentions(c.args[0], elems)):
                        rel = c
                if rel is None and isinstance(ex, ast.Call) and not (isinstance(ex.func, ast.Attribute) and ex.func.attr in STR_REL_METHODS) and mentions(ex, elems) and len(ex.args) + len(ex.keywords) >= 1:
                    texts = [" ".join(ast.unparse(a_).split()) for a_ in ex.args]
                    for i_, h_ in enumerate(texts):
                        others_ = {t for j_, t in enumerate(texts) if j_ != i_}
                        try:
                            if others_ and _relation_call(repo, f, ex, h_, others_, 0):
                                rel = ex
                        except RecursionError:
                            raise
                        except Exception:  # noqa: BLE001
                            pass
                if rel is not None:
                    try:
                        if implies(facts, f_not(mk(a))):
                            return f"`{norm(e_, 60)}` is false there"
                    except AnalysisError:
                        pass
                if levels and isinstance(ex, ast.Compare) and len(ex.ops) == 1 and isinstance(ex.ops[0], (ast.Lt, ast.LtE, ast.Gt, ast.GtE)) and mentions(e_, level_vars):
                    if any(isinstance(c, ast.Call) and isinstance(c.func, ast.Attribute) and ((c.func.attr == "count" and c.args and _const_str(c.args[0]) == ".") or (c.func.attr == "split" and c.args and _const_str(c.args[0]) == ".")) for c in ast.walk(ex)):
                        return f"the dotted levels are compared (`{norm(e_, 60)}`)"
            return None

        if order == "components":
            continue  # (a pre-order of the module tree: sub modules follow their module; nothing is claimed about such scans)
        what = f"the names in `{norm(seq, 40)}` are sorted as plain strings"
        # -- the scan ends / jumps where a name is not related
        for x in [y for st_ in loop.body for y in ast.walk(st_)]:
            kind = None
            if isinstance(x, ast.Break) and innermost_is_this(x):
                kind = "stops"
            elif isinstance(x, ast.Return) and not any(isinstance(a, (ast.FunctionDef, ast.AsyncFunctionDef, ast.Lambda)) and a is not f.node for a in ancestors(x) if a is not f.node and any(b is loop for b in ancestors(a))):
                kind = "stops"
            elif idx is not None and isinstance(x, ast.Assign) and len(x.targets) == 1 and isinstance(x.targets[0], ast.Name) and x.targets[0].id == idx:
                core, off = _strip_offset(x.value)
                if not (isinstance(core, ast.Name) and core.id == idx and off is not None):
                    kind = "jumps"
            if kind is None:
                continue
            ev = evidence(x, levels=False)
            if ev is not None:
                out.append(Site(f, x, "order-scan", seq, None, True, "unsafe", f"`{norm(stmt_of(x) or x, 60)}`: the scan over the sorted names {kind} where a name is not related to the searched one ({ev}) - {what}, so related names need not be neighbours: {COUNTEREXAMPLE}", "order"))
        # -- remembered names are dropped where a name is not related / lies on a shallower level (a stack of enclosing modules)
        stacks = set()
        for x in [y for st_ in loop.body for y in ast.walk(st_)]:
            if isinstance(x, ast.Call) and isinstance(x.func, ast.Attribute) and x.func.attr == "append" and isinstance(x.func.value, ast.Name) and len(x.args) == 1 and mentions(x.args[0], elems):
                stacks.add(x.func.value.id)
            if isinstance(x, ast.AugAssign) and isinstance(x.op, ast.Add) and isinstance(x.target, ast.Name) and mentions(x.value, elems):
                stacks.add(x.target.id)
        for x in [y for st_ in loop.body for y in ast.walk(st_)]:
            c_name = None
            if isinstance(x, ast.Call) and isinstance(x.func, ast.Attribute) and x.func.attr in ("pop", "clear") and isinstance(x.func.value, ast.Name):
                c_name = x.func.value.id
            elif isinstance(x, ast.Delete) and any(isinstance(t, ast.Subscript) and isinstance(t.value, ast.Name) for t in x.targets):
                c_name = next(t.value.id for t in x.targets if isinstance(t, ast.Subscript) and isinstance(t.value, ast.Name))
            elif isinstance(x, ast.Assign) and len(x.targets) == 1 and isinstance(x.targets[0], ast.Name) and isinstance(x.value, ast.Subscript) and isinstance(x.value.slice, ast.Slice) and isinstance(x.value.value, ast.Name) and x.value.value.id == x.targets[0].id:
                c_name = x.targets[0].id  # stack = stack[:k]
            if c_name is None or c_name not in stacks:
                continue
            level_vars_here = level_vars | {c_name}
            ev = evidence(x, levels=True)
            if ev is not None:
                out.append(Site(f, x, "order-stack", seq, None, True, "unsafe", f"`{norm(stmt_of(x) or x, 60)}`: names remembered from earlier rounds of the loop over the sorted names (`{c_name}`) are dropped where the current name is not below them ({ev}) - this takes the sort order for a pre-order of the module tree, but {what}: {COUNTEREXAMPLE} (sorting with key=lambda n: n.split('.') gives a pre-order)", "order"))
    return out


# --------------------------------------------------------------------------- positive fixture


def fixture_selfcheck() -> str:
    """Runs the lint on engine/fixtures/name_ops.py: every `unsafe_*` function must yield an unsafe site, no `safe_*` function may.

    The expected number of unsafe sites on the real tree is zero, so this is what shows on every run that the lint still bites.
    """
    import shutil
    import tempfile
    from pathlib import Path

    fx = Path(__file__).resolve().parents[1] / "fixtures" / "name_ops.py"
    tmp = Path(tempfile.mkdtemp(prefix="pta-fixture-"))
    try:
        (tmp / "src" / "pytestarch").mkdir(parents=True)
        shutil.copy(fx, tmp / "src" / "pytestarch" / "fixture_name_ops.py")
        sites = scan(Repo(tmp))
        by_fn: dict[str, set[str]] = {}
        for s_ in sites:
            if s_.name_typed:
                top = s_.fi
                while top.outer is not None:
                    top = top.outer
                by_fn.setdefault(top.name, set()).add(s_.verdict)
        tree = ast.parse(fx.read_text())
        defs = [n for c in [tree, *[c for c in tree.body if isinstance(c, ast.ClassDef)]] for n in c.body if isinstance(n, ast.FunctionDef)]
        want_unsafe = [n.name for n in defs if n.name.startswith("unsafe_")]
        want_safe = [n.name for n in defs if n.name.startswith("safe_") or n.name.startswith("_safe_")]
        want_notsafe = [n.name for n in defs if n.name.startswith("notsafe_")]  # must not be accepted (unsafe or undecided)
        bad = [n for n in want_unsafe if "unsafe" not in by_fn.get(n, set())] + [n for n in want_safe if by_fn.get(n, set()) - {"safe", "not-name", "reviewed"} or not by_fn.get(n)]
        bad += [n for n in want_notsafe if not (by_fn.get(n, set()) & {"unsafe", "unknown"})]
        if bad:
            raise AnalysisError(f"F-NAME fixture: idioms not classified as expected: {bad} (got { {k: sorted(v) for k, v in by_fn.items() if k in bad} })")
        return f"{len(want_unsafe)} unsafe and {len(want_safe)} safe idioms of engine/fixtures/name_ops.py classified as expected"
    finally:
        shutil.rmtree(tmp, ignore_errors=True)
