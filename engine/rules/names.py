"""F-NAME: every string-relational operation on a module-name-typed value must respect dotted-component boundaries.

Module-name-typed values are found by provenance (tag NAME of the flow engine), not by variable names:
  `.identifier` / `.parent_module` / `.name` of module filters and modules, results of Import.importer()/importee()/..._parent_modules(),
  get_parent_modules(..), Parser._get_module_name(..), nodes of the graph (`.nodes`, `arch.modules`), parameters annotated
  Node / AbstractNode / ModuleName, names read from import statements (`alias.name`, `<ImportFrom>.module`), keys of the plot
  `aliases` mapping - and everything these flow into (assignments, containers, calls, fields).
Operations: startswith / endswith / removeprefix / removesuffix / find / index / rfind / count / replace / partition, `a in b` on strings,
re.* with a pattern built from a value, slicing by len(other).
"""

from __future__ import annotations

import ast
from dataclasses import dataclass

from core.flow import Flow, Spec
from core.guards import atom, conds_formula
from core.loader import AnalysisError, FuncInfo, Repo, ancestors, calls_in, norm, own_nodes, parent
from core.types import STR, Types, members

from .common import conds, dotted, stmt_of, types_of

NAME_ANNOTATIONS = {"Node", "AbstractNode", "ModuleName"}
FILTER_CLASSES = ("ModuleFilter", "ModuleNameFilter", "ParentModuleNameFilter", "Module", "ModuleGroup")
REGEX_FILTER = "ModuleNameRegexFilter"
NAME_METHODS = {"importer", "importee", "importer_parent_modules", "importee_parent_modules"}
NAME_FUNCS = {"get_parent_modules", "_get_module_name", "get_node"}
STR_REL_METHODS = {"startswith", "endswith", "removeprefix", "removesuffix", "find", "index", "rfind", "rindex", "count", "replace", "partition", "rpartition"}

# user-supplied patterns matched against names *by design* (regexes in rules, exclusion patterns): reviewed, one reason per entry
REVIEWED_PATTERN_SITES = {
    ("pytestarch.eval_structure.module_name_converter", "ModuleNameConverter._name_matches_pattern"): "have_name_matching(regex): the user's regex is matched against module names by design (C11.R2 fixes the matching function)",
    ("pytestarch.eval_structure_generation.file_import.file_filter", "FileFilter._"): "exclusion patterns are user-supplied regexes matched against paths / external module names by design (C08.R2)",
    ("pytestarch.eval_structure_generation.file_import.file_filter", "FileFilter._#1"): "see above (singledispatch registration)",
    ("pytestarch.eval_structure_generation.file_import.file_filter", "FileFilter._#2"): "see above (singledispatch registration)",
    ("pytestarch.eval_structure_generation.file_import.file_filter", "FileFilter.__init__"): "compiles the user's exclusion patterns",
}


@dataclass
class Site:
    fi: FuncInfo
    node: ast.AST
    op: str
    haystack: ast.expr | None
    needle: ast.expr | None
    name_typed: bool
    verdict: str  # safe | unsafe | not-name | reviewed | unclassified
    why: str


def name_flow(repo: Repo) -> Flow:
    T = types_of(repo)

    def is_filter_type(f: FuncInfo, e: ast.expr) -> str:
        t = T.expr(f, e)
        kinds = set()
        for m in members(t):
            if m[0] == "cls":
                n = m[1].rsplit(".", 1)[-1]
                if n == REGEX_FILTER:
                    kinds.add("regex")
                elif n in FILTER_CLASSES or n == "Module":
                    kinds.add("name")
                elif n == "Module" and "diagram" in m[1]:
                    kinds.add("other")
                else:
                    kinds.add("other")
            elif m[0] == "unknown":
                kinds.add("unknown")
        if kinds == {"regex"}:
            return "regex"
        if "name" in kinds or kinds == {"unknown"} or not kinds:
            return "name"
        return "other"

    def sources(f: FuncInfo, e: ast.expr):
        if isinstance(e, ast.Attribute) and isinstance(e.ctx, ast.Load):
            if e.attr in ("identifier", "parent_module"):
                k = is_filter_type(f, e.value)
                return {"NAME"} if k == "name" else ({"REGEX"} if k == "regex" else None)
            if e.attr in ("nodes", "modules") and not (isinstance(parent(e), ast.Call) and parent(e).func is e):
                return {"NAME"}
            if e.attr == "name" and f.module.name.endswith("file_import.converter") and isinstance(e.value, ast.Name):
                return {"NAME"}
            if e.attr == "module" and f.module.name.endswith("file_import.converter") and isinstance(e.value, ast.Name) and e.value.id == "module":
                return {"NAME"}
        if isinstance(e, ast.Call):
            fn = e.func
            if isinstance(fn, ast.Attribute) and fn.attr in NAME_METHODS and not e.args:
                return {"NAME"}
            if (isinstance(fn, ast.Name) and fn.id in NAME_FUNCS) or (isinstance(fn, ast.Attribute) and fn.attr in NAME_FUNCS):
                return {"NAME"}
        return None

    seeds: dict[tuple[str, str], set[str]] = {}
    for f in repo.all_functions():
        for p in f.params:
            if p.annotation is not None:
                names = {n.id for n in ast.walk(p.annotation) if isinstance(n, ast.Name)} | {n.attr for n in ast.walk(p.annotation) if isinstance(n, ast.Attribute)}
                if names & NAME_ANNOTATIONS:
                    seeds[(f.fq, p.arg)] = {"NAME"}
            if p.arg == "aliases" and f.module.name.endswith("networkxgraph"):
                seeds[(f.fq, p.arg)] = {"NAME"}
            if p.arg in ("all_modules", "internal_modules", "all_internal_modules", "modules") and f.module.name.startswith("pytestarch.eval_structure_generation"):
                seeds[(f.fq, p.arg)] = {"NAME"}

    def transfer(f: FuncInfo, call: ast.Call, names, args, recv, kwargs):
        fn = call.func
        if isinstance(fn, ast.Name) and fn.id in ("len", "isinstance", "hasattr", "bool", "sorted") and fn.id != "sorted":
            return set()
        if (repo.resolve_name(f.module, fn) or "") == "re.escape" if isinstance(fn, (ast.Name, ast.Attribute)) else False:
            out = set()
            for a in args:
                out |= set(a)
            return {("ESC:" + t) if not t.startswith("ESC:") else t for t in out}
        return None

    return Flow(repo, T, Spec(sources=sources, transfer=transfer, param_seeds=seeds, objects_carry=False))


def _ends_with_dot(repo: Repo, f: FuncInfo, e: ast.expr, depth: int = 0) -> bool:
    """The string expression provably ends with '.'."""
    if depth > 4:
        return False
    if isinstance(e, ast.Constant):
        return isinstance(e.value, str) and e.value.endswith(".")
    if isinstance(e, ast.JoinedStr):
        return bool(e.values) and isinstance(e.values[-1], ast.Constant) and str(e.values[-1].value).endswith(".")
    if isinstance(e, ast.BinOp) and isinstance(e.op, ast.Add):
        return _ends_with_dot(repo, f, e.right, depth + 1)
    if isinstance(e, ast.Name) and not isinstance(f.node, ast.Lambda):
        assigns = [n for n in own_nodes(f.node) if isinstance(n, ast.Assign) and any(isinstance(t, ast.Name) and t.id == e.id for t in n.targets)]
        aug = [n for n in own_nodes(f.node) if isinstance(n, ast.AugAssign) and isinstance(n.target, ast.Name) and n.target.id == e.id]
        if len(assigns) == 1 and not aug and e.id not in f.param_names:
            return _ends_with_dot(repo, f, assigns[0].value, depth + 1)
    return False


def _is_str(T: Types, f: FuncInfo, e: ast.expr) -> bool | None:
    t = T.expr(f, e)
    ms = members(t)
    if any(m == STR for m in ms) and all(m == STR or m == ("unknown",) or m == ("b", "none", ()) for m in ms):
        return True
    if all(m == ("unknown",) for m in ms):
        # unknown static type: a name that is interpolated into an f-string or compared with `.identifier` is a string
        if isinstance(e, ast.Name) and not isinstance(f.node, ast.Lambda):
            for n in own_nodes(f.node):
                if isinstance(n, ast.FormattedValue) and isinstance(n.value, ast.Name) and n.value.id == e.id:
                    return True
                if isinstance(n, ast.Compare) and len(n.ops) == 1 and isinstance(n.ops[0], (ast.Eq, ast.NotEq)):
                    sides = [n.left, n.comparators[0]]
                    if any(isinstance(x, ast.Name) and x.id == e.id for x in sides) and any(isinstance(x, ast.Attribute) and x.attr in ("identifier", "name") for x in sides):
                        return True
        return None
    return False


def _boundary_companion(f: FuncInfo, call: ast.AST, hay: ast.expr, needle: ast.expr) -> bool:
    """An adjacent conjunct/disjunct checks the character after the prefix: x[len(p)] == "." / x[len(p):len(p)+1] in ("", ".")."""
    p = parent(call)
    while isinstance(p, ast.UnaryOp):
        p = parent(p)
    if not isinstance(p, ast.BoolOp):
        return False
    h, n = norm(hay), norm(needle)
    for v in p.values:
        for c in ast.walk(v):
            if isinstance(c, ast.Compare) and isinstance(c.left, ast.Subscript) and norm(c.left.value) == h and f"len({n})" in norm(c.left.slice):
                if any(isinstance(x, ast.Constant) and x.value == "." for x in ast.walk(c)):
                    return True
    return False


def scan(repo: Repo) -> list[Site]:
    T = types_of(repo)
    flow = name_flow(repo)
    sites: list[Site] = []

    def tagged(e: ast.expr) -> set[str]:
        return set(flow.tags(e))

    for f in repo.all_functions():
        reviewed = REVIEWED_PATTERN_SITES.get((f.module.name, f.qualname))
        for n in own_nodes(f.node):
            # ---- method-style operations
            if isinstance(n, ast.Call) and isinstance(n.func, ast.Attribute) and n.func.attr in STR_REL_METHODS and n.args:
                hay, needle, op = n.func.value, n.args[0], n.func.attr
                s = _is_str(T, f, hay)
                if s is False:
                    continue
                tags = tagged(hay)
                is_name = "NAME" in tags
                if not is_name:
                    sites.append(Site(f, n, op, hay, needle, False, "not-name" if s else "unclassified", f"haystack `{norm(hay, 40)}` is not derived from a module name" if s else "provenance of the haystack unknown"))
                    continue
                if op in ("startswith", "removeprefix"):
                    safe = _ends_with_dot(repo, f, needle) or _boundary_companion(f, n, hay, needle)
                    why = "prefix ends in '.' (whole dotted components)" if safe else f"`{norm(n, 80)}`: raw string prefix test on a module name - 'pkg.ab' counts as part of 'pkg.a'"
                elif op in ("endswith", "removesuffix"):
                    safe = isinstance(needle, (ast.Constant, ast.JoinedStr)) and (norm(needle).strip("f'\"").startswith("."))
                    why = "suffix starts at a '.' boundary" if safe else f"`{norm(n, 80)}`: raw string suffix test on a module name"
                elif op in ("count", "find", "index", "rfind", "rindex", "partition", "rpartition"):
                    safe = isinstance(needle, ast.Constant) and needle.value == "."
                    why = "only the separator '.' is searched" if safe else f"`{norm(n, 80)}`: substring search inside a module name ignores component boundaries"
                else:  # replace
                    safe = isinstance(needle, ast.Constant) and not ("NAME" in tagged(needle))
                    why = "replaces a constant" if safe else f"`{norm(n, 80)}`: str.replace substitutes every occurrence of one module name inside another, not a leading run of whole components"
                sites.append(Site(f, n, op, hay, needle, True, "safe" if safe else "unsafe", why))
            # ---- substring containment
            elif isinstance(n, ast.Compare) and len(n.ops) == 1 and isinstance(n.ops[0], (ast.In, ast.NotIn)):
                needle, hay = n.left, n.comparators[0]
                s = _is_str(T, f, hay)
                if s is False:
                    continue
                tags = tagged(hay)
                if s is None and "NAME" not in tags:
                    continue
                # a NAME-tagged value of unknown static type may be a collection of names: decide by how it was built
                if s is None:
                    t = T.expr(f, hay)
                    continue
                if "NAME" in tags or "NAME" in tagged(needle):
                    if isinstance(needle, ast.Constant) and needle.value == ".":
                        sites.append(Site(f, n, "in", hay, needle, True, "safe", "tests for the separator only"))
                    else:
                        sites.append(Site(f, n, "in", hay, needle, True, "unsafe", f"`{norm(n, 80)}`: substring test between strings where a module name is involved ('pkg.a' in 'pkg.ab.c' is true)"))
                else:
                    sites.append(Site(f, n, "in", hay, needle, False, "not-name", "substring test on a non-name string"))
            # ---- regexes built from values
            elif isinstance(n, ast.Call) and (repo.resolve_name(f.module, n.func) or "").startswith("re.") and n.args:
                fq = repo.resolve_name(f.module, n.func)
                if fq in ("re.escape",):
                    continue
                pat = n.args[0]
                ptags = tagged(pat)
                if isinstance(pat, ast.Constant):
                    continue
                if reviewed:
                    sites.append(Site(f, n, fq, n.args[1] if len(n.args) > 1 else None, pat, True, "reviewed", reviewed))
                    continue
                if "NAME" in ptags:
                    sites.append(Site(f, n, fq, n.args[-1], pat, True, "unsafe", f"`{norm(n, 80)}`: a regular expression is built from an un-escaped module name ('.' matches any character; no component boundary)"))
                elif "ESC:NAME" in ptags:
                    text = norm(pat)
                    safe = "(\\.|$)" in text or "(\\\\.|$)" in text or "\\." in text
                    sites.append(Site(f, n, fq, n.args[-1], pat, True, "safe" if safe else "unsafe", "escaped name followed by a component boundary" if safe else f"`{norm(n, 80)}`: escaped module name without a trailing component boundary"))
                elif ptags & {"REGEX"}:
                    sites.append(Site(f, n, fq, n.args[-1], pat, False, "reviewed", "user-supplied regex"))
                else:
                    # pattern built from constants / non-name values
                    sites.append(Site(f, n, fq, n.args[-1] if len(n.args) > 1 else None, pat, False, "not-name", "pattern is not derived from a module name"))
            # ---- slicing by len(other) on a name
            elif isinstance(n, ast.Subscript) and isinstance(n.slice, ast.Slice) and "NAME" in tagged(n.value):
                lens = [c for c in ast.walk(n.slice) if isinstance(c, ast.Call) and isinstance(c.func, ast.Name) and c.func.id == "len"]
                if lens:
                    # safe when the enclosing function established the prefix with a boundary-safe test on the same pair
                    other = norm(lens[0].args[0]) if lens[0].args else ""
                    others = {other}
                    # X = next(v for v in ... if <test on v>): X satisfies whatever the generator's filter established for v
                    for a_ in own_nodes(f.node):
                        if isinstance(a_, ast.Assign) and dotted(a_.targets[0]) == other and isinstance(a_.value, ast.Call) and dotted(a_.value.func) == "next" and a_.value.args and isinstance(a_.value.args[0], ast.GeneratorExp) and isinstance(a_.value.args[0].elt, ast.Name):
                            others.add(a_.value.args[0].elt.id)
                    hay = norm(n.value)
                    est = False
                    for c in own_nodes(f.node):
                        if isinstance(c, ast.Call) and isinstance(c.func, ast.Attribute) and c.func.attr == "startswith" and norm(c.func.value) == hay and c.args and (_ends_with_dot(repo, f, c.args[0]) and any(o in {x.id for x in ast.walk(c.args[0]) if isinstance(x, ast.Name)} for o in others)):
                            est = True
                    sites.append(Site(f, n, "slice-by-len", n.value, lens[0], True, "safe" if est else "unsafe", "prefix length of an ancestor established by a boundary-safe test" if est else f"`{norm(n, 60)}` cuts a module name at the length of another string without a boundary-safe prefix test"))
    return sites
