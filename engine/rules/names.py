"""F-NAME: every string-relational operation on a module-name-typed value must respect dotted-component boundaries.

Module-name-typed values are found by provenance (tag NAME of the flow engine), not by variable names:
  `.identifier` / `.parent_module` / `.name` of module filters and modules, results of Import.importer()/importee()/..._parent_modules(),
  get_parent_modules(..), Parser._get_module_name(..), nodes of the graph (`.nodes`, `arch.modules`), parameters annotated
  Node / AbstractNode / ModuleName, names read from import statements (`alias.name`, `<ImportFrom>.module`), keys of the plot
  `aliases` mapping - and everything these flow into (assignments, containers, calls, fields).
Operations: startswith / endswith / removeprefix / removesuffix / find / index / rfind / count / replace / partition, `a in b` on strings,
re.* with a pattern built from a value, slicing by len(other).
"""

from __future__ import annotations

import ast
from dataclasses import dataclass

from core.flow import Flow, Spec
from core.guards import atom, conds_formula
from core.loader import AnalysisError, FuncInfo, Repo, ancestors, calls_in, norm, own_nodes, parent
from core.types import STR, Types, members

from .common import conds, dotted, stmt_of, types_of

NAME_ANNOTATIONS = {"Node", "AbstractNode", "ModuleName"}
FILTER_CLASSES = ("ModuleFilter", "ModuleNameFilter", "ParentModuleNameFilter", "Module", "ModuleGroup")
REGEX_FILTER = "ModuleNameRegexFilter"
NAME_METHODS = {"importer", "importee", "importer_parent_modules", "importee_parent_modules"}
NAME_FUNCS = {"get_parent_modules", "_get_module_name", "get_node"}
STR_REL_METHODS = {"startswith", "endswith", "removeprefix", "removesuffix", "find", "index", "rfind", "rindex", "count", "replace", "partition", "rpartition"}

# user-supplied patterns matched against names *by design* (regexes in rules, exclusion patterns): reviewed, one reason per entry
REVIEWED_PATTERN_SITES = {
    ("pytestarch.eval_structure.module_name_converter", "ModuleNameConverter._name_matches_pattern"): "have_name_matching(regex): the user's regex is matched against module names by design (C11.R2 fixes the matching function)",
    ("pytestarch.eval_structure_generation.file_import.file_filter", "FileFilter._"): "exclusion patterns are user-supplied regexes matched against paths / external module names by design (C08.R2)",
    ("pytestarch.eval_structure_generation.file_import.file_filter", "FileFilter._#1"): "see above (singledispatch registration)",
    ("pytestarch.eval_structure_generation.file_import.file_filter", "FileFilter._#2"): "see above (singledispatch registration)",
    ("pytestarch.eval_structure_generation.file_import.file_filter", "FileFilter.__init__"): "compiles the user's exclusion patterns",
}


@dataclass
class Site:
    fi: FuncInfo
    node: ast.AST
    op: str
    haystack: ast.expr | None
    needle: ast.expr | None
    name_typed: bool
    verdict: str  # safe | unsafe | not-name | reviewed | unclassified
    why: str


def name_flow(repo: Repo) -> Flow:
    T = types_of(repo)

    def is_filter_type(f: FuncInfo, e: ast.expr) -> str:
        t = T.expr(f, e)
        kinds = set()
        for m in members(t):
            if m[0] == "cls":
                n = m[1].rsplit(".", 1)[-1]
                if n == REGEX_FILTER:
                    kinds.add("regex")
                elif n in FILTER_CLASSES or n == "Module":
                    kinds.add("name")
                elif n == "Module" and "diagram" in m[1]:
                    kinds.add("other")
                else:
                    kinds.add("other")
            elif m[0] == "unknown":
                kinds.add("unknown")
        if kinds == {"regex"}:
            return "regex"
        if "name" in kinds or kinds == {"unknown"} or not kinds:
            return "name"
        return "other"

    def sources(f: FuncInfo, e: ast.expr):
        if isinstance(e, ast.Attribute) and isinstance(e.ctx, ast.Load):
            if e.attr in ("identifier", "parent_module"):
                k = is_filter_type(f, e.value)
                return {"NAME"} if k == "name" else ({"REGEX"} if k == "regex" else None)
            if e.attr in ("nodes", "modules") and not (isinstance(parent(e), ast.Call) and parent(e).func is e):
                return {"NAME"}
            if e.attr == "name" and f.module.name.endswith("file_import.converter") and isinstance(e.value, ast.Name):
                return {"NAME"}
            if e.attr == "module" and f.module.name.endswith("file_import.converter") and isinstance(e.value, ast.Name) and e.value.id == "module":
                return {"NAME"}
        if isinstance(e, ast.Call):
            fn = e.func
            if isinstance(fn, ast.Attribute) and fn.attr in NAME_METHODS and not e.args:
                return {"NAME"}
            if (isinstance(fn, ast.Name) and fn.id in NAME_FUNCS) or (isinstance(fn, ast.Attribute) and fn.attr in NAME_FUNCS):
                return {"NAME"}
        return None

    seeds: dict[tuple[str, str], set[str]] = {}
    for f in repo.all_functions():
        for p in f.params:
            if p.annotation is not None:
                names = {n.id for n in ast.walk(p.annotation) if isinstance(n, ast.Name)} | {n.attr for n in ast.walk(p.annotation) if isinstance(n, ast.Attribute)}
                if names & NAME_ANNOTATIONS:
                    seeds[(f.fq, p.arg)] = {"NAME"}
            if p.arg == "aliases" and f.module.name.endswith("networkxgraph"):
                seeds[(f.fq, p.arg)] = {"NAME"}
            if p.arg in ("all_modules", "internal_modules", "all_internal_modules", "modules") and f.module.name.startswith("pytestarch.eval_structure_generation"):
                seeds[(f.fq, p.arg)] = {"NAME"}

    def transfer(f: FuncInfo, call: ast.Call, names, args, recv, kwargs):
        fn = call.func
        if isinstance(fn, ast.Name) and fn.id in ("len", "isinstance", "hasattr", "bool", "sorted") and fn.id != "sorted":
            return set()
        if (repo.resolve_name(f.module, fn) or "") == "re.escape" if isinstance(fn, (ast.Name, ast.Attribute)) else False:
            out = set()
            for a in args:
                out |= set(a)
            return {("ESC:" + t) if not t.startswith("ESC:") else t for t in out}
        return None

    return Flow(repo, T, Spec(sources=sources, transfer=transfer, param_seeds=seeds, objects_carry=False))


def _ends_with_dot_old(repo: Repo, f: FuncInfo, e: ast.expr, depth: int = 0) -> bool:
    """(superseded by dot_status)"""
    if depth > 4:
        return False
    if isinstance(e, ast.Constant):
        return isinstance(e.value, str) and e.value.endswith(".")
    if isinstance(e, ast.JoinedStr):
        return bool(e.values) and isinstance(e.values[-1], ast.Constant) and str(e.values[-1].value).endswith(".")
    if isinstance(e, ast.BinOp) and isinstance(e.op, ast.Add):
        return _ends_with_dot_old(repo, f, e.right, depth + 1)
    if isinstance(e, ast.Name) and not isinstance(f.node, ast.Lambda):
        assigns = [n for n in own_nodes(f.node) if isinstance(n, ast.Assign) and any(isinstance(t, ast.Name) and t.id == e.id for t in n.targets)]
        aug = [n for n in own_nodes(f.node) if isinstance(n, ast.AugAssign) and isinstance(n.target, ast.Name) and n.target.id == e.id]
        if len(assigns) == 1 and not aug and e.id not in f.param_names:
            return _ends_with_dot_old(repo, f, assigns[0].value, depth + 1)
    return False


def _is_str(T: Types, f: FuncInfo, e: ast.expr) -> bool | None:
    t = T.expr(f, e)
    ms = members(t)
    if any(m == STR for m in ms) and all(m == STR or m == ("unknown",) or m == ("b", "none", ()) for m in ms):
        return True
    if all(m == ("unknown",) for m in ms):
        # unknown static type: a name that is interpolated into an f-string or compared with `.identifier` is a string
        if isinstance(e, ast.Name) and not isinstance(f.node, ast.Lambda):
            for n in own_nodes(f.node):
                if isinstance(n, ast.FormattedValue) and isinstance(n.value, ast.Name) and n.value.id == e.id:
                    return True
                if isinstance(n, ast.Compare) and len(n.ops) == 1 and isinstance(n.ops[0], (ast.Eq, ast.NotEq)):
                    sides = [n.left, n.comparators[0]]
                    if any(isinstance(x, ast.Name) and x.id == e.id for x in sides) and any(isinstance(x, ast.Attribute) and x.attr in ("identifier", "name") for x in sides):
                        return True
        return None
    return False


def _boundary_companion(f: FuncInfo, call: ast.AST, hay: ast.expr, needle: ast.expr) -> bool:
    """An adjacent conjunct/disjunct checks the character after the prefix: x[len(p)] == "." / x[len(p):len(p)+1] in ("", ".")."""
    p = parent(call)
    while isinstance(p, ast.UnaryOp):
        p = parent(p)
    if not isinstance(p, ast.BoolOp):
        return False
    h, n = norm(hay), norm(needle)
    for v in p.values:
        for c in ast.walk(v):
            if isinstance(c, ast.Compare) and isinstance(c.left, ast.Subscript) and norm(c.left.value) == h and f"len({n})" in norm(c.left.slice):
                if any(isinstance(x, ast.Constant) and x.value == "." for x in ast.walk(c)):
                    return True
    return False



# --------------------------------------------------------------------------- provers used by the classification


def _callers_args(repo: Repo, f: FuncInfo, param: str) -> list[tuple[FuncInfo, ast.expr]] | None:
    """Argument expressions bound to `param` at every resolved call site of `f` (None if a site cannot be matched)."""
    T = types_of(repo)
    key = ("callsites", id(repo))
    from .common import _cache

    if key not in _cache:
        idx: dict[str, list[tuple[FuncInfo, ast.Call]]] = {}
        for g in repo.all_functions():
            for c in calls_in(g.node):
                try:
                    cs, _how = T.callees(g, c, byname_fallback=False)
                except Exception:  # noqa: BLE001
                    cs = []
                for callee in cs:
                    idx.setdefault(callee.fq, []).append((g, c))
        _cache[key] = idx
    sites = _cache[key].get(f.fq, [])
    if not sites:
        return None
    names_ = f.param_names
    pos = list(names_)
    if f.cls is not None and f.outer is None and not f.is_staticmethod and pos:
        pos = pos[1:]
    out = []
    for g, c in sites:
        expr = None
        for k in c.keywords:
            if k.arg == param:
                expr = k.value
        if expr is None and param in pos:
            i = pos.index(param)
            if i < len(c.args) and not any(isinstance(a, ast.Starred) for a in c.args[: i + 1]):
                expr = c.args[i]
        if expr is None:
            return None
        out.append((g, expr))
    return out


def dot_status(repo: Repo, f: FuncInfo, e: ast.expr, depth: int = 0) -> str:
    """'dot'  - the string provably ends with '.',
    'bare' - it provably is a plain module name (no separator appended),
    'unknown' otherwise."""
    if depth > 5:
        return "unknown"
    if isinstance(e, ast.Constant):
        return "dot" if isinstance(e.value, str) and e.value.endswith(".") else "bare"
    if isinstance(e, ast.JoinedStr):
        if not e.values:
            return "bare"
        last = e.values[-1]
        if isinstance(last, ast.Constant):
            return "dot" if str(last.value).endswith(".") else "bare"
        if isinstance(last, ast.FormattedValue):
            return dot_status(repo, f, last.value, depth + 1)
        return "unknown"
    if isinstance(e, ast.BinOp) and isinstance(e.op, ast.Add):
        return dot_status(repo, f, e.right, depth + 1)
    if isinstance(e, ast.IfExp):
        a, b = dot_status(repo, f, e.body, depth + 1), dot_status(repo, f, e.orelse, depth + 1)
        return a if a == b else "unknown"
    if isinstance(e, ast.Attribute):
        if e.attr in ("identifier", "parent_module", "name", "module"):
            return "bare"
        if isinstance(e.value, ast.Name) and e.value.id == "self" and f.cls is not None:
            vals = []
            for m in f.cls.methods.values():
                for n in own_nodes(m.node):
                    if isinstance(n, ast.Assign):
                        for t in n.targets:
                            if isinstance(t, ast.Attribute) and isinstance(t.value, ast.Name) and t.value.id == "self" and t.attr == e.attr:
                                vals.append(dot_status(repo, m, n.value, depth + 1))
            if vals and len(set(vals)) == 1:
                return vals[0]
        return "unknown"
    if isinstance(e, ast.Call):
        fn = e.func
        if isinstance(fn, ast.Attribute) and fn.attr in NAME_METHODS and not e.args:
            return "bare"
        if (isinstance(fn, ast.Name) and fn.id in NAME_FUNCS) or (isinstance(fn, ast.Attribute) and fn.attr in NAME_FUNCS):
            return "bare"
        if isinstance(fn, ast.Attribute) and fn.attr in ("rstrip", "strip") and e.args and isinstance(e.args[0], ast.Constant) and "." in str(e.args[0].value):
            return "bare"
        if isinstance(fn, ast.Name) and fn.id == "str" and len(e.args) == 1:
            return dot_status(repo, f, e.args[0], depth + 1)
        T = types_of(repo)
        try:
            cs, how = T.callees(f, e, byname_fallback=False)
        except Exception:  # noqa: BLE001
            cs, how = [], ""
        if len(cs) == 1 and how == "repo":
            rets = [r for r in own_nodes(cs[0].node) if isinstance(r, ast.Return) and r.value is not None]
            vals = {dot_status(repo, cs[0], r.value, depth + 1) for r in rets}
            if len(vals) == 1:
                return vals.pop()
        return "unknown"
    if isinstance(e, ast.Name) and not isinstance(f.node, ast.Lambda):
        if e.id in f.param_names:
            stores = [n for n in own_nodes(f.node) if isinstance(n, ast.Name) and n.id == e.id and isinstance(n.ctx, ast.Store)]
            if stores:
                return "unknown"
            ann = next((p.annotation for p in f.params if p.arg == e.id), None)
            if ann is not None and ({n.id for n in ast.walk(ann) if isinstance(n, ast.Name)} | {n.attr for n in ast.walk(ann) if isinstance(n, ast.Attribute)}) & NAME_ANNOTATIONS:
                return "bare"  # a module name by its declared type
            args = _callers_args(repo, f, e.id)
            if args:
                vals = {dot_status(repo, g, a, depth + 1) for g, a in args}
                if len(vals) == 1:
                    return vals.pop()
                if "bare" in vals and "unknown" not in vals:
                    return "bare"
            return "unknown"
        assigns = [n for n in own_nodes(f.node) if isinstance(n, ast.Assign) and any(isinstance(t, ast.Name) and t.id == e.id for t in n.targets)]
        others = [n for n in own_nodes(f.node) if isinstance(n, ast.Name) and n.id == e.id and isinstance(n.ctx, ast.Store)]
        if assigns and len(others) == len(assigns):
            vals = {dot_status(repo, f, a.value, depth + 1) for a in assigns}
            if len(vals) == 1:
                return vals.pop()
            return "unknown"
        # loop / comprehension target ranging directly over a collection of names
        for n in own_nodes(f.node):
            its = []
            if isinstance(n, (ast.For, ast.AsyncFor)):
                its = [(n.target, n.iter)]
            elif isinstance(n, ast.comprehension):
                its = [(n.target, n.iter)]
            for tgt, it in its:
                if isinstance(tgt, ast.Name) and tgt.id == e.id and len(others) == 1:
                    if isinstance(it, ast.Call) and isinstance(it.func, ast.Name) and it.func.id in ("sorted", "list", "set", "reversed", "tuple", "frozenset") and it.args:
                        it = it.args[0]
                    if isinstance(it, ast.Call) and isinstance(it.func, ast.Attribute) and it.func.attr == "keys":
                        it = it.func.value
                    if isinstance(it, ast.Call):
                        fn = it.func
                        if (isinstance(fn, ast.Attribute) and (fn.attr in NAME_METHODS or fn.attr in NAME_FUNCS)) or (isinstance(fn, ast.Name) and fn.id in NAME_FUNCS):
                            return "bare"
                    if isinstance(it, ast.Attribute) and it.attr in ("nodes", "modules"):
                        return "bare"
                    if isinstance(it, ast.Name) and it.id in f.param_names:
                        ann = next((p.annotation for p in f.params if p.arg == it.id), None)
                        txt = norm(ann) if ann is not None else ""
                        if "str" in txt and "tuple" not in txt.lower():
                            # a collection of plain strings handed in by the caller: names, unless built with a separator
                            args = _callers_args(repo, f, it.id)
                            if args and all(_collection_of_bare(repo, g, a, depth + 1) for g, a in args):
                                return "bare"
        return "unknown"
    return "unknown"


def _collection_of_bare(repo: Repo, f: FuncInfo, e: ast.expr, depth: int) -> bool:
    if depth > 5:
        return False
    if isinstance(e, ast.Call) and isinstance(e.func, ast.Name) and e.func.id in ("sorted", "list", "set", "reversed", "tuple", "frozenset") and e.args:
        return _collection_of_bare(repo, f, e.args[0], depth + 1)
    if isinstance(e, ast.Call) and isinstance(e.func, ast.Attribute) and e.func.attr == "keys":
        return True
    if isinstance(e, ast.Attribute) and e.attr in ("nodes", "modules"):
        return True
    if isinstance(e, ast.Name) and not isinstance(f.node, ast.Lambda):
        if e.id in f.param_names:
            ann = next((p.annotation for p in f.params if p.arg == e.id), None)
            return ann is not None and "dict" in norm(ann)
        assigns = [n for n in own_nodes(f.node) if isinstance(n, (ast.Assign, ast.AnnAssign)) and any(isinstance(t, ast.Name) and t.id == e.id for t in (n.targets if isinstance(n, ast.Assign) else [n.target]))]
        if len(assigns) == 1 and assigns[0].value is not None:
            return _collection_of_bare(repo, f, assigns[0].value, depth + 1)
    return False


def _ends_with_dot(repo: Repo, f: FuncInfo, e: ast.expr, depth: int = 0) -> bool:
    return dot_status(repo, f, e, depth) == "dot"


def _parse_atom(text: str) -> ast.expr | None:
    try:
        return ast.parse(text, mode="eval").body
    except SyntaxError:
        return None


def _relation_atoms(repo: Repo, f: FuncInfo, formula, hay: str, others: set[str]):
    """Atoms of `formula` relating `hay` to one of `others`: (safe, raw) lists of formulas.

    safe: hay == o, hay.startswith(<o + '.'>);  raw: hay.startswith(o)
    """
    from core.guards import atom as mk, atoms_of

    safe, raw = [], []
    for a in atoms_of(formula):
        e = _parse_atom(a)
        if e is None:
            continue
        if isinstance(e, ast.Compare) and len(e.ops) == 1 and isinstance(e.ops[0], ast.Eq):
            l, r = norm(e.left), norm(e.comparators[0])
            if (l == hay and r in others) or (r == hay and l in others):
                safe.append(mk(a))
        inner = e.args[0] if isinstance(e, ast.Call) and isinstance(e.func, ast.Name) and e.func.id == "bool" and len(e.args) == 1 else e
        if isinstance(inner, ast.Call) and isinstance(inner.func, ast.Attribute) and inner.func.attr == "startswith" and norm(inner.func.value) == hay and inner.args:
            nd = inner.args[0]
            mentioned = {x.id for x in ast.walk(nd) if isinstance(x, ast.Name)} | {norm(x) for x in ast.walk(nd) if isinstance(x, ast.Attribute)}
            if norm(nd) in others:
                st = dot_status(repo, f, nd)
                (safe if st == "dot" else raw).append(mk(a))
            elif mentioned & others and dot_status(repo, f, nd) == "dot":
                safe.append(mk(a))
    return safe, raw


def _site_facts(repo: Repo, f: FuncInfo, node: ast.AST, other: str):
    """Path condition of `node` (private helper predicates inlined) plus what `X = next(v for v in .. if test(v))` establishes for X."""
    from core.guards import f_and, to_formula
    from .common import copy_prop, guard_formula

    facts = [guard_formula(f, node)]
    others = {other}
    if not isinstance(f.node, ast.Lambda):
        for a_ in own_nodes(f.node):
            if isinstance(a_, ast.Assign) and dotted(a_.targets[0]) == other and isinstance(a_.value, ast.Call) and dotted(a_.value.func) == "next" and a_.value.args and isinstance(a_.value.args[0], ast.GeneratorExp):
                gen = a_.value.args[0]
                if isinstance(gen.elt, ast.Name) and len(gen.generators) == 1:
                    v = gen.elt.id
                    others.add(v)
                    for cond in gen.generators[0].ifs:
                        facts.append(to_formula(cond, copy_prop(f)))
    return f_and(facts), others


def _ancestor_or_self(repo: Repo, f: FuncInfo, e: ast.expr, hay: str, depth: int = 0) -> bool:
    """`e` is `hay` itself or an element of get_parent_modules(hay) (possibly None on other paths)."""
    if depth > 4:
        return False
    if norm(e) == hay:
        return True
    if isinstance(e, ast.Constant) and e.value is None:
        return True

    def lineage(g: FuncInfo, x: ast.expr, h: str, d: int) -> bool:
        if d > 5:
            return False
        if isinstance(x, ast.List):
            return all(norm(el) == h for el in x.elts)
        if isinstance(x, ast.BinOp) and isinstance(x.op, ast.Add):
            return lineage(g, x.left, h, d + 1) and lineage(g, x.right, h, d + 1)
        if isinstance(x, ast.Subscript) and isinstance(x.slice, ast.Slice):
            return lineage(g, x.value, h, d + 1)
        if isinstance(x, ast.Starred):
            return lineage(g, x.value, h, d + 1)
        if isinstance(x, ast.Call):
            fn = x.func
            nm = fn.id if isinstance(fn, ast.Name) else (fn.attr if isinstance(fn, ast.Attribute) else "")
            if nm == "get_parent_modules" and x.args and norm(x.args[0]) == h:
                return True
            if nm in ("reversed", "list", "sorted", "tuple") and x.args:
                return lineage(g, x.args[0], h, d + 1)
            return False
        if isinstance(x, ast.Name) and not isinstance(g.node, ast.Lambda):
            stores = [n for n in own_nodes(g.node) if isinstance(n, ast.Name) and n.id == x.id and isinstance(n.ctx, ast.Store)]
            assigns = [n for n in own_nodes(g.node) if isinstance(n, ast.Assign) and len(n.targets) == 1 and dotted(n.targets[0]) == x.id]
            if len(stores) == 1 and len(assigns) == 1:
                return lineage(g, assigns[0].value, h, d + 1)
        return False

    if isinstance(e, ast.Name) and not isinstance(f.node, ast.Lambda):
        stores = [n for n in own_nodes(f.node) if isinstance(n, ast.Name) and n.id == e.id and isinstance(n.ctx, ast.Store)]
        if len(stores) != 1:
            return False
        for n in own_nodes(f.node):
            if isinstance(n, ast.Assign) and len(n.targets) == 1 and dotted(n.targets[0]) == e.id:
                v = n.value
                if isinstance(v, ast.Call) and dotted(v.func) == "next" and v.args and isinstance(v.args[0], ast.GeneratorExp) and len(v.args[0].generators) == 1 and isinstance(v.args[0].elt, ast.Name) and dotted(v.args[0].generators[0].target) == v.args[0].elt.id:
                    return lineage(f, v.args[0].generators[0].iter, hay, 0)
                if isinstance(v, ast.Call):
                    T = types_of(repo)
                    try:
                        cs, how = T.callees(f, v, byname_fallback=False)
                    except Exception:  # noqa: BLE001
                        cs, how = [], ""
                    if len(cs) == 1 and how == "repo":
                        g = cs[0]
                        # which parameter receives hay?
                        pos = g.param_names
                        if g.cls is not None and g.outer is None and not g.is_staticmethod:
                            pos = pos[1:]
                        hp = None
                        for i, a in enumerate(v.args):
                            if norm(a) == hay and i < len(pos):
                                hp = pos[i]
                        for k in v.keywords:
                            if norm(k.value) == hay:
                                hp = k.arg
                        if hp is None:
                            return False
                        rets = [r for r in own_nodes(g.node) if isinstance(r, ast.Return) and r.value is not None]
                        return bool(rets) and all(_ancestor_or_self(repo, g, r.value, hp, depth + 1) for r in rets)
                return _ancestor_or_self(repo, f, v, hay, depth + 1)
            if isinstance(n, (ast.For, ast.AsyncFor)) and isinstance(n.target, ast.Name) and n.target.id == e.id:
                return lineage(f, n.iter, hay, 0)
    return False


def _boundary_predicate(repo: Repo, f: FuncInfo, hay: str = "", needle: str = "") -> bool:
    """`f` is a predicate whose truthy result implies, for every raw `H.startswith(N)` it evaluates, that the character after
    the prefix is '.' or absent (`H[len(N):] == ""`, `H[len(N):][0] == "."`, `H[len(N):].startswith(".")`, `H[len(N):][:1] in ("", ".")`)."""
    from core.guards import atom as mk, atoms_of, f_not, f_or, implies
    from .common import bool_inliner

    if isinstance(f.node, ast.Lambda):
        return False
    key = ("boundary_pred", id(repo), f.fq)
    from .common import _cache

    if key in _cache:
        return _cache[key]
    inl = bool_inliner(repo)
    env = {p: ast.Name(id=p, ctx=ast.Load()) for p in f.param_names}
    try:
        s = inl.summary(f, env, 0)
    except Exception:  # noqa: BLE001
        s = None
    ok = False
    if s is not None:
        parsed = [(a, _parse_atom(a)) for a in atoms_of(s)]
        raws = []
        for a, e in parsed:
            inner = e.args[0] if isinstance(e, ast.Call) and isinstance(e.func, ast.Name) and e.func.id == "bool" and len(e.args) == 1 else e
            if isinstance(inner, ast.Call) and isinstance(inner.func, ast.Attribute) and inner.func.attr == "startswith" and inner.args:
                nd = inner.args[0]
                if not (isinstance(nd, ast.Constant) and nd.value == "."):
                    raws.append((a, norm(inner.func.value), norm(nd)))
        ok = bool(raws)
        for a_raw, H, N in raws:
            rest = f"{H}[len({N}):]"
            empty_t, empty_f, dot = [], [], []
            for a, e in parsed:
                if e is None:
                    continue
                inner = e.args[0] if isinstance(e, ast.Call) and isinstance(e.func, ast.Name) and e.func.id == "bool" and len(e.args) == 1 else e
                if isinstance(inner, ast.Call) and isinstance(inner.func, ast.Attribute) and inner.func.attr == "startswith" and inner.args and norm(inner.func.value) == rest and isinstance(inner.args[0], ast.Constant) and inner.args[0].value == ".":
                    dot.append(mk(a))
                if isinstance(e, ast.Call) and isinstance(e.func, ast.Name) and e.func.id == "bool" and norm(inner) == rest:
                    empty_f.append(mk(a))  # truthy = non-empty
                if isinstance(e, ast.Compare) and len(e.ops) == 1 and isinstance(e.ops[0], ast.Eq):
                    l, r = e.left, e.comparators[0]
                    for x, y in ((l, r), (r, l)):
                        if norm(x) == rest and isinstance(y, ast.Constant) and y.value == "":
                            empty_t.append(mk(a))
                        if isinstance(y, ast.Constant) and y.value == "." and isinstance(x, ast.Subscript) and norm(x.value) == rest and norm(x.slice) in ("0", ":1"):
                            dot.append(mk(a))
                if isinstance(e, ast.Compare) and len(e.ops) == 1 and isinstance(e.ops[0], ast.In) and isinstance(e.left, ast.Subscript) and norm(e.left.value) == rest and norm(e.left.slice) == ":1":
                    c = e.comparators[0]
                    if isinstance(c, (ast.Tuple, ast.List, ast.Set)) and len(c.elts) == 2 and sorted(x.value for x in c.elts if isinstance(x, ast.Constant)) == ["", "."]:
                        dot.append(mk(a))
            boundary = f_or([*empty_t, *[f_not(x) for x in empty_f], *dot])
            if not (dot and implies(s, f_or([f_not(mk(a_raw)), boundary]))):
                ok = False
    _cache[key] = ok
    return ok


def scan(repo: Repo) -> list[Site]:
    T = types_of(repo)
    flow = name_flow(repo)
    sites: list[Site] = []
    boundary_funcs: set[str] = set()

    def tagged(e: ast.expr) -> set[str]:
        return set(flow.tags(e))

    for f in repo.all_functions():
        reviewed = REVIEWED_PATTERN_SITES.get((f.module.name, f.qualname))
        for n in own_nodes(f.node):
            # ---- method-style operations
            if isinstance(n, ast.Call) and isinstance(n.func, ast.Attribute) and n.func.attr in STR_REL_METHODS and n.args:
                hay, needle, op = n.func.value, n.args[0], n.func.attr
                s = _is_str(T, f, hay)
                if s is False:
                    continue
                tags = tagged(hay)
                is_name = "NAME" in tags
                if not is_name:
                    sites.append(Site(f, n, op, hay, needle, False, "not-name" if s else "unclassified", f"haystack `{norm(hay, 40)}` is not derived from a module name" if s else "provenance of the haystack unknown"))
                    continue
                if op in ("startswith", "removeprefix"):
                    st = dot_status(repo, f, needle)
                    safe = st == "dot" or _boundary_companion(f, n, hay, needle)
                    why = "prefix ends in '.' (whole dotted components)" if safe else f"`{norm(n, 80)}`: raw string prefix test on a module name - 'pkg.ab' counts as part of 'pkg.a'"
                    if not safe and _boundary_predicate(repo, f, norm(hay), norm(needle)):
                        safe, why = True, "raw prefix test inside a predicate that also requires the next character to be '.' or absent"
                        boundary_funcs.add(f.fq)
                    if not safe and st == "unknown":
                        sites.append(Site(f, n, op, hay, needle, True, "unknown", f"`{norm(n, 80)}`: cannot establish whether the prefix `{norm(needle, 40)}` ends with the separator '.'"))
                        continue
                elif op in ("endswith", "removesuffix"):
                    safe = isinstance(needle, (ast.Constant, ast.JoinedStr)) and (norm(needle).strip("f'\"").startswith("."))
                    why = "suffix starts at a '.' boundary" if safe else f"`{norm(n, 80)}`: raw string suffix test on a module name"
                elif op in ("count", "find", "index", "rfind", "rindex", "partition", "rpartition"):
                    safe = isinstance(needle, ast.Constant) and needle.value == "."
                    why = "only the separator '.' is searched" if safe else f"`{norm(n, 80)}`: substring search inside a module name ignores component boundaries"
                else:  # replace
                    safe = isinstance(needle, ast.Constant) and not ("NAME" in tagged(needle))
                    why = "replaces a constant" if safe else f"`{norm(n, 80)}`: str.replace substitutes every occurrence of one module name inside another, not a leading run of whole components"
                sites.append(Site(f, n, op, hay, needle, True, "safe" if safe else "unsafe", why))
            # ---- substring containment
            elif isinstance(n, ast.Compare) and len(n.ops) == 1 and isinstance(n.ops[0], (ast.In, ast.NotIn)):
                needle, hay = n.left, n.comparators[0]
                s = _is_str(T, f, hay)
                if s is False:
                    continue
                tags = tagged(hay)
                if s is None and "NAME" not in tags:
                    continue
                # a NAME-tagged value of unknown static type may be a collection of names: decide by how it was built
                if s is None:
                    t = T.expr(f, hay)
                    continue
                if "NAME" in tags or "NAME" in tagged(needle):
                    if isinstance(needle, ast.Constant) and needle.value == ".":
                        sites.append(Site(f, n, "in", hay, needle, True, "safe", "tests for the separator only"))
                    else:
                        sites.append(Site(f, n, "in", hay, needle, True, "unsafe", f"`{norm(n, 80)}`: substring test between strings where a module name is involved ('pkg.a' in 'pkg.ab.c' is true)"))
                else:
                    sites.append(Site(f, n, "in", hay, needle, False, "not-name", "substring test on a non-name string"))
            # ---- regexes built from values
            elif isinstance(n, ast.Call) and (repo.resolve_name(f.module, n.func) or "").startswith("re.") and n.args:
                fq = repo.resolve_name(f.module, n.func)
                if fq in ("re.escape",):
                    continue
                pat = n.args[0]
                ptags = tagged(pat)
                if isinstance(pat, ast.Constant):
                    continue
                if reviewed:
                    sites.append(Site(f, n, fq, n.args[1] if len(n.args) > 1 else None, pat, True, "reviewed", reviewed))
                    continue
                if "NAME" in ptags:
                    sites.append(Site(f, n, fq, n.args[-1], pat, True, "unsafe", f"`{norm(n, 80)}`: a regular expression is built from an un-escaped module name ('.' matches any character; no component boundary)"))
                elif "ESC:NAME" in ptags:
                    text = norm(pat)
                    safe = "(\\.|$)" in text or "(\\\\.|$)" in text or "\\." in text
                    sites.append(Site(f, n, fq, n.args[-1], pat, True, "safe" if safe else "unsafe", "escaped name followed by a component boundary" if safe else f"`{norm(n, 80)}`: escaped module name without a trailing component boundary"))
                elif ptags & {"REGEX"}:
                    sites.append(Site(f, n, fq, n.args[-1], pat, False, "reviewed", "user-supplied regex"))
                else:
                    # pattern built from constants / non-name values
                    sites.append(Site(f, n, fq, n.args[-1] if len(n.args) > 1 else None, pat, False, "not-name", "pattern is not derived from a module name"))
            # ---- slicing by len(other) on a name
            elif isinstance(n, ast.Subscript) and isinstance(n.slice, ast.Slice) and "NAME" in tagged(n.value):
                lens = [c for c in ast.walk(n.slice) if isinstance(c, ast.Call) and isinstance(c.func, ast.Name) and c.func.id == "len"]
                if lens and _is_str(T, f, n.value) is not False:
                    other_e = lens[0].args[0] if lens[0].args else None
                    other = norm(other_e) if other_e is not None else ""
                    hay = norm(n.value)
                    if other_e is not None and _is_str(T, f, other_e) is False:
                        continue  # length of a component list, not of a string
                    from core.guards import f_or, implies

                    facts, others = _site_facts(repo, f, n, other)
                    safe_a, raw_a = _relation_atoms(repo, f, facts, hay, others)
                    if safe_a and implies(facts, f_or(safe_a)):
                        verdict, why = "safe", "prefix length of an ancestor established by a boundary-safe test"
                    elif other_e is not None and _ancestor_or_self(repo, f, other_e, hay):
                        verdict, why = "safe", "the other string is the name itself or one of its ancestors (get_parent_modules)"
                    elif f.fq in boundary_funcs or _boundary_predicate(repo, f, hay, other):
                        verdict, why = "safe", "the remainder is only examined by the boundary test of this predicate"
                    elif raw_a and implies(facts, f_or([*safe_a, *raw_a])):
                        verdict, why = "unsafe", f"`{norm(n, 60)}` cuts a module name at the length of another string without a boundary-safe prefix test"
                    else:
                        verdict, why = "unknown", f"`{norm(n, 60)}`: no test relating `{hay}` and `{other}` found on the paths to this slice"
                    sites.append(Site(f, n, "slice-by-len", n.value, lens[0], True, verdict, why))
    return sites


# --------------------------------------------------------------------------- positive fixture


def fixture_selfcheck() -> str:
    """Runs the lint on engine/fixtures/name_ops.py: every `unsafe_*` function must yield an unsafe site, no `safe_*` function may.

    The expected number of unsafe sites on the real tree is zero, so this is what shows on every run that the lint still bites.
    """
    import shutil
    import tempfile
    from pathlib import Path

    fx = Path(__file__).resolve().parents[1] / "fixtures" / "name_ops.py"
    tmp = Path(tempfile.mkdtemp(prefix="pta-fixture-"))
    try:
        (tmp / "src" / "pytestarch").mkdir(parents=True)
        shutil.copy(fx, tmp / "src" / "pytestarch" / "fixture_name_ops.py")
        sites = scan(Repo(tmp))
        by_fn: dict[str, set[str]] = {}
        for s_ in sites:
            if s_.name_typed:
                by_fn.setdefault(s_.fi.name, set()).add(s_.verdict)
        tree = ast.parse(fx.read_text())
        want_unsafe = [n.name for n in tree.body if isinstance(n, ast.FunctionDef) and n.name.startswith("unsafe_")]
        want_safe = [n.name for n in tree.body if isinstance(n, ast.FunctionDef) and (n.name.startswith("safe_") or n.name.startswith("_safe_"))]
        bad = [n for n in want_unsafe if "unsafe" not in by_fn.get(n, set())] + [n for n in want_safe if by_fn.get(n, set()) - {"safe"}]
        if bad:
            raise AnalysisError(f"F-NAME fixture: idioms not classified as expected: {bad} (got {{k: sorted(v) for k, v in by_fn.items()}})".replace("{{", "{").replace("}}", "}"))
        return f"{len(want_unsafe)} unsafe and {len(want_safe)} safe idioms of engine/fixtures/name_ops.py classified as expected"
    finally:
        shutil.rmtree(tmp, ignore_errors=True)
