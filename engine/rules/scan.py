"""Rules about the directory scan shared by C04 and C08: exclusion dominates registration, descent and parsing."""

from __future__ import annotations

import ast

from core.guards import atom, f_and, f_not, implies
from core.loader import AnalysisError, FuncInfo, Repo, ancestors, calls_in, header, norm, own_nodes, parent
from core.report import Result

from .common import cfg_of, conds, copy_prop, dotted, guard_formula, is_attr_call, stmt_of, truth, types_of, where

PARSER = "pytestarch.eval_structure_generation.file_import.parser"


def run_registration(repo: Repo, res: Result, rule: str) -> int:
    """Directories: registered and descended only if not excluded. Files: registered and parsed only if .py and not excluded.
    The exclusion predicate is applied to the path itself; the registered name is _get_module_name(path)."""
    T = types_of(repo)
    cls = repo.cls(PARSER, "Parser")
    parse = cls.methods.get("parse")
    pf = cls.methods.get("_parse_file")
    should = cls.methods.get("_file_should_be_parsed")
    gmn = cls.methods.get("_get_module_name")
    if parse is None or pf is None or gmn is None:
        raise AnalysisError("Parser.parse / _parse_file / _get_module_name not found")
    n = 0
    # popped path variable of the walk
    pathv = None
    for s in own_nodes(parse.node):
        if isinstance(s, ast.Assign) and is_attr_call(s.value, "pop"):
            pathv = dotted(s.targets[0])
    if pathv is None:
        raise AnalysisError("Parser.parse: directory walk not recognised")
    excl_atom = truth(parse, f"self._filter.is_excluded({pathv})")
    isdir = truth(parse, f"{pathv}.is_dir()")
    for c in calls_in(parse.node):
        kind = None
        if is_attr_call(c, "append") and dotted(c.func.value) in ("self._all_modules",):
            kind = "directory registered"
        elif is_attr_call(c, "extend") and c.args and isinstance(c.args[0], ast.Call) and is_attr_call(c.args[0], "iterdir"):
            kind = "directory descended"
        if kind is None:
            continue
        n += 1
        g = guard_formula(parse, c)
        ok = implies(g, f_and([isdir, f_not(excl_atom)]))
        res.add(rule, repo.key(parse, stmt_of(c)) + f" [{kind}]", ok, f"{kind} only if it is not excluded" if ok else f"a directory is {kind.split()[1]} although the exclusion test on `{pathv}` did not reject it first (guard: {' and '.join(('' if pol else 'not ') + norm(e, 40) for e, pol in conds(parse, c)) or 'none'}): an excluded directory contributes modules or its children are still scanned", where(parse, c), kind="dominance")
        if kind == "directory registered":
            arg = c.args[0]
            src = arg
            if isinstance(arg, ast.Name):
                a = [s for s in own_nodes(parse.node) if isinstance(s, ast.Assign) and dotted(s.targets[0]) == arg.id]
                src = a[0].value if len(a) == 1 else arg
            ok = isinstance(src, ast.Call) and is_attr_call(src, gmn.name) and dotted(src.args[0]) == pathv
            n += 1
            res.add(rule, repo.key(parse, stmt_of(c)) + " [name]", ok, "registered under the dotted name of its path" if ok else "the directory is not registered under _get_module_name(path)", where(parse, c), kind="flow")
    # files
    gate = None
    for c in calls_in(pf.node):
        if should is not None and is_attr_call(c, should.name):
            gate = c
    if gate is None:
        raise AnalysisError("Parser._parse_file: gate `_file_should_be_parsed` not found")
    gate_f = truth(pf, norm(gate))
    for c in calls_in(pf.node):
        kind = None
        if is_attr_call(c, "append") and dotted(c.func.value) == "self._all_modules":
            kind = "file registered"
        elif dotted(c.func) in ("ast.parse",) or (isinstance(c.func, ast.Attribute) and c.func.attr == "parse" and dotted(c.func.value) == "ast"):
            kind = "file parsed"
        elif dotted(c.func) == "open":
            kind = "file read"
        if kind is None:
            continue
        n += 1
        ok = implies(guard_formula(pf, c), gate_f)
        res.add(rule, repo.key(pf, stmt_of(c)) + f" [{kind}]", ok, f"{kind} only if it should be parsed" if ok else f"a {kind.replace('file ', 'file is ')} without the exclusion / file-type gate", where(pf, c), kind="dominance")
    # the gate: suffix == ".py" and not excluded(path)
    rets = [s for s in own_nodes(should.node) if isinstance(s, ast.Return)]
    p = should.param_names[1]
    want = f_and([truth(should, f"{p}.suffix == PYTHON_FILE_SUFFIX"), f_not(truth(should, f"self._filter.is_excluded({p})"))])
    from core.guards import conds_formula, equivalent, f_or, to_formula

    true_when = f_or([f_and([guard_formula(should, r), to_formula(r.value, copy_prop(should))]) for r in rets if r.value is not None])
    n += 1
    ok = equivalent(true_when, want)
    excl_calls = [c for c in calls_in(should.node) if is_attr_call(c, "is_excluded")]
    arg_ok = all(dotted(c.args[0]) == p for c in excl_calls) and bool(excl_calls)
    detail = "a file is parsed iff its suffix is .py and its path is not excluded"
    if not arg_ok:
        detail = f"the exclusion patterns are matched against `{norm(excl_calls[0].args[0]) if excl_calls else '?'}` instead of the file's path: path patterns no longer exclude the file and name-only patterns exclude files in every directory"
    elif not ok:
        detail = "the file gate is not `suffix == '.py' and not excluded(path)`"
    res.add(rule, f"{should.relpath}::{should.qualname}::file gate", ok and arg_ok, detail, where(should, should.node), kind="decision-table")
    # the gate's argument in _parse_file is the file's own path (resolved or not), the registered name is that of the same path
    garg = gate.args[0]
    src = garg
    if isinstance(garg, ast.Name):
        a = [s for s in own_nodes(pf.node) if isinstance(s, ast.Assign) and dotted(s.targets[0]) == garg.id]
        src = a[0].value if len(a) == 1 else garg
    base = src.func.value if isinstance(src, ast.Call) and isinstance(src.func, ast.Attribute) and src.func.attr in ("resolve", "absolute") else src
    n += 1
    ok = dotted(base) == pf.param_names[1]
    res.add(rule, repo.key(pf, stmt_of(gate)) + " [gate on the file's path]", ok, "the gate sees the file's own path" if ok else f"the gate is applied to `{norm(garg)}`, not to the file's path", where(pf, gate), kind="flow")
    excl_dir = [c for c in calls_in(parse.node) if is_attr_call(c, "is_excluded")]
    n += 1
    ok = bool(excl_dir) and all(dotted(c.args[0]) == pathv for c in excl_dir)
    res.add(rule, f"{parse.relpath}::{parse.qualname}::directory exclusion on the path", ok, "directories are tested with their own path" if ok else "the directory exclusion test is not applied to the directory's own path", where(parse, parse.node), kind="flow")
    return n
