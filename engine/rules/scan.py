"""Rules about the directory scan shared by C04 and C08: exclusion dominates registration, descent and parsing.

The scan is analysed by executing the public entry point `Parser.parse` symbolically (rules/c04_symx.py): private helpers, generators
and early returns are followed, locals are replaced by their values.  What is judged are *events* of that execution, wherever they are
written:

  registration   an element is added to the collection that `parse` returns as its first result (the module names)
  descent        the children of a path are enumerated (`iterdir`, `os.listdir`, `os.scandir`, `glob`)
  read / parse   a file is opened / read / handed to `ast.parse`

For each event the path condition must imply the necessary condition of C04 / C08 in terms of the *path the event is about*:
not excluded(path) [and (is_dir(path) or suffix(path) == ".py")], where `excluded` is the public predicate `is_excluded` of the
filter object and is applied to the path itself (or its resolved / absolute / str form), never to a part of it.

A walk delegated to `os.walk` is decided on a model of that function (see `Walk` below): which directories the library visits
follows from the start path and from what the loop body leaves in the list of sub-directory names; registration / reading events
about the visited directory and about its files are then judged as above with the facts the model provides.  Not decided there:
that a start path which is a *file* is parsed at all (os.walk yields nothing for it), walks that are materialised before the loop
(`sorted(os.walk(..))`) unless they skip by character prefix, bottom-up walks, `os.fwalk` / `glob` / `rglob`.
"""

from __future__ import annotations

import ast
from dataclasses import dataclass, field

from core.loader import AnalysisError, FuncInfo, Repo
from core.report import Result

from .c04_norm import ident, leaves, loc, rename_atoms, restrict, show_loc, strip_abs, unbox
from .c04_symx import FALSE, TRUE, Event, Formula, SymX, Term, Trace, atom, atoms_of, equivalent, f_and, f_not, f_or, implies, show, show_formula, simplify, substitute, subterms
from .common import stmt_of, types_of, where

PARSER = "pytestarch.eval_structure_generation.file_import.parser"
EXCLUSION_PREDICATE = "is_excluded"  # public method of FileFilter (tests substitute their own filter objects with this method)
DESCENT = {"iterdir", "listdir", "scandir", "glob", "rglob", "walk"}
PY = ".py"


@dataclass
class Reg:
    """One registration event: `element` is added to the returned name collection."""

    event: Event
    element: Term  # the registered value, simplified under the event's path condition
    path: Term | None  # location the name is computed from
    known: Formula = TRUE


@dataclass
class ScanInfo:
    parse: FuncInfo
    sx: SymX
    trace: Trace
    names: Term | None = None  # the returned collection of module names
    regs: list[Reg] = field(default_factory=list)
    descents: list[Event] = field(default_factory=list)
    reads: list[Event] = field(default_factory=list)
    problems: list[str] = field(default_factory=list)  # why the walk could not be recognised
    ctor_heap: dict = field(default_factory=dict)  # fields of the scanner as set by its constructor


def _through_wrappers(t: Term) -> Term:
    while t[0] == "call" and t[1] in (("builtin", "list"), ("builtin", "tuple"), ("builtin", "sorted")) and len(t[2]) == 1:
        t = t[2][0]
    if t[0] == "box" and t[3][0] == "call" and t[3][1] in (("builtin", "list"),) and len(t[3][2]) == 1 and t[3][2][0][0] == "box":
        t = t[3][2][0]
    return t


def analyse(repo: Repo) -> ScanInfo:
    cache = repo.__dict__.setdefault("_c04_scan", {})
    if "info" in cache:
        return cache["info"]
    T = types_of(repo)
    cls = repo.cls(PARSER, "Parser")
    parse = cls.methods.get("parse")
    if parse is None:
        raise AnalysisError("Parser.parse (public entry point of the directory scan) not found")
    # fields set by the constructor are expressed through the (public) constructor parameters: Parser.<param>
    heap: dict = {}
    init = repo.lookup_method(cls, "__init__")
    self_t = ("param", parse.param_names[0])
    if init is not None and init.param_names:
        sx0 = SymX(repo, T, keep=lambda f: f.name == EXCLUSION_PREDICATE)
        tr0 = sx0.run(init, args={q: ("param", f"{cls.name}.{q}") for q in init.param_names[1:]}, self_term=self_t)
        if tr0.final is not None and tr0.final.alive:
            heap = dict(tr0.final.heap)  # fields of the scanner and of helper objects it creates
    sx = SymX(repo, T, keep=lambda f: f.name == EXCLUSION_PREDICATE, first_id=10_000)
    trace = sx.run(parse, heap=heap)
    info = ScanInfo(parse, sx, trace)
    info.ctor_heap = heap
    cache["info"] = info
    # the returned name collection: first component of every returned pair
    firsts = set()
    for pc, t in trace.returns:
        t = unbox(t) if t[0] == "box" and t[3][0] == "tuple" else t
        if t[0] != "tuple" or len(t[1]) != 2:
            info.problems.append(f"`parse` returns `{show(t, 80)}`, not a pair (module names, parsed modules)")
            continue
        first = _through_wrappers(t[1][0])
        firsts.add(ident(first) if first[0] == "box" else first)  # the same container, whatever it holds at the time of the return
    if len(firsts) != 1:
        info.problems.append("the returned collection of module names is not a single object")
        return info
    names = firsts.pop()
    info.names = names
    if names[0] != "box":
        info.problems.append(f"the module names are returned as `{show(names, 80)}`: not a collection filled during the walk")
        return info
    init = sx.box_init.get(names[1], names[3])
    if not (init[0] in ("list", "set") and not init[1]) and not (init[0] == "call" and not init[2]):
        info.problems.append(f"the collection of module names starts non-empty: `{show(init, 80)}`")
    for e in trace.events:
        if e.kind == "mut" and e.recv is not None and e.recv[0] == "box" and e.recv[1] == names[1]:
            known = f_and(e.pc)
            if e.name in ("append", "add", "appendleft") and len(e.args) == 1:
                elems = [(e.args[0], known)]
            elif e.name == "insert" and len(e.args) == 2:
                elems = [(e.args[1], known)]
            elif e.name in ("extend", "update") and len(e.args) == 1:
                got = _bulk_elements(sx, e.args[0], known)
                if got is None:
                    info.problems.append(f"module names are added in bulk from `{show(unbox(e.args[0]), 80)}`")
                    continue
                elems = got
            elif e.name in ("remove", "discard", "clear", "pop", "sort", "reverse"):
                if e.name not in ("sort", "reverse"):
                    info.problems.append(f"module names are removed again by `{e.name}`")
                continue
            else:
                info.problems.append(f"unrecognised update `{e.name}` of the module names")
                continue
            for el, kn in elems:
                el = restrict(el, kn)
                info.regs.append(Reg(e, el, _path_of(el), kn))
        elif e.kind == "call" and e.name in DESCENT and (e.recv is not None or e.args):
            info.descents.append(e)
        elif e.kind == "call" and (e.func == ("builtin", "open") or e.func == ("lib", "ast.parse") or e.name in ("read_text", "read_bytes") or e.func == ("lib", "io.open") or e.func == ("lib", "tokenize.open")):
            info.reads.append(e)
    return info


def _projection_of(path: Term, holder: Term) -> bool:
    """`path` is `holder` itself or a component of it (`holder[0]`, `holder.path`): a test `holder is None` says that there is
    no path at all, not which paths are registered."""
    want = ident(holder)
    while True:
        if ident(path) == want:
            return True
        if path[0] in ("idx", "attr"):
            path = path[1]
        else:
            return False


def _bulk_elements(sx: SymX, src: Term, known) -> "list[tuple[Term, object]] | None":
    """(element, condition) for everything a bulk update (`extend` / `update` / `+=`) adds."""
    src = unbox(src)
    tag = src[0]
    if tag in ("list", "tuple", "set"):
        out: list = []
        for x in src[1]:
            if x[0] == "star":
                inner = _bulk_elements(sx, x[1], known)
                if inner is None:
                    return None
                out += inner
            else:
                out.append((x, known))
        return out
    if tag == "phi":
        out = []
        for g, a in src[1]:
            inner = _bulk_elements(sx, a, f_and([known, g]))
            if inner is None:
                return None
            out += inner
        return out
    if tag == "comp" and src[1] in ("list", "gen", "set"):
        conds = [c for _tg, _it, cs in src[3] for c in cs]
        return [(src[2], f_and([known, *conds]))]
    if tag == "yields":
        return [(v, f_and([known, g])) for g, v in src[1]]
    if tag == "call" and src[1] in (("builtin", "list"), ("builtin", "tuple"), ("builtin", "iter"), ("builtin", "reversed"), ("builtin", "sorted")) and len(src[2]) == 1 and not src[3]:
        return _bulk_elements(sx, src[2][0], known)
    if tag == "call" and src[1] == ("builtin", "filter") and len(src[2]) == 2 and is_none(src[2][0]):
        inner = _bulk_elements(sx, src[2][1], known)
        return None if inner is None else [(x, f_and([kn, sx.truth(x)])) for x, kn in inner]  # the truthy ones
    if tag == "binop" and src[1] == "+":
        a, b = _bulk_elements(sx, src[2], known), _bulk_elements(sx, src[3], known)
        return None if a is None or b is None else a + b
    if tag == "binop" and src[1] == "*":
        # `[x] * bool(c)`: the elements if c holds, nothing otherwise
        for seq_, times in ((src[2], src[3]), (src[3], src[2])):
            if times[0] == "const" and isinstance(times[1], int) and not isinstance(times[1], bool) and times[1] >= 0:
                inner = _bulk_elements(sx, seq_, known)
                if inner is not None:
                    return inner if times[1] else []
            if times[0] == "call" and times[1] == ("builtin", "bool") and len(times[2]) == 1:
                inner = _bulk_elements(sx, seq_, f_and([known, sx.truth(times[2][0])]))
                if inner is not None:
                    return inner
        return None
    return None


def _path_of(name: Term) -> Term | None:
    """The location a registered name is computed from: the unique receiver of `relative_to` (first argument of os.path.relpath)."""
    cands = set()
    for x in subterms(name):
        l = loc(x)
        if l[0] == "REL":
            cands.add(strip_abs(l[1]))
    if len(cands) == 1:
        return cands.pop()
    if not cands:
        ls = {x for x in leaves(name, ("elem",))}
        if len(ls) == 1:
            return ls.pop()
    return None


# --------------------------------------------------------------------------- classification of guard atoms


def guard_atoms(t: Term) -> set[str]:
    """Atom keys of the guards of all guarded choices inside a term."""
    out: set[str] = set()
    for x in subterms(t):
        if x[0] == "phi":
            for g, _v in x[1]:
                out |= atoms_of(g)
    return out


def classify_atoms(sx: SymX, f: Formula, path: Term | None, name_atoms: frozenset = frozenset()):
    """Maps the atoms of a path condition to the vocabulary of the rule.

    Returns (formula over ISDIR / EXCL / PY / other atoms, {atom key: role}, [improper exclusion arguments])."""
    roles: dict[str, str] = {}
    improper: list[Term] = []
    target = strip_abs(loc(path)) if path is not None else None

    def same(x: Term) -> bool:
        return target is not None and strip_abs(loc(x)) == target

    for key in atoms_of(f):
        t = sx.atoms.get(key)
        if t is None:
            roles[key] = "other"
            continue
        role = "other"
        if t[0] == "mcall" and t[2] == "is_dir" and not t[3] and same(t[1]):
            role = "ISDIR"
        elif t[0] == "call" and t[1] == ("lib", "os.path.isdir") and len(t[2]) == 1 and same(t[2][0]):
            role = "ISDIR"
        elif t[0] == "mcall" and t[2] == EXCLUSION_PREDICATE and len(t[3]) == 1:
            if same(t[3][0]):
                role = "EXCL"
            elif _part_of(loc(t[3][0]), target):
                role = "EXCL?"  # the predicate sees only a part of the path (its name, its parent, its path below the root)
                improper.append(t[3][0])
            else:
                role = "other-path"  # an exclusion test on something this rule cannot relate to the path
        elif t[0] == "cmp" and t[1] == "==":
            a, b = t[2], t[3]
            c, o = (a, b) if a[0] == "const" else (b, a)
            if c[0] == "const" and c[1] == PY:
                l = loc(o)
                if l[0] == "attr" and l[2] == "suffix" and same(l[1]):
                    role = "PY"
        elif t[0] == "cmp" and t[1] == "in" and unbox(t[3])[0] in ("tuple", "list", "set") and all(x[0] == "const" for x in unbox(t[3])[1]):
            l = loc(t[2])
            if l[0] == "attr" and l[2] == "suffix" and same(l[1]):
                role = "PY" if unbox(t[3])[1] == (("const", PY),) else "SUFFIX"  # a set of suffixes wider than {'.py'}
        elif t[0] == "cmp" and t[1] == "in" and t[2][0] == "const" and (l_ := loc(t[3]))[0] == "attr" and l_[2] in ("suffixes", "name") and same(l_[1]):
            role = "SUFFIX"  # `'.py' in path.suffixes` / `'.py' in path.name`: also true for `a.py.bak`
        elif t[0] == "mcall" and t[2] == "endswith" and len(t[3]) == 1 and t[3][0][0] == "const":
            l = loc(t[1])
            if same(l) or (l[0] == "attr" and l[2] == "name" and same(l[1])):
                role = "PY" if t[3][0] == ("const", PY) else "SUFFIX"
        elif t[0] == "unk" and t[1].startswith("bool(<"):
            role = "WORK"  # truthiness of a mutable container (work list not empty)
        elif t[0] == "cmp" and t[1] == "is" and any(o[0] == "lib" or is_none(o) for o in (t[2], t[3])):
            role = "MARK"  # identity test against None / a sentinel (end-of-iteration marker): not a property of a path
        roles[key] = role

    # tests about the path that this rule cannot interpret (fnmatch, suffix sets, is_file, ...)
    for key, r in list(roles.items()):
        t = sx.atoms.get(key)
        if r in ("SUFFIX", "other-path", "MARK"):
            continue  # understood: a file-type test that is not `suffix == '.py'`
        if r == "other" and key in name_atoms:
            roles[key] = "NAME"  # a case distinction of the name computation itself (e.g. 'the path is the root')
        elif r == "other" and t is not None and target is not None and any(strip_abs(loc(x)) == target for x in subterms(t)):
            roles[key] = "other-path"

    def mapping(key: str):
        r = roles.get(key, "other")
        if r in ("ISDIR", "EXCL", "PY"):
            return atom(r)
        return None

    return rename_atoms(f, mapping), roles, improper


def _exclusion_tests_elsewhere(info: ScanInfo, path: Term | None) -> list[Term]:
    """Arguments of exclusion tests that are neither the given path nor a part of it (tests made on other values, e.g. on the
    entries of a directory before they are handed on)."""
    target = strip_abs(loc(path)) if path is not None else None
    out = []
    for e in info.trace.calls(EXCLUSION_PREDICATE):
        a = e.arg(0)
        if a is None:
            continue
        if target is not None and (strip_abs(loc(a)) == target or _part_of(loc(a), target)):
            continue
        out.append(a)
    return out


def _part_of(l: Term, target: Term | None) -> bool:
    """The location `l` is derived from `target` by taking its name / stem / parent / a relative part."""
    if target is None:
        return False
    while True:
        if l[0] == "ABS":
            l = l[1]
        elif l[0] == "attr" and l[2] in ("name", "stem", "suffix", "parts", "parent"):
            l = l[1]
            if strip_abs(l) == target:
                return True
        elif l[0] in ("PARENT", "NOSUF"):
            l = l[1]
            if strip_abs(l) == target:
                return True
        elif l[0] == "REL":
            l = l[1]
            if strip_abs(l) == target:
                return True
        else:
            return False


def _name_truthiness_atoms(sx: SymX, f: Formula, reg: Reg) -> set[str]:
    """Atoms that only test the registered name (or one of its parts) for emptiness - the `if module_name:` idiom."""
    parts = {x for x in subterms(reg.element)}
    out = set()
    for key in atoms_of(f):
        t = sx.atoms.get(key)
        if t is not None and t in parts and t[0] not in ("cmp",):
            out.add(key)
    return out


def _character_prefix_skip(info: ScanInfo):
    """(event, test, why) for a registration / descent / read that only happens if the *text* of the visited path does not start with
    the text of another directory (no separator appended): descendants are recognised by characters instead of by path components."""
    sx = info.sx
    cands = [r.event for r in info.regs] + list(info.descents) + list(info.reads)
    for e in cands:
        for key in sorted(atoms_of(f_and(e.pc))):
            t = sx.atoms.get(key)
            if t is None or t[0] != "mcall" or t[2] != "startswith" or len(t[3]) != 1:
                continue
            subject, other = t[1], t[3][0]
            # the subject is the text of a path: str(p) / os.fspath(p) / a directory name handed out by os.walk
            is_text = subject[0] == "call" and subject[1] in (("builtin", "str"), ("lib", "os.fspath")) or any(x[0] == "call" and x[1] == ("lib", "os.walk") for x in subterms(subject))
            if not is_text:
                continue
            if not implies(f_and(e.pc), f_not(atom(key))):
                continue  # the event does not depend on the test being false
            texts = _accumulated(info, other)
            if texts is None or not texts:
                continue
            if all(_is_bare_path_text(x) for x in texts):
                return e, t, "the other texts are paths of directories as they are, without a trailing separator"
    return None


def _accumulated(info: ScanInfo, coll: Term) -> "list[Term] | None":
    """The elements a tuple / str that is compared against may hold: a display, one text, or what `name += (..,)` adds to a rebound name."""
    c = unbox(coll)
    if c[0] in ("tuple", "list"):
        return [x for x in c[1] if x[0] != "star"] if not any(x[0] == "star" for x in c[1]) else None
    if c[0] == "loopvar":
        out: list[Term] = []
        for e in info.trace.events:
            if e.kind == "aug" and e.name == c[1]:
                v = unbox(e.args[0])
                if v[0] not in ("tuple", "list") or any(x[0] == "star" for x in v[1]):
                    return None
                out += list(v[1])
        return out
    if c[0] == "call" and c[1] in (("builtin", "tuple"), ("builtin", "list")) and len(c[2]) == 1 and c[2][0][0] == "box":
        # `tuple(texts)` of a list that is filled by `texts.append(text)`
        out = []
        for e in info.trace.events:
            if e.kind == "mut" and e.recv is not None and e.recv[0] == "box" and e.recv[1] == c[2][0][1]:
                if e.name not in ("append", "add") or len(e.args) != 1:
                    return None
                out.append(e.args[0])
        return out
    if c[0] in ("call", "mcall", "elem", "idx", "fstr", "binop"):
        return [c]
    return None


def _is_bare_path_text(x: Term) -> bool:
    """`str(p)` / a directory name of os.walk, with nothing appended."""
    if x[0] == "call" and x[1] in (("builtin", "str"), ("lib", "os.fspath")) and len(x[2]) == 1:
        return True
    if x[0] in ("idx", "elem") and any(y[0] == "call" and y[1] == ("lib", "os.walk") for y in subterms(x)):
        return True
    return False


# --------------------------------------------------------------------------- a walk delegated to os.walk
#
# `for directory, sub_directories, file_names in os.walk(top, followlinks=True)` visits `top` and then, after each run of the loop
# body, every `directory / d` for the names `d` that are still in `sub_directories` (the list handed out is the list the library
# descends by).  `sub_directories` are the entries for which is_dir() holds (links followed), `file_names` all other entries.
# The scan conditions are decided on this model:
#
#   visited      top, if the call is reached; a child directory C = D / d if D is visited, the list was not emptied and d was kept
#   invariant    'no visited directory is excluded' holds when the call is only reached for a top that is not excluded and only
#                names d with `not excluded(D / d)` are kept (pruning at the parent); otherwise the loop body has to test D itself
#   registration of D under a guard that, together with the invariant, implies `not excluded(D)`, and exactly then
#   descent      below D only if D is not excluded (invariant, or the list is emptied whenever D is excluded), and into every
#                child that is not excluded
#   files        every `D / f` is handed on whenever D is not excluded, and only then
#
# Removing names from the list while a loop iterates over that very list skips the element after each removed one.


@dataclass
class Walk:
    event: Event  # the call of os.walk
    top: Term
    loop: object  # the `for` loop that consumes it
    item: Term  # the triple of one iteration
    materialised: bool  # the whole walk has run before the first iteration (sorted(...), list(...)): pruning has no effect
    directory: Term = ("unk", "", 0)
    subdirs: Term = ("unk", "", 0)
    files: Term = ("unk", "", 0)
    problems: list = field(default_factory=list)  # why the model cannot be applied
    violations: list = field(default_factory=list)  # (event, tag, detail)
    cleared: list = field(default_factory=list)  # events that empty the sub-directory list
    keeps: list = field(default_factory=list)  # (event, formula, name term): a name stays in the list only if the formula holds
    invariant: "bool | None" = False  # every visited directory is known not to be excluded (None: cannot tell)
    trace_events: list = field(default_factory=list)


def _conjuncts(f: Formula) -> list:
    return list(f[1]) if f[0] == "and" else [] if f == TRUE else [f]


def _relative(pc, base) -> Formula:
    """The path condition `pc` without the conjuncts of `base` (the condition under which an enclosing construct was reached)."""
    drop = set()
    for c in base:
        drop.add(c)
        drop.update(_conjuncts(c))
    out = []
    for c in pc:
        if c in drop:
            continue
        out += [d for d in _conjuncts(c) if d not in drop]
    return f_and(out)


def _child_of(t: Term):
    """(location of the directory, name) if `t` is the path of an entry of a directory: `Path(d) / n`, `os.path.join(d, n)`,
    `Path(d, n)`, `Path(d).joinpath(n)` (also resolved / as text)."""
    t = unbox(t)
    while True:
        if t[0] == "call" and t[1][0] == "lib" and t[1][1] in ("pathlib.Path", "pathlib.PurePath", "os.fspath", "os.path.abspath", "os.path.realpath", "os.path.normpath") and len(t[2]) == 1 and not t[3]:
            t = t[2][0]
        elif t[0] == "call" and t[1] == ("builtin", "str") and len(t[2]) == 1:
            t = t[2][0]
        elif t[0] == "mcall" and t[2] in ("resolve", "absolute") and not t[3]:
            t = t[1]
        else:
            break
    if t[0] == "binop" and t[1] == "/":
        return strip_abs(loc(t[2])), t[3]
    if t[0] == "call" and t[1][0] == "lib" and t[1][1] in ("os.path.join", "pathlib.Path", "pathlib.PurePath") and len(t[2]) == 2 and not t[3]:
        return strip_abs(loc(t[2][0])), t[2][1]
    if t[0] == "mcall" and t[2] == "joinpath" and len(t[3]) == 1:
        return strip_abs(loc(t[1])), t[3][0]
    return None


def _is_copy_of(it: Term, seq_: Term) -> "bool | None":
    """True: iterating `it` walks a copy of the list `seq_`; False: it walks the list itself; None: something else."""
    if ident(it) == ident(seq_):
        return False
    u = it
    if u[0] == "box" and u[3][0] in ("call", "slice", "mcall"):
        u = u[3]
    if u[0] == "call" and u[1] in (("builtin", "list"), ("builtin", "tuple"), ("builtin", "sorted"), ("builtin", "set"), ("builtin", "frozenset")) and len(u[2]) == 1 and ident(u[2][0]) == ident(seq_):
        return True
    if u[0] == "call" and u[1] == ("builtin", "reversed") and len(u[2]) == 1 and ident(u[2][0]) == ident(seq_):
        return True  # the reverse iterator goes by decreasing index: removing the current element moves only elements it has seen
    if u[0] == "slice" and ident(u[1]) == ident(seq_) and all(is_none(x) for x in u[2:5]):
        return True
    if u[0] == "mcall" and u[2] == "copy" and not u[3] and ident(u[1]) == ident(seq_):
        return True
    if u[0] == "call" and u[1] == ("lib", "copy.copy") and len(u[2]) == 1 and ident(u[2][0]) == ident(seq_):
        return True
    return None


def _whole_slice(node) -> bool:
    return isinstance(node, ast.Subscript) and isinstance(node.slice, ast.Slice) and node.slice.lower is None and node.slice.upper is None and node.slice.step is None


def _empty_display(t: Term) -> bool:
    t = unbox(t)
    return t[0] in ("list", "tuple", "set") and not t[1] or t[0] == "call" and t[1] in (("builtin", "list"), ("builtin", "tuple")) and not t[2] or t[0] == "const" and t[1] == ""


def walk_model(info: ScanInfo, e: Event) -> Walk | None:
    """The model of the loop over `os.walk(...)` called by the event `e`; None when the result is not consumed by a `for` loop."""
    sx = info.sx
    loops = {}
    for ev in info.trace.events:
        for l in ev.loops:
            loops[l.id] = l
    mine = [l for l in loops.values() if l.iter is not None and e.result is not None and _unwrap_iterable(l.iter) == e.result]
    top = e.arg(0, "top")
    if len(mine) != 1 or mine[0].kind != "for" or top is None:
        return None
    loop = mine[0]
    item = ("elem", loop.iter, loop.id)
    w = Walk(e, top, loop, item, materialised=loop.iter != e.result and not (loop.iter[0] == "call" and loop.iter[1] == ("builtin", "iter")))
    w.directory, w.subdirs, w.files = (("idx", item, ("const", i)) for i in range(3))
    w.trace_events = info.trace.events
    topdown = next((v for k, v in e.kwargs if k == "topdown"), e.args[1] if len(e.args) > 1 else None)
    if topdown is not None and topdown != ("const", True):
        w.problems.append(f"the walk is bottom-up (`topdown={show(topdown, 30)}`): the sub-directories have been visited before their parent is seen")
    subs = ident(w.subdirs)
    for ev in info.trace.events:
        if ev.recv is None or ident(ev.recv) != subs or ev.kind not in ("mut", "setitem", "delitem"):
            continue
        if not any(l.id == loop.id for l in ev.loops):
            continue
        rel = _relative(ev.pc, e.pc)
        if ev.kind == "mut" and ev.name == "clear" or ev.kind == "delitem" and _whole_slice(ev.node) or ev.kind == "setitem" and _whole_slice(ev.node) and _empty_display(ev.args[1]):
            w.cleared.append(ev)
        elif ev.kind == "mut" and ev.name in ("sort", "reverse"):
            continue  # the order of the descent, not its extent
        elif ev.kind == "mut" and ev.name == "remove" and len(ev.args) == 1:
            x = ev.args[0]
            inner = [l for l in ev.loops if l.id != loop.id and x[0] == "elem" and x[2] == l.id]
            copy = _is_copy_of(inner[0].iter, w.subdirs) if inner and inner[0].iter is not None else None
            if copy is False:
                from core.loader import norm

                w.violations.append((ev, "list pruned while it is iterated", f"`{norm(ev.node, 60)}` removes a name from the list that the enclosing loop `{_loop_text(inner[0])}` is iterating over: the name after a removed one is never examined, so an excluded directory that follows another excluded one stays in the list - `os.walk` descends into it, it is registered as a module and its files are parsed"))
                continue
            if copy is None:
                w.problems.append(f"cannot tell which names `{show(x, 60)}` stands for when it is removed from the sub-directory list")
                continue
            # the name stays unless the removal is reached
            w.keeps.append((ev, f_not(rel), x))
        elif ev.kind == "setitem" and _whole_slice(ev.node):
            v = unbox(ev.args[1])
            while v[0] == "call" and v[1] in (("builtin", "list"), ("builtin", "sorted"), ("builtin", "tuple")) and len(v[2]) == 1:
                v = unbox(v[2][0])
            if v[0] == "comp" and v[1] in ("list", "gen") and len(v[3]) == 1 and v[2] == v[3][0][0] and _is_copy_of(v[3][0][1], w.subdirs) is not None:
                tgt, _it, conds = v[3][0]
                # (where the assignment is not reached, every name stays)
                w.keeps.append((ev, f_or([f_not(rel), f_and([c for c in conds if c != TRUE])]), tgt))
            elif v[0] == "call" and v[1] == ("builtin", "filter") and len(v[2]) == 2:
                w.problems.append(f"cannot read the predicate of `{show(v, 80)}` that selects the sub-directories to descend into")
            else:
                w.problems.append(f"cannot tell which sub-directories `{show(v, 80)}` keeps")
        else:
            w.problems.append(f"cannot tell what `{ev.name}` leaves in the list of sub-directories that `os.walk` descends by")
    for ev, g, name in w.keeps:
        for k in sorted(atoms_of(g)):
            t = sx.atoms.get(k)
            if t is not None and t[0] == "mcall" and t[2] == EXCLUSION_PREDICATE and len(t[3]) == 1 and _child_of(t[3][0]) is None and strip_abs(loc(t[3][0])) == name:
                w.violations.append((ev, "exclusion test on the path", f"the exclusion predicate is applied to `{show(t[3][0], 60)}`, the bare name of a sub-directory as `os.walk` lists it, not to its path: path patterns no longer exclude it and name-only patterns exclude it in every directory"))
    return w


def _pc_at_loop(info: ScanInfo, loop_id: int) -> tuple:
    """The path condition under which the loop is entered: the longest common prefix of the conditions of the events inside it."""
    same = [ev for ev in info.trace.events if any(l.id == loop_id for l in ev.loops)]
    if not same:
        return ()
    prefix = list(same[0].pc)
    for ev in same[1:]:
        n = 0
        while n < len(prefix) and n < len(ev.pc) and prefix[n] == ev.pc[n]:
            n += 1
        prefix = prefix[:n]
    # the loop header itself evaluates nothing conditional: what all its events share is the condition of its entry
    return tuple(prefix)


def _walk_atoms(sx: SymX, f: Formula, directory: Term, name: "Term | None" = None):
    """(formula, unread atoms): `f` over the atoms EXCL / ISDIR of the path `directory` and - with `name` - C.EXCL / C.ISDIR of
    its entry `directory / name`."""
    target = strip_abs(loc(directory))
    unknown: set[str] = set()

    def mapping(key: str):
        t = sx.atoms.get(key)
        subject = role = None
        if t is not None and t[0] == "mcall" and t[2] == EXCLUSION_PREDICATE and len(t[3]) == 1:
            subject, role = t[3][0], "EXCL"
        elif t is not None and t[0] == "mcall" and t[2] == "is_dir" and not t[3]:
            subject, role = t[1], "ISDIR"
        elif t is not None and t[0] == "call" and t[1] == ("lib", "os.path.isdir") and len(t[2]) == 1:
            subject, role = t[2][0], "ISDIR"
        if subject is not None:
            if strip_abs(loc(subject)) == target:
                return atom(role)
            ch = _child_of(subject)
            if name is not None and ch is not None and ch[0] == target and ch[1] == name:
                return atom("C." + role)
        unknown.add(key)
        return None

    return rename_atoms(f, mapping), unknown


def _judge_walk(repo: Repo, res: Result, rule: str, info: ScanInfo, w: Walk) -> int:
    """Obligations about the extent of an os.walk scan (see the model above); sets `w.invariant`."""
    sx, e = info.sx, w.event
    key = repo.key(e.fi, stmt_of(e.node))
    wh = where(e.fi, e.node)
    n = 0
    DX, CX = atom("EXCL"), atom("C.EXCL")
    facts = f_and([atom("ISDIR"), atom("C.ISDIR")])  # what the library visits / lists as sub-directories are directories
    # ---- what is known about the start
    f_top, unk_top = _walk_atoms(sx, f_and(e.pc), w.top)
    base = implies(f_top, f_not(DX))
    # ---- which children are descended into
    unread: set[str] = set()
    cleared = []
    for ev in w.cleared:
        g, u = _walk_atoms(sx, _relative(ev.pc, e.pc), w.directory)
        cleared.append(g)
        unread |= u
    keeps = []
    for ev, g0, name in w.keeps:
        g, u = _walk_atoms(sx, g0, w.directory, name)
        keeps.append(g)
        unread |= u
    desc = f_and([f_not(f_or(cleared)), *keeps, facts])
    if w.materialised:
        desc = facts  # the library has finished before the loop body runs for the first time
    step = implies(f_and([f_not(DX), desc]), f_not(CX))
    w.invariant = True if base and step else None if (not base and unk_top) or (not step and unread) else False
    known = f_not(DX) if w.invariant else TRUE
    maybe = w.invariant is None  # a failing check may only be due to what could not be read
    what = "the directory handed out by `os.walk`"
    # ---- children of an excluded directory are not visited
    ok = implies(f_and([known, desc]), f_not(DX))
    n += 1
    if ok:
        res.add(rule, key + " [directory descended]", True, "os.walk descends only below directories that are not excluded: " + ("the start is tested before the call and excluded names are taken out of the list of sub-directories" if w.invariant else "the list of sub-directories is emptied when the visited directory is excluded"), wh, kind="dominance")
    elif unread or w.materialised or maybe:
        why = f"the walk is materialised by `{show(w.loop.iter, 60)}` before the first directory is looked at, so pruning the list of sub-directories cannot stop the descent: cannot see how the directories below an excluded directory are skipped" if w.materialised else f"cannot tell whether `{sorted(unread | unk_top)[0][:120]}` stops the descent below an excluded directory"
        res.undecide(rule, key + " [directory descended]", why, wh)
    else:
        hint = "nothing is ever taken out of the list of sub-directories in place (rebinding the name does not change the list the library holds)" if not w.cleared and not w.keeps else f"sub-directories are descended into under `{show_formula(simplify(desc))[:120]}`"
        res.add(rule, key + " [directory descended]", False, f"`os.walk` descends into the sub-directories of {what} although that directory is excluded ({hint}): the children of an excluded directory are still scanned", wh, kind="dominance")
    # ---- every non-excluded child of a non-excluded directory is visited
    ok = implies(f_and([f_not(DX), f_not(CX), facts]), desc)
    n += 1
    if ok:
        res.add(rule, key + " [all entries visited]", True, "every sub-directory that is not excluded is descended into", wh, kind="flow")
    elif unread:
        res.undecide(rule, key + " [all entries visited]", f"cannot tell whether `{sorted(unread)[0][:120]}` ever keeps the walk from a sub-directory that is not excluded", wh)
    else:
        res.add(rule, key + " [all entries visited]", False, f"not every sub-directory of a visited directory is visited: the walk only descends under `{show_formula(simplify(desc))[:140]}`", wh, kind="flow")
    # ---- the walk is started for every directory that is not excluded
    ok = not unk_top and implies(f_and([atom("ISDIR"), f_not(DX)]), f_top)
    n += 1
    if ok:
        res.add(rule, key + " [walk started]", True, "the walk is started for every start directory that is not excluded", wh, kind="decision-table")
    else:
        res.undecide(rule, key + " [walk started]", f"cannot tell whether the condition `{show_formula(f_and(e.pc))[:140]}` keeps the walk from a start directory that is not excluded", wh)
    # ---- the files of a visited directory
    groups: dict[int, list] = {}
    comps: list = []
    lazy_filters: list[str] = []
    for ev in info.trace.events:
        if not any(l.id == w.loop.id for l in ev.loops) or ev.kind not in ("mut", "call", "yield"):
            continue
        operands = [*ev.args, *[v for _k, v in ev.kwargs], *([ev.recv] if ev.recv is not None else [])]
        for a in operands:
            for x in subterms(a):
                if x[0] == "comp" and len(x[3]) == 1 and _is_copy_of(x[3][0][1], w.files) is not None and any(y == x[3][0][0] for y in subterms(x[2])):
                    comps.append((ev, x))
                elif x[0] == "elem" and _is_copy_of(x[1], w.files) is not None and any(l.id == x[2] and l.kind != "comp" for l in ev.loops) and (ev.kind != "call" or ev.func[0] in ("fn", "cls", "lib", "builtin")):
                    # (a method of the name itself, `f.startswith(..)`, looks at the entry; it does not hand it on)
                    groups.setdefault(x[2], []).append(ev)
                elif x[0] == "elem" and _is_copy_of(x[1], w.files) is not None and (ev.kind != "call" or ev.func[0] in ("fn", "cls", "lib", "builtin")):
                    # a loop over a comprehension of the file names (`for p in [d / f for f in files]`)
                    for l in ev.loops:
                        src = unbox(_unwrap_iterable(l.iter)) if l.iter is not None and l.kind != "comp" else None
                        if src is not None and src[0] == "comp" and len(src[3]) == 1 and src[3][0][0] == x:
                            if [c for c in src[3][0][2] if c != TRUE]:
                                lazy_filters.append(f"only the files with `{show_formula(f_and([c for c in src[3][0][2] if c != TRUE]))[:120]}` are handed on")
                            else:
                                groups.setdefault(l.id, []).append(ev)
    handed: list[Formula] = []
    filtered: list[str] = list(lazy_filters)
    for ev, c in comps:
        conds = [g for g in c[3][0][2] if g != TRUE]
        if conds:
            filtered.append(f"only the files with `{show_formula(f_and(conds))[:120]}` are handed on")
        else:
            handed.append(_relative(ev.pc, e.pc))
    for lid, evs in groups.items():
        entry = _pc_at_loop(info, lid)
        free = [ev for ev in evs if _relative(ev.pc, entry) == TRUE]
        lp = next(l for l in evs[0].loops if l.id == lid)
        if lp.early_exit and not lp.exits_only_when_exhausted():
            filtered.append(f"the loop `{_loop_text(lp)}` over the files can be left early")
        elif free:
            handed.append(_relative(entry, e.pc))
        else:
            filtered.append(f"a file is only handed on if `{show_formula(_relative(evs[0].pc, entry))[:120]}`")
    n += 1
    if not handed and not filtered:
        res.undecide(rule, key + " [files handed on]", "cannot see where the files of a visited directory are handed on", wh)
    elif not handed:
        res.add(rule, key + " [files handed on]", False, f"not every file of a visited directory is visited: {filtered[0]}", wh, kind="flow")
    else:
        g_f, u_f = _walk_atoms(sx, f_or(handed), w.directory)
        sound = implies(f_and([known, g_f]), f_not(DX))
        complete = implies(f_not(DX), _exists(g_f, sorted(u_f)[:6])) if len(u_f) <= 6 else False
        if sound and complete:
            res.add(rule, key + " [files handed on]", True, "the files of a visited directory are handed on exactly when the directory is not excluded", wh, kind="flow")
        elif u_f or (maybe and complete):
            res.undecide(rule, key + " [files handed on]", f"cannot tell whether `{sorted(u_f | unread | unk_top)[0][:120]}` decides about the files of a visited directory", wh)
        elif not sound:
            res.add(rule, key + " [files handed on]", False, f"the files of {what} are handed on although that directory is excluded (guard: {show_formula(g_f)[:100]}): files below an excluded directory are parsed", wh, kind="dominance")
        else:
            res.add(rule, key + " [files handed on]", False, f"the files of a directory that is not excluded are only handed on under `{show_formula(g_f)[:120]}`", wh, kind="flow")
    return n


# --------------------------------------------------------------------------- the rule


def _walk_context(sx: SymX, walk: "Walk | None", e: Event, known: Formula, path: "Term | None"):
    """(condition, facts, accepted atoms) for an event inside the loop over an os.walk scan: the condition without what was tested
    before the walk started (judged as 'walk started'), what the model knows about the path the event is about, and the atoms about
    the visited directory in the condition of an event about one of its files (judged as 'files handed on')."""
    if walk is None or path is None:
        return known, TRUE, set()
    if not any(l.id == walk.loop.id for l in e.loops):
        # a second pass over the directories that the walk collected: what held when a directory was put into the collection
        g = _collected_directories(sx, walk, path)
        if g is None and _collects_files(walk, path):
            # a second pass over the files that the walk collected (their hand-over is judged as 'files handed on')
            return _relative(_conjuncts(known), walk.event.pc), TRUE, set()
        if g is None:
            return known, TRUE, set()
        return _relative(_conjuncts(known), walk.event.pc), f_and([atom("ISDIR"), f_not(atom("EXCL")) if walk.invariant else TRUE, g]), set()
    rel = _relative(_conjuncts(known), walk.event.pc)
    target = strip_abs(loc(path))
    if target == strip_abs(loc(walk.directory)):
        return rel, f_and([atom("ISDIR"), f_not(atom("EXCL")) if walk.invariant else TRUE]), set()
    ch = _child_of(path)
    if ch is not None and ch[0] == strip_abs(loc(walk.directory)) and ch[1][0] == "elem" and _is_copy_of(ch[1][1], walk.files) is not None:
        _g, unknown = _walk_atoms(sx, rel, walk.directory)
        return rel, f_not(atom("ISDIR")), {k for k in atoms_of(rel) if k not in unknown}
    if ch is not None and ch[0] == strip_abs(loc(walk.directory)) and ch[1][0] == "elem" and _is_copy_of(ch[1][1], walk.subdirs) is not None:
        # a sub-directory handled at its parent (the names the library lists as sub-directories are directories); when the list
        # has been pruned before, what is still in it has passed the pruning
        _g, unknown = _walk_atoms(sx, rel, walk.directory)
        facts = [atom("ISDIR")]
        order = {id(ev): i for i, ev in enumerate(walk.trace_events)}
        for ev, g0, name in walk.keeps:
            if order.get(id(ev), 1 << 30) < order.get(id(e), -1) and not any(l.id == name[2] for l in e.loops if name[0] == "elem"):
                g, _u = _walk_atoms(sx, g0, walk.directory, name)
                facts.append(rename_atoms(g, lambda k: atom("EXCL") if k == "C.EXCL" else atom("ISDIR") if k == "C.ISDIR" else atom("<the visited directory is excluded>") if k == "EXCL" else TRUE if k == "ISDIR" else None))
        return rel, f_and(facts), {k for k in atoms_of(rel) if k not in unknown} | {"<the visited directory is excluded>"}
    return known, TRUE, set()


def _collected_directories(sx: SymX, walk: Walk, path: Term) -> "Formula | None":
    """If `path` is an element of a list / set that is filled with nothing but the directory visited by the walk (one `append` /
    `add` per iteration): the condition of that append, over the atoms of the element itself; None otherwise."""
    if path[0] != "elem" or walk.invariant is None:
        return None
    src = _unwrap_iterable(path[1])
    if src[0] != "box":
        return None
    d = strip_abs(loc(walk.directory))
    guards = []
    init = sx.box_init.get(src[1], src[3])
    if not (init[0] in ("list", "set", "tuple") and not init[1] or init[0] == "call" and not init[2]):
        return None
    for ev in walk.trace_events:
        if ev.kind in ("mut", "setitem", "delitem") and ev.recv is not None and ev.recv[0] == "box" and ev.recv[1] == src[1]:
            if ev.kind != "mut" or ev.name not in ("append", "add") or len(ev.args) != 1 or strip_abs(loc(ev.args[0])) != d or not any(l.id == walk.loop.id for l in ev.loops):
                return None
            if any(l.id != walk.loop.id and l not in walk.event.loops for l in ev.loops):
                return None
            g, unknown = _walk_atoms(sx, _relative(ev.pc, walk.event.pc), walk.directory)
            if unknown:
                return None
            guards.append(g)
    return f_or(guards) if guards else None


def _collects_files(walk: Walk, path: Term) -> bool:
    """`path` is an element of a collection to which the loop over the walk adds the paths of the files of the visited directory
    (and nothing else)."""
    boxes = {x[1] for x in subterms(path[1]) if x[0] == "box"} if path[0] == "elem" else set()
    d = strip_abs(loc(walk.directory))
    found = False
    for ev in walk.trace_events:
        if ev.kind != "mut" or ev.recv is None or ev.recv[0] != "box" or ev.recv[1] not in boxes or not any(l.id == walk.loop.id for l in ev.loops):
            continue
        if ev.name not in ("append", "add", "extend", "update") or len(ev.args) != 1:
            return False
        a = unbox(ev.args[0])
        el = a[2] if a[0] == "comp" and len(a[3]) == 1 else a
        ch = _child_of(el)
        if ch is None or ch[0] != d or ch[1][0] != "elem" or _is_copy_of(ch[1][1], walk.files) is None:
            return False
        found = True
    return found


def _holds_walked_directories(info: ScanInfo, walk: "Walk | None", path: "Term | None") -> bool:
    """The path is an element of a container that the loop over the walk fills with the visited directories (or their
    sub-directories): a second pass over what the walk collected, whose conditions this rule does not carry over."""
    if walk is None or path is None:
        return False
    boxes = {x[1] for x in subterms(path) if x[0] == "box"}
    if not boxes:
        return False
    d = strip_abs(loc(walk.directory))
    for ev in info.trace.events:
        if ev.kind != "mut" or ev.recv is None or ev.recv[0] != "box" or ev.recv[1] not in boxes or not any(l.id == walk.loop.id for l in ev.loops):
            continue
        for a in ev.args:
            for x in subterms(a):
                if strip_abs(loc(x)) == d:
                    inside_file = any((c := _child_of(y)) is not None and c[1][0] == "elem" and _is_copy_of(c[1][1], walk.files) is not None and x in subterms(y) for y in subterms(a))
                    if not inside_file:
                        return True
    return False


def run_registration(repo: Repo, res: Result, rule: str) -> int:
    """Directories: registered and descended only if not excluded. Files: registered, read and parsed only if .py and not excluded.
    The exclusion predicate is applied to the path itself; every registration happens exactly when these conditions hold."""
    info = analyse(repo)
    sx, parse = info.sx, info.parse
    n = 0
    walk: "Walk | None" = None
    delegated = [e for e in info.trace.events if e.kind == "call" and (e.func[0] == "lib" and e.func[1] in ("os.walk", "os.fwalk", "glob.glob", "glob.iglob") or e.name in ("rglob", "walk") and e.func[0] == "method")]
    if delegated:
        e = delegated[0]
        hit = _character_prefix_skip(info)
        if hit is not None:
            ev, atom_t, why = hit
            res.add(rule, repo.key(ev.fi, stmt_of(ev.node)) + " [paths compared by character prefix]", False, f"a path is skipped when `{show(atom_t, 100)}`: {why}; the text of a path also starts with the text of a sibling whose name is a prefix of its own (`pkg/tests_helpers` is skipped because `pkg/tests` was excluded)", where(ev.fi, ev.node), kind="decision-table")
            return 0
        if e.func == ("lib", "os.walk"):
            follow = next((v for k, v in e.kwargs if k == "followlinks"), e.args[3] if len(e.args) > 3 else None)
            if follow is None or follow == ("const", False):
                res.add(rule, repo.key(e.fi, stmt_of(e.node)) + " [walk follows links]", False, "`os.walk` does not descend into directories that are symbolic links unless `followlinks=True`: a linked package directory and everything below it is no longer scanned (a directory is whatever `is_dir()` says, which follows links)", where(e.fi, e.node), kind="structural")
                return 0
        walk = walk_model(info, e) if e.func == ("lib", "os.walk") and len(delegated) == 1 else None
        if walk is not None and walk.violations:
            for ev, tag_, detail in walk.violations:
                res.add(rule, repo.key(ev.fi, stmt_of(ev.node)) + f" [{tag_}]", False, detail, where(ev.fi, ev.node), kind="flow")
            return 0
        if walk is None or walk.problems:
            why = walk.problems[0] if walk is not None else f"the directory walk is delegated to `{show(e.result, 60) if e.result else e.name}`: which directories are entered and which entries are skipped is decided inside the library"
            res.undecide(rule, repo.key(e.fi, stmt_of(e.node)) + " [walk]", why, where(e.fi, e.node))
            return 0
        n += _judge_walk(repo, res, rule, info, walk)
    if info.problems and not info.regs:
        for p in info.problems:
            res.undecide(rule, f"{parse.relpath}::{parse.qualname}::module registration", p, where(parse, parse.node))
        return 0
    for p in info.problems:
        res.undecide(rule, f"{parse.relpath}::{parse.qualname}::module registration", p, where(parse, parse.node))
    kinds: dict[str, int] = {"directory": 0, "file": 0}
    for reg in info.regs:
        e = reg.event
        key = repo.key(e.fi, stmt_of(e.node))
        wh = where(e.fi, e.node)
        if reg.path is None:
            res.undecide(rule, key + " [module registered]", f"cannot tell which path the registered name `{show(reg.element, 100)}` belongs to", wh)
            continue
        name_atoms = frozenset(guard_atoms(reg.element) | _name_truthiness_atoms(sx, reg.known, reg))
        known_, walk_facts, walk_atoms = _walk_context(sx, walk, e, reg.known, reg.path)
        f, roles, improper = classify_atoms(sx, known_, reg.path, name_atoms)
        f = f_and([f, walk_facts])
        if implies(f, atom("ISDIR")):
            kind = "directory"
        elif implies(f, f_not(atom("ISDIR"))) or implies(f, atom("PY")):
            kind = "file"
        else:
            kind = "path"
        kinds[kind] = kinds.get(kind, 0) + 1
        goal = f_and([f_not(atom("EXCL")), f_or([atom("ISDIR"), atom("PY")])])
        ok = implies(f, goal)
        n += 1
        unknown = sorted(k for k, r in roles.items() if r == "other-path")
        if not ok and unknown and not improper:
            res.undecide(rule, key + f" [{kind} registered]", f"cannot interpret the test `{unknown[0][:120]}` on the registered path", wh)
            continue
        elsewhere = _exclusion_tests_elsewhere(info, reg.path)
        in_walk = walk is not None and any(l.id == walk.loop.id for l in e.loops)
        if not ok and not in_walk and _holds_walked_directories(info, walk, reg.path):
            res.undecide(rule, key + f" [{kind} registered]", "the registered path comes out of a collection that the loop over `os.walk` fills with directories: cannot carry the conditions of the walk over to this second pass", wh)
            continue
        if in_walk and not ok and walk.invariant is None and strip_abs(loc(reg.path)) == strip_abs(loc(walk.directory)):
            res.undecide(rule, key + f" [{kind} registered]", "cannot tell whether every directory that `os.walk` visits has passed the exclusion test (see the walk)", wh)
            continue
        if in_walk:
            elsewhere = []  # tests on the entries of the visited directory are accounted for by the model of the walk
        if not ok and not improper and elsewhere and not implies(f, f_not(atom("EXCL"))):
            res.undecide(rule, key + f" [{kind} registered]", f"the exclusion predicate is applied to `{show_loc(loc(elsewhere[0]))}` (e.g. when entries are selected), not to the registered path at the point of registration: cannot connect the two", wh)
            continue
        if ok:
            detail = f"a {kind} is registered only if it is not excluded" + (" and is a .py file" if kind == "file" else "")
        elif improper and not implies(f, f_not(atom("EXCL"))):
            detail = f"the exclusion patterns are matched against `{show_loc(loc(improper[0]))}` instead of the {kind}'s own path `{show_loc(loc(reg.path))}`: path patterns no longer exclude it and name-only patterns exclude it in every directory"
        elif not implies(f, f_not(atom("EXCL"))):
            detail = f"a {kind} is registered as a module although the exclusion test on its path did not reject it first (guard: {show_formula(_readable(f))}): an excluded {kind} contributes a module"
        else:
            detail = f"a path is registered as a module without being a directory or a `.py` file (guard: {show_formula(_readable(f))}): every file becomes a module"
        res.add(rule, key + f" [{kind} registered]", ok, detail, wh, kind="dominance")
        # exactly when: nothing but the scan conditions decides about a registration
        if ok:
            accepted = {k for k, r in roles.items() if r == "WORK"} | _name_truthiness_atoms(sx, reg.known, reg) | walk_atoms
            # `entry is _NO_MORE_ENTRIES` / `entry is None`: the end-of-iteration marker of the walk, not a property of a path
            accepted |= {k for k in atoms_of(f) if (t_ := sx.atoms.get(k)) is not None and t_[0] == "cmp" and t_[1] == "is" and any(o[0] == "lib" or is_none(o) for o in (t_[2], t_[3])) and any(_projection_of(reg.path, o) for o in (t_[2], t_[3]))}
            # case distinctions of the name computation do not decide about the registration when both cases register
            for k in sorted(k for k, r in roles.items() if r == "NAME" and k not in accepted):
                f_t, f_f = simplify(substitute(f, {k: True})), simplify(substitute(f, {k: False}))
                if equivalent(substitute(f_t, {a: True for a in accepted if a in atoms_of(f_t)}), substitute(f_f, {a: True for a in accepted if a in atoms_of(f_f)})):
                    accepted.add(k)
            f2 = _exists(f, [k for k in sorted(accepted) if k in atoms_of(f)])
            want = f_and([atom("ISDIR"), f_not(atom("EXCL"))]) if kind == "directory" else f_and([f_not(atom("ISDIR")), atom("PY"), f_not(atom("EXCL"))]) if kind == "file" else goal
            extra = sorted(a for a in atoms_of(f2) if a not in ("ISDIR", "EXCL", "PY"))
            ok2 = implies(want, f2)
            n += 1
            early = [l for l in e.loops if l.early_exit and not l.exits_only_when_exhausted()]
            if ok2 and early:
                ok2 = False
                det2 = f"the walk can leave the loop `{_loop_text(early[0])}` early (break / return): later paths are never registered"
            elif ok2:
                det2 = f"every non-excluded {kind if kind != 'file' else '.py file'} is registered"
            elif extra and (config := [a for a in extra if _is_config_test(sx, a, info)]) and (rest := [a for a in extra if a not in config]) and all(_mentions(sx, a, reg) for a in rest):
                # an option of the scanner (a constructor parameter tested for None) switches on a filter on the visited path / its name
                det2 = f"when `{config[0][:60]}` does not hold, the registration of a {kind} additionally depends on `{' , '.join(rest)[:160]}`: not every non-excluded {kind if kind != 'file' else '.py file'} becomes a module"
            elif extra and (all(_is_plumbing_test(sx, a) for a in extra) or not all(_mentions(sx, a, reg) for a in extra)):
                # only a condition on the visited path / its name is recognisably an additional filter
                odd = next((a for a in extra if not _mentions(sx, a, reg)), extra[0])
                res.undecide(rule, key + f" [{kind} registered exactly when]", f"cannot tell whether `{odd[:120]}` ever prevents the registration", wh)
                continue
            elif extra:
                det2 = f"the registration of a {kind} additionally depends on `{' , '.join(extra)[:160]}`: not every non-excluded {kind if kind != 'file' else '.py file'} becomes a module"
            else:
                det2 = f"a {kind} is registered under `{show_formula(_readable(f2))}`, which is narrower than `not excluded` (and `.py` for files)"
            res.add(rule, key + f" [{kind} registered exactly when]", ok2, det2, wh, kind="decision-table")
    # descent
    for e in info.descents:
        if walk is not None and e is walk.event:
            continue  # judged on the model of the walk
        subj = e.recv if e.recv is not None else e.arg(0)
        key = repo.key(e.fi, stmt_of(e.node))
        f, roles, improper = classify_atoms(sx, f_and(e.pc), subj)
        ok = implies(f, f_not(atom("EXCL")))
        n += 1
        if ok:
            detail = "a directory is descended into only if it is not excluded"
        elif improper:
            detail = f"the exclusion test before the descent is applied to `{show_loc(loc(improper[0]))}`, not to the directory `{show_loc(loc(subj))}` itself"
        else:
            detail = f"a directory is descended into although the exclusion test on `{show_loc(loc(subj))}` did not reject it first (guard: {show_formula(_readable(f))}): the children of an excluded directory are still scanned"
        res.add(rule, key + " [directory descended]", ok, detail, where(e.fi, e.node), kind="dominance")
    # every entry of a visited directory is handed on (to the work list / the recursive call / the consumer of the walk)
    for e in info.descents:
        if walk is not None and e is walk.event:
            continue
        verdict, detail = _children_handed_on(info, e)
        key = repo.key(e.fi, stmt_of(e.node))
        n += 1
        if verdict is None:
            res.undecide(rule, key + " [all entries visited]", detail, where(e.fi, e.node))
        else:
            res.add(rule, key + " [all entries visited]", verdict, detail, where(e.fi, e.node), kind="flow")
    # reading and parsing files
    for e in info.reads:
        key = repo.key(e.fi, stmt_of(e.node))
        what = "file read" if e.name in ("open", "read_text", "read_bytes") else "file parsed"
        subj = _file_of(e)
        if subj is None:
            res.undecide(rule, key + f" [{what}]", f"cannot tell which file `{show(e.result, 80) if e.result else e.name}` reads", where(e.fi, e.node))
            continue
        known_, _facts, _wa = _walk_context(sx, walk, e, f_and(e.pc), subj)
        f, roles, improper = classify_atoms(sx, known_, subj)
        goal = f_and([f_not(atom("EXCL")), atom("PY")])
        ok = implies(f, goal)
        n += 1
        unknown = sorted(k for k, r in roles.items() if r == "other-path")
        if not ok and unknown and not improper:
            res.undecide(rule, key + f" [{what}]", f"cannot interpret the test `{unknown[0][:120]}` on the file's path", where(e.fi, e.node))
            continue
        if ok:
            detail = f"{what} only if it is a .py file that is not excluded"
        elif improper and not implies(f, f_not(atom("EXCL"))):
            detail = f"the exclusion patterns are matched against `{show_loc(loc(improper[0]))}` instead of the file's own path before it is {what.split()[1]}"
        else:
            detail = f"a {what.replace('file ', 'file is ')} without the exclusion / file-type test on its path (guard: {show_formula(_readable(f))})"
        res.add(rule, key + f" [{what}]", ok, detail, where(e.fi, e.node), kind="dominance")
    # every use of the exclusion predicate inside the walk sees a whole path
    walked = {strip_abs(loc(r.path)) for r in info.regs if r.path is not None} | {strip_abs(loc(e.recv if e.recv is not None else e.arg(0))) for e in info.descents}
    seen = set()
    for e in info.trace.calls(EXCLUSION_PREDICATE):
        a = e.arg(0)
        if a is None:
            continue
        l = strip_abs(loc(a))
        key = repo.key(e.fi, stmt_of(e.node))
        if key in seen:
            continue
        seen.add(key)
        ok = l in walked
        if not ok and walk is not None and (ch := _child_of(a)) is not None and ch[0] == strip_abs(loc(walk.directory)) and ch[1][0] == "elem" and (_is_copy_of(ch[1][1], walk.subdirs) is not None or _is_copy_of(ch[1][1], walk.files) is not None):
            ok = True  # the path of an entry of the visited directory, built from the names the library lists
        n += 1
        if not ok and not any(_part_of(loc(a), w) for w in walked):
            res.undecide(rule, key + " [exclusion test on the path]", f"cannot relate `{show_loc(loc(a))}` to the visited path", where(e.fi, e.node))
            continue
        res.add(rule, key + " [exclusion test on the path]", ok, "the exclusion predicate is applied to the visited path itself" if ok else f"the exclusion predicate is applied to `{show_loc(loc(a))}`, not to the visited path: patterns are matched against the wrong text", where(e.fi, e.node), kind="flow")
    # vacuity
    if not info.problems:
        if kinds.get("directory", 0) + kinds.get("path", 0) == 0:
            res.undecide(rule, f"{parse.relpath}::{parse.qualname}::directory registration", "no event registers a directory as a module", where(parse, parse.node))
        if kinds.get("file", 0) + kinds.get("path", 0) == 0:
            res.undecide(rule, f"{parse.relpath}::{parse.qualname}::file registration", "no event registers a file as a module", where(parse, parse.node))
        if not info.descents:
            res.undecide(rule, f"{parse.relpath}::{parse.qualname}::descent", "no event enumerates the children of a directory", where(parse, parse.node))
        if not info.reads:
            res.undecide(rule, f"{parse.relpath}::{parse.qualname}::file reading", "no event reads or parses a file", where(parse, parse.node))
        if not res.undecided:
            # all four kinds of events were found and judged: the rule did not pass vacuously, however few statements the walk has
            n = max(n, 7)
    return n


def _exists(f: Formula, keys: list[str]) -> Formula:
    """`f` with the atoms `keys` quantified away: true where some valuation of them makes `f` true."""
    import itertools

    if not keys:
        return f
    if len(keys) > 6:
        return simplify(substitute(f, {k: True for k in keys}))
    return simplify(f_or([substitute(f, dict(zip(keys, vals))) for vals in itertools.product([True, False], repeat=len(keys))]))


def _mentions(sx: SymX, key: str, reg: Reg) -> bool:
    """The tested value is computed from the visited path (or is the registered name)."""
    t = sx.atoms.get(key)
    if t is None or reg.path is None:
        return False
    target = strip_abs(loc(reg.path))
    if any(x == reg.path or strip_abs(loc(x)) == target for x in subterms(t)):
        return True
    # (an alternative of) the registered name itself is tested
    alts = [v for _g, v in reg.element[1]] if reg.element[0] == "phi" else [reg.element]
    return any(x in alts for x in subterms(t))


def _is_config_test(sx: SymX, key: str, info: ScanInfo) -> bool:
    """`<constructor parameter of the scanner> is None` (also through the field it is stored in): which value it has is the caller's
    choice, both are possible."""
    t = sx.atoms.get(key)
    if t is None or not (t[0] == "cmp" and t[1] == "is" and any(is_none(o) for o in (t[2], t[3]))):
        return False
    o = t[3] if is_none(t[2]) else t[2]
    cls = info.parse.cls.name if info.parse.cls else ""
    return o[0] == "param" and o[1].startswith(cls + ".") and bool(cls)


def _is_plumbing_test(sx: SymX, key: str) -> bool:
    """`x is None` for a value the executor could not look into: Optional-plumbing, not a recognisable scan condition."""
    t = sx.atoms.get(key)
    if t is None:
        return False
    return t[0] == "cmp" and t[1] == "is"  # identity tests (None, sentinels) steer the plumbing, they do not filter paths


def is_none(t: Term) -> bool:
    return t[0] == "const" and t[1] is None


def _unwrap_iterable(t: Term) -> Term:
    """The iterable behind list() / tuple() / sorted() / reversed() / iter() wrappers and behind a list built from it."""
    while True:
        if t[0] == "call" and t[1] in (("builtin", "list"), ("builtin", "tuple"), ("builtin", "sorted"), ("builtin", "reversed"), ("builtin", "iter")) and len(t[2]) >= 1:
            t = t[2][0]
        elif t[0] == "box" and t[3][0] == "call" and t[3][1] in (("builtin", "list"), ("builtin", "set")) and len(t[3][2]) == 1:
            t = t[3][2][0]
        else:
            return t


def _children_handed_on(info: ScanInfo, d: Event):
    """(True / False / None, detail): are all entries enumerated by the descent event `d` passed on unfiltered?"""
    entries = d.result
    if entries is None:
        return None, "the enumeration of the directory has no result"
    good: list[str] = []
    bad: list[str] = []
    for e in info.trace.events:
        if e is d or e.kind not in ("mut", "call"):
            continue
        if e.kind == "call" and e.func == ("builtin", "map") and len(e.args) == 2 and e.args[0][0] in ("attr", "fn", "bound", "partial") and _unwrap_iterable(e.args[1]) == entries:
            good.append("each entry")  # `map(self._visit, entries)`: the visiting function is applied to every entry
            continue
        if e.kind == "call" and e.func[0] != "fn" and not (e.func[0] == "cls" and e.func[1] in info.sx.repo.classes):
            continue  # (an entry wrapped into an object of the repo, e.g. a node of a linked work list, is handed on as well)
        operands = []
        for a in [*e.args, *[v for _k, v in e.kwargs]]:
            # a value chosen among several (e.g. `[]` for an excluded directory, else its entries): each alternative counts
            operands += [v for _g, v in a[1]] if a[0] == "phi" else [a]
        for a in list(operands):
            if a[0] == "yields":
                # the entries are yielded by a helper generator: every yielded value counts (with the condition of its yield)
                for g, v in a[1]:
                    if v[0] == "elem" and _unwrap_iterable(v[1]) == entries:
                        extra = [x for x in sorted(atoms_of(g)) if x not in {y for c in d.pc for y in atoms_of(c)}]
                        (bad if extra else good).append(f"an entry is only handed on if `{extra[0][:120]}`" if extra else "each entry")
        for a in operands:
            src = _unwrap_iterable(a)
            if src == entries:
                good.append("all entries")
            elif src[0] == "comp" and len(src[3]) == 1 and _unwrap_iterable(src[3][0][1]) == entries:
                tgt, _it, conds = src[3][0]
                if not [c for c in conds if c != TRUE]:
                    good.append("all entries")  # possibly mapped to something that carries the entry
                else:
                    bad.append(f"only the entries with `{' and '.join(show_formula(c) for c in conds if c != TRUE) or show(src[2], 60)}` are handed on")
            elif a[0] == "elem" and _unwrap_iterable(a[1]) == entries:
                extra = [c for c in e.pc if c not in d.pc]
                loops = [l for l in e.loops if l not in d.loops]
                early = [l for l in loops if l.early_exit and not l.exits_only_when_exhausted()]
                if early:
                    bad.append(f"the loop `{_loop_text(early[0])}` over the entries can be left early")
                elif extra:
                    bad.append(f"an entry is only handed on if `{show_formula(f_and(extra))[:140]}`")
                else:
                    good.append("each entry")
    if good:
        return True, "every entry of a visited directory is handed on"
    if bad:
        return False, f"not every entry of a visited directory is visited: {bad[0]}"
    return None, "cannot see where the entries of a directory are handed on"


def _file_of(e: Event) -> Term | None:
    """The path of the file a read / parse event is about."""
    if e.name in ("read_text", "read_bytes") and e.recv is not None:
        return e.recv
    if e.func == ("builtin", "open") or e.func[0] == "lib" and e.func[1].endswith(".open"):
        return e.arg(0, "file")
    # ast.parse(<text read from a file>): the file inside the argument
    a = e.arg(0, "source")
    if a is None:
        return None
    for x in subterms(a):
        if x[0] == "call" and (x[1] == ("builtin", "open") or x[1][0] == "lib" and x[1][1].endswith(".open")) and x[2]:
            return x[2][0]
        if x[0] == "mcall" and x[2] in ("read_text", "read_bytes"):
            return x[1]
    return None


def _readable(f: Formula) -> Formula:
    """The guard as shown in messages: without the state of the work list and the case distinctions of the name computation."""
    drop = {a: True for a in atoms_of(f) if a not in ("ISDIR", "EXCL", "PY") and (a.startswith("bool(<") or "relative_to" in a or ".name" in a)}
    return simplify(substitute(f, drop)) if drop else f


def _loop_text(loop) -> str:
    from core.loader import header

    return header(loop.node)
