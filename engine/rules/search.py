"""Model of the graph searches in eval_structure/breadth_first_searches.py (shared by C01, C03, C12, C13, C14).

For every function that expands `direct_successor_nodes` / `direct_predecessor_nodes` the model records the worklist, the
visited set, the neighbour loop, and every *event* inside the neighbour loop (push onto the worklist, record of a result pair,
visited-mark) together with the propositional guard under which it happens.  Atoms are normalised so that rules can ask for
implications such as  guard(push) -> pushed in OWN or pushed in EXC.
"""

from __future__ import annotations

import ast
from dataclasses import dataclass, field

from core.guards import Formula, atom, atoms_of, conds_formula, f_and, f_not, f_or, implies, show, to_formula
from core.loader import AnalysisError, FuncInfo, Repo, ancestors, calls_in, norm, own_nodes, parent

from .common import cfg_of, conds, dotted, guard_formula, is_attr_call, stmt_of, where
from .tables import SEARCHES

SUCC = "direct_successor_nodes"
PRED = "direct_predecessor_nodes"
HIER = "parent_child_relationship"
SUBMODULES = "get_all_submodules_of"


@dataclass
class Event:
    kind: str  # push | record | mark
    call: ast.Call
    what: str  # variable pushed / marked, or normalised recorded expression
    guard: Formula
    guard_text: str
    in_neighbour_loop: bool


@dataclass
class SearchModel:
    fi: FuncInfo
    direction: str  # succ | pred
    graph: str
    worklist: str
    popped: str
    visited: str | None
    loop: ast.While
    neighbour_loop: ast.For
    neighbour_var: str
    neighbour_call: ast.Call
    hier_calls: list[ast.Call]
    hier_atom: str | None
    events: list[Event] = field(default_factory=list)
    result_vars: set[str] = field(default_factory=set)
    submodule_sets: dict[str, str] = field(default_factory=dict)  # var -> param it is the subtree of (direct assignment)
    accumulated_sets: dict[str, str] = field(default_factory=dict)  # var -> param (set) whose elements' subtrees it accumulates
    role: str = ""  # explicit | other | submodules


def _hier_formula(e: ast.expr, graph: str) -> str | None:
    if isinstance(e, ast.Call) and isinstance(e.func, ast.Attribute) and e.func.attr == HIER and dotted(e.func.value) == graph:
        return f"bool({norm(e)})"
    return None


def build(repo: Repo, fi: FuncInfo) -> SearchModel | None:
    calls = [c for c in calls_in(fi.node) if isinstance(c.func, ast.Attribute) and c.func.attr in (SUCC, PRED)]
    if not calls:
        return None
    in_loop = [c for c in calls if any(isinstance(a, ast.While) for a in ancestors(c))]
    if len(in_loop) != 1:
        raise AnalysisError(f"{fi.fq}: {len(in_loop)} neighbour expansions inside worklist loops (unknown idiom)")
    ncall = in_loop[0]
    direction = "succ" if ncall.func.attr == SUCC else "pred"
    graph = dotted(ncall.func.value)
    loop = next((a for a in ancestors(ncall) if isinstance(a, ast.While)), None)
    if loop is None or not isinstance(loop.test, ast.Name):
        raise AnalysisError(f"{fi.fq}: neighbour expansion is not inside `while <worklist>:`")
    worklist = loop.test.id
    popped = None
    for s in loop.body:
        if isinstance(s, ast.Assign) and is_attr_call(s.value, "pop") and dotted(s.value.func.value) == worklist and isinstance(s.targets[0], ast.Name):
            popped = s.targets[0].id
            break
    if popped is None:
        raise AnalysisError(f"{fi.fq}: worklist {worklist} is never popped into a variable")
    if not (ncall.args and dotted(ncall.args[0]) == popped):
        raise AnalysisError(f"{fi.fq}: neighbours are not those of the popped node: {norm(ncall)}")
    # neighbour loop
    st = stmt_of(ncall)
    nvar_src = None
    if isinstance(st, ast.Assign) and isinstance(st.targets[0], ast.Name):
        nvar_src = st.targets[0].id
    nloop = None
    for n in ast.walk(loop):
        if isinstance(n, ast.For) and ((nvar_src and dotted(n.iter) == nvar_src) or n.iter is ncall):
            nloop = n
    if nloop is None or not isinstance(nloop.target, ast.Name):
        raise AnalysisError(f"{fi.fq}: loop over the neighbours not found")
    nvar = nloop.target.id
    visited = None
    skip_sets = set()
    for n in ast.walk(loop):
        if isinstance(n, ast.If) and isinstance(n.test, ast.Compare) and len(n.test.ops) == 1 and isinstance(n.test.ops[0], ast.In) and dotted(n.test.left) in (popped, nvar) and len(n.body) == 1 and isinstance(n.body[0], ast.Continue):
            skip_sets.add(dotted(n.test.comparators[0]))
    for n in ast.walk(loop):
        if is_attr_call(n, "add") and n.args and dotted(n.args[0]) in (popped, nvar) and dotted(n.func.value) in skip_sets:
            visited = dotted(n.func.value)
    hier_calls = [c for c in ast.walk(nloop) if isinstance(c, ast.Call) and isinstance(c.func, ast.Attribute) and c.func.attr == HIER]
    model = SearchModel(fi, direction, graph, worklist, popped, visited, loop, nloop, nvar, ncall, hier_calls, None)
    if hier_calls:
        texts = {norm(c) for c in hier_calls}
        if len(texts) != 1:
            raise AnalysisError(f"{fi.fq}: several different hierarchy tests {sorted(texts)}")
        model.hier_atom = f"bool({texts.pop()})"
    rets = {dotted(s.value) for s in own_nodes(fi.node) if isinstance(s, ast.Return) and s.value is not None}
    model.result_vars = {r for r in rets if r}
    # subtree sets
    params = fi.param_names
    for n in own_nodes(fi.node):
        if isinstance(n, ast.Assign) and isinstance(n.value, ast.Call) and isinstance(n.value.func, ast.Name) and n.value.func.id == SUBMODULES:
            if len(n.value.args) == 2 and isinstance(n.targets[0], ast.Name):
                model.submodule_sets[n.targets[0].id] = dotted(n.value.args[1])
        if is_attr_call(n, "update") and n.args and isinstance(n.args[0], ast.Call) and isinstance(n.args[0].func, ast.Name) and n.args[0].func.id == SUBMODULES:
            arg = dotted(n.args[0].args[1]) if len(n.args[0].args) == 2 else ""
            # the element variable iterates a set-typed parameter
            for a in ancestors(n):
                if isinstance(a, ast.For) and dotted(a.target) == arg and dotted(a.iter) in params:
                    model.accumulated_sets[dotted(n.func.value)] = dotted(a.iter)
    # events
    for c in calls_in(fi.node):
        if not isinstance(c.func, ast.Attribute) or c.func.attr not in ("append", "add", "extend", "update", "insert", "appendleft"):
            continue
        recv = dotted(c.func.value)
        inside = any(a is nloop for a in ancestors(c))
        in_while = any(a is loop for a in ancestors(c))
        if not in_while:
            continue
        kind = None
        if recv == worklist:
            kind = "push"
        elif visited is not None and recv == visited:
            kind = "mark"
        elif recv in model.result_vars:
            kind = "record"
        if kind is None:
            continue
        cs_ = conds(fi, c)
        # conditions established outside the while loop are irrelevant for the discipline
        guard = guard_formula(fi, c)
        what = norm(c.args[0]) if c.args else ""
        model.events.append(Event(kind, c, what, guard, " and ".join(("" if pol else "not ") + norm(e) for e, pol in cs_) or "True", inside))
    # role
    if fi.name == SUBMODULES:
        model.role = "submodules"
    elif model.accumulated_sets:
        model.role = "other"
    else:
        model.role = "explicit"
    return model


def models(repo: Repo) -> list[SearchModel]:
    out = []
    for fi in repo.module(SEARCHES).all_funcs:
        m = build(repo, fi)
        if m is not None:
            out.append(m)
    if len(out) < 4:
        raise AnalysisError(f"only {len(out)} graph searches found in {SEARCHES} (expected the explicit search, two 'other' searches and the sub-module search)")
    return out


def record_pair(model: SearchModel, ev: Event) -> tuple[str, str] | None:
    """(first, second) variable of a recorded pair `tuple(to_modules([a, b]))` / `(a, b)`."""
    e = ev.call.args[0] if ev.call.args else None
    for n in ast.walk(e) if e is not None else []:
        if isinstance(n, (ast.List, ast.Tuple)) and len(n.elts) == 2 and all(isinstance(x, ast.Name) for x in n.elts):
            return n.elts[0].id, n.elts[1].id
    return None


def membership(var: str, setvar: str) -> Formula:
    return atom(f"{var} in {setvar}")
