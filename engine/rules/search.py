"""Model of the graph searches in eval_structure/breadth_first_searches.py (shared by C01, C03, C12, C13, C14).

The model is built on a *normalised inline view* of every public search function (private helpers, also those of neighbouring
modules, are substituted; graph methods and the public search functions themselves stay calls - they are the vocabulary of the
rules; aliases left behind by the substitution are removed so that every set has one name).  It records

  * the outer iteration over nodes to examine: a worklist loop `while W: n = W.pop()` or - the degenerate worklist to which
    nothing is ever pushed - `for n in reversed(W)` / `for n in W` / a comprehension generator,
  * the neighbour iteration(s) over `graph.direct_successor_nodes(n)` / `direct_predecessor_nodes(n)`: a `for` statement or a
    comprehension generator, directly over the call, over a variable holding it, or over a filtered copy of it,
  * every *event* (push onto the worklist, record of a result, visited-mark) in all its spellings (`x.append(e)`,
    `x.extend(<generator>)`, `x += [...]`, `x.add(e)`, `x |= {...}`, `return [e for ...]`) together with the propositional
    guard under which it happens (path conditions, comprehension filters, filters of a filtered neighbour list, boolean
    helpers and boolean locals expanded),
  * the provenance of the node sets the guards talk about: sub-tree of one filter parameter, accumulated sub-trees of the
    elements of a set parameter, identifiers of the parent-module filters.

Atoms are normalised so that rules can ask for implications such as  guard(push) -> pushed in OWN or pushed in EXC.
"""

from __future__ import annotations

import ast
from dataclasses import dataclass, field

from core.guards import FALSE as FALSE_F
from core.guards import Formula, atom, atoms_of, conds_formula, f_and, f_not, f_or, implies, show, to_formula
from core.inline_stmt import Inliner
from core.loader import AnalysisError, FuncInfo, Repo, ancestors, norm, own_nodes, parent, set_parents

from .common import bool_inliner, cfg_of, conds, dotted, stmt_of, types_of
from .tables import SEARCHES

SUCC = "direct_successor_nodes"
PRED = "direct_predecessor_nodes"
HIER = "parent_child_relationship"
SUBMODULES = "get_all_submodules_of"

NODE_ATTR = "identifier"  # ModuleFilter.identifier: the graph node a filter names (public API)
PARENT_FLAG = "identifier_is_parent_module"  # ModuleFilter: 'sub modules of' filter (public API)

_WRAPPERS = {"list", "sorted", "tuple", "reversed", "iter", "set", "frozenset"}
_ADDERS = {"append", "add", "appendleft", "insert", "extend", "update", "extendleft"}
_COMPS = (ast.ListComp, ast.SetComp, ast.GeneratorExp)


# --------------------------------------------------------------------------- model


@dataclass
class Event:
    kind: str  # push | record | mark
    call: ast.AST  # the mutating node: ast.Call (append/extend/add/update/insert), ast.AugAssign (`+=`, `|=`), ast.Return / ast.Assign (comprehension result)
    what: str  # normalised element expression (variable pushed / marked, recorded expression)
    guard: Formula
    guard_text: str
    in_neighbour_loop: bool
    elt: ast.AST | None = None  # element expression node
    nvar: str | None = None  # neighbour variable of the neighbour iteration the event sits in
    receiver: str = ""
    key: ast.AST | None = None  # `R[key].append(..)` / `R.setdefault(key, []).append(..)`: the entry of the result the element goes to


@dataclass
class NeighbourIter:
    node: ast.AST  # ast.For or a comprehension
    gen: int | None  # generator index for comprehensions
    var: str
    extra: list  # [(expr, polarity)] filters of a filtered neighbour list, already renamed to `var`


@dataclass
class SetOp:
    kind: str  # add | remove
    var: str  # set variable
    what: str  # normalised element
    node: ast.AST
    guard: Formula


@dataclass
class SubtreeSite:
    """One `get_all_submodules_of(graph, x)` call and where its result goes."""

    call: ast.Call
    arg: str  # x
    param: str | None  # x is this filter parameter ...
    collection: str | None  # ... or ranges over this collection parameter
    implicit_skips: list[str]  # elements removed from the collection before iterating (`P - {s}`)
    target: str | None  # variable receiving / accumulating the result (None: used inline)
    assigned: bool  # `target = get_all_submodules_of(..)` (exactly the sub-tree) as opposed to accumulated into target
    loop: ast.AST | None  # the For / comprehension binding x
    guard: Formula | None = None
    extra: list = field(default_factory=list)  # filters of a filtered copy of the collection, renamed to x
    fills: list = field(default_factory=list)  # statements that put the looked-up sub-tree(s) into `target` when that is not the statement of the call


@dataclass
class NodeMap:
    """`D[n] = o` for every node n of get_all_submodules_of(graph, o), o ranging over a collection of filters (or one filter): a
    lookup from graph node to the object(s) whose sub-tree holds it."""

    var: str
    collection: str | None
    param: str | None
    single: bool  # one object per node (`D[n] = o` overwrites) as opposed to all of them (`D.setdefault(n, []).append(o)`)
    store: ast.AST


@dataclass
class SearchModel:
    fi: FuncInfo  # normalised inline view of the public search function (fi.base = the function as written)
    direction: str  # succ | pred
    graph: str
    worklist: str
    popped: str
    visited: str | None
    loop: ast.AST  # ast.While | ast.For (statement holding the comprehension for comprehension searches)
    neighbour_loop: ast.AST
    neighbour_var: str
    neighbour_call: ast.Call
    hier_calls: list[ast.Call]
    hier_atom: str | None
    events: list[Event] = field(default_factory=list)
    result_vars: set[str] = field(default_factory=set)
    submodule_sets: dict[str, str] = field(default_factory=dict)  # var -> filter parameter it is the sub-tree of
    accumulated_sets: dict[str, str] = field(default_factory=dict)  # var -> collection parameter whose elements' sub-trees it accumulates
    role: str = ""  # explicit | other | submodules
    # ---- additions of the generalised model
    base: FuncInfo | None = None
    outer_kind: str = "while"  # while | for | comp
    neighbour_iters: list[NeighbourIter] = field(default_factory=list)
    visited_sets: list[str] = field(default_factory=list)
    worklist_sources: list[str] = field(default_factory=list)  # sets / node expressions the worklist is initialised from
    worklist_inits: list[ast.stmt] = field(default_factory=list)
    other_expansions: list[ast.Call] = field(default_factory=list)  # neighbour lookups outside the node loop
    neighbour_calls: list[ast.Call] = field(default_factory=list)  # every spelling of the expansion inside the node loop (neighbour_call is the first)
    subtree_sites: list[SubtreeSite] = field(default_factory=list)
    parent_id_sets: dict[str, list[str]] = field(default_factory=dict)  # var -> filter params whose parent-module identifiers it holds
    set_ops: list[SetOp] = field(default_factory=list)  # add / remove / discard of single nodes on the node sets
    filter_params: list[str] = field(default_factory=list)  # parameters used as one ModuleFilter
    collection_params: list[str] = field(default_factory=list)  # parameters used as a collection of ModuleFilters
    subject_param: str | None = None
    object_param: str | None = None
    subst: object = None  # substitution used for the guards (boolean locals, boolean helpers, canonical hierarchy atom)
    node_maps: dict[str, NodeMap] = field(default_factory=dict)
    worklist_filters: list = field(default_factory=list)  # [(condition, variable)] of a filtered copy the worklist starts from
    subtree_maps: dict[str, str] = field(default_factory=dict)  # T -> collection parameter, for `T = {o: get_all_submodules_of(graph, o) for o in P}`

    def hier(self, nvar: str | None = None) -> Formula:
        """Canonical atom 'the edge between the current node and the neighbour is a hierarchy edge' (correctly oriented)."""
        nv = nvar or self.neighbour_var
        a, b = (self.popped, nv) if self.direction == "succ" else (nv, self.popped)
        return atom(f"bool({self.graph}.{HIER}({a}, {b}))")

    def guard_of(self, node: ast.AST, extra: list | None = None) -> Formula:
        return conds_formula(all_conds(self.fi, node) + list(extra or []), self.subst)


# --------------------------------------------------------------------------- view


class ViewInfo(FuncInfo):
    """FuncInfo of a normalised view: same qualname as the function it shows, but a distinct identity for the caches."""

    @property
    def fq(self) -> str:  # type: ignore[override]
        return f"{self.module.name}::{self.qualname}~search"

    __hash__ = FuncInfo.__hash__
    __eq__ = FuncInfo.__eq__


def _allow(caller: FuncInfo, callee: FuncInfo) -> bool:
    """What is substituted into the view: module-level helpers. Methods (graph accessors, filter properties) and the public
    search functions are the vocabulary of the rules and stay calls."""
    if callee.outer is not None:
        return False
    if callee.cls is not None and not _helper_class(callee.cls):
        # a concrete convenience method of the graph base class built on the three accessors (`graph.hierarchy_below(node)`) is part of
        # the search, not of the vocabulary
        if not (callee.cls.name == "AbstractGraph" and callee.name not in (SUCC, PRED, HIER, "nodes") and not callee.is_abstract and not callee.is_property):
            return False
    if callee.module.name == SEARCHES and not callee.name.startswith("_"):
        return False
    if _self_recursive(callee):
        return False  # one unrolled level says nothing; _recursion_to_worklists rewrites the walk as a whole
    return True


_VOCABULARY_CLASSES = {"AbstractGraph", "ModuleFilter", "Module", "ModuleGroup"}


def _helper_class(ci) -> bool:
    """A class that only organises a search (a walk object owning the worklist, a record): private, or defined next to the
    searches - never the graph or the module filters, whose methods are the vocabulary of the rules."""
    if ci.name in _VOCABULARY_CLASSES or any(norm(b).split(".")[-1] in _VOCABULARY_CLASSES | {"ABC", "Protocol"} for b in ci.base_exprs):
        return False
    return ci.name.startswith("_") or ci.module.name == SEARCHES


def _self_calls(f: FuncInfo) -> list[ast.Call]:
    if isinstance(f.node, ast.Lambda):
        return []
    return [c for c in own_nodes(f.node) if isinstance(c, ast.Call) and isinstance(c.func, ast.Name) and c.func.id == f.name and f.cls is None]


def _self_recursive(f: FuncInfo) -> bool:
    return bool(_self_calls(f))


def _ordered_names(fn: ast.AST) -> list[ast.Name]:
    out: list[ast.Name] = []

    def visit(n: ast.AST) -> None:
        if isinstance(n, ast.Name):
            out.append(n)
        for c in ast.iter_child_nodes(n):
            visit(c)

    for s in fn.body:
        visit(s)
    return out


def _blocks(fn: ast.AST):
    for n in ast.walk(fn):
        for fld in ("body", "orelse", "finalbody"):
            blk = getattr(n, fld, None)
            if isinstance(blk, list) and blk and isinstance(blk[0], ast.stmt):
                yield blk
        if isinstance(n, ast.Try):
            for h in n.handlers:
                yield h.body


def _eliminate_aliases(fn: ast.AST, params: set[str]) -> None:
    """`x = y` where y is a local that is never used afterwards and x was never used before: y is renamed to x and the statement
    dropped (the residue of `x = helper(..)` whose helper ended in `return y`)."""
    for _ in range(50):
        names = _ordered_names(fn)
        pos = {id(n): i for i, n in enumerate(names)}
        done = False
        for blk in _blocks(fn):
            for st in blk:
                tgt = val = None
                if isinstance(st, ast.Assign) and len(st.targets) == 1:
                    tgt, val = st.targets[0], st.value
                elif isinstance(st, ast.AnnAssign) and st.value is not None:
                    tgt, val = st.target, st.value
                if not (isinstance(tgt, ast.Name) and isinstance(val, ast.Name)):
                    continue
                x, y = tgt.id, val.id
                if x == y or y in params:
                    continue
                if any(n.id == y and pos[id(n)] > pos[id(val)] for n in names):
                    continue
                if any(n.id == x and pos[id(n)] < min(pos[id(tgt)], pos[id(val)]) for n in names):
                    continue
                if not any(n.id == y and isinstance(n.ctx, ast.Store) for n in names):
                    continue
                for n in names:
                    if n.id == y:
                        n.id = x
                for a in ast.walk(fn):
                    if isinstance(a, ast.ExceptHandler) and a.name == y:
                        a.name = x
                blk.remove(st)
                if not blk:
                    blk.append(ast.copy_location(ast.Pass(), st))
                done = True
                break
            if done:
                break
        if not done:
            return


def _bool_const(e: ast.AST) -> bool | None:
    return e.value if isinstance(e, ast.Constant) and isinstance(e.value, bool) else None


class _FoldBools(ast.NodeTransformer):
    """Boolean constants the substitution of a helper called with a literal flag leaves behind (`_search(.., forward=True)`):
    `X if True else Y`, `True and c`, `not False`, `if False: A else: B`, `elif False:` are reduced to what is evaluated."""

    def visit_Lambda(self, n):  # noqa: N802
        return n

    def visit_UnaryOp(self, n):  # noqa: N802
        self.generic_visit(n)
        v = _bool_const(n.operand)
        if isinstance(n.op, ast.Not) and v is not None:
            return ast.copy_location(ast.Constant(value=not v), n)
        return n

    def visit_BoolOp(self, n):  # noqa: N802
        self.generic_visit(n)
        is_and = isinstance(n.op, ast.And)
        vals = []
        for x in n.values:
            v = _bool_const(x)
            if v is None:
                vals.append(x)
            elif v != is_and:  # False in an `and`, True in an `or`: decides; what follows is not evaluated
                if not vals:
                    return ast.copy_location(ast.Constant(value=v), n)
                vals.append(x)
                break
            # True in an `and` / False in an `or`: neutral (unless it is the last operand and thereby the value)
        if not vals:
            return ast.copy_location(ast.Constant(value=is_and), n)
        if len(vals) == 1:
            return vals[0]
        n.values = vals
        return n

    def visit_IfExp(self, n):  # noqa: N802
        self.generic_visit(n)
        v = _bool_const(n.test)
        if v is None:
            return n
        return n.body if v else n.orelse

    def visit_If(self, n):  # noqa: N802
        self.generic_visit(n)
        v = _bool_const(n.test)
        if v is None:
            return n
        keep = n.body if v else n.orelse
        return keep or None

    def visit_While(self, n):  # noqa: N802
        self.generic_visit(n)
        if _bool_const(n.test) is False:
            return n.orelse or None
        return n


def _unique_class(repo: Repo, name: str):
    """The one class of the library with this simple name (a substituted helper body may come from another module than the view's,
    and a second substitution pass forgets which)."""
    found = [c for c in repo.classes.values() if c.name == name]
    return found[0] if len(found) == 1 else None


def _record_fields(repo: Repo, mod, func: ast.AST) -> tuple[list[str], bool] | None:
    """(field names in positional order, the record can be unpacked like a tuple) for a call target that is a plain record class of
    the library: a `typing.NamedTuple` class, a `collections.namedtuple(..)` constant, or a dataclass without hand-written
    construction hooks."""
    if not isinstance(func, (ast.Name, ast.Attribute)):
        return None
    fq = repo.resolve_name(mod, func)
    ci = repo.classes.get(fq) if fq else None
    if ci is None and isinstance(func, ast.Name):
        ci = mod.classes.get(func.id) or _unique_class(repo, func.id)
    if ci is not None:
        hooks = {"__init__", "__new__", "__post_init__", "__iter__", "__getattr__", "__getattribute__", "__getitem__"}
        if hooks & set(ci.methods):
            return None
        is_nt = any(norm(b).split(".")[-1] == "NamedTuple" for b in ci.base_exprs)
        if is_nt and len(ci.base_exprs) == 1:
            return list(ci.ann_attrs), True
        if ci.is_dataclass and not ci.base_exprs:
            if any(isinstance(d, ast.Call) and any(k.arg in ("init", "kw_only") for k in d.keywords) for d in ci.node.decorator_list):
                return None
            return list(ci.ann_attrs), False
        return None
    # X = namedtuple("X", "a b") / namedtuple("X", ["a", "b"])
    if isinstance(func, ast.Name):
        val = mod.constants.get(func.id)
        if isinstance(val, ast.Call) and norm(val.func).split(".")[-1] == "namedtuple" and len(val.args) >= 2 and not val.keywords:
            spec = val.args[1]
            if isinstance(spec, ast.Constant) and isinstance(spec.value, str):
                return spec.value.replace(",", " ").split(), True
            if isinstance(spec, (ast.List, ast.Tuple)) and all(isinstance(x, ast.Constant) and isinstance(x.value, str) for x in spec.elts):
                return [x.value for x in spec.elts], True
    return None


def _unpack_records(repo: Repo, view: FuncInfo) -> None:
    """Records that only carry values from a producer to a consumer are taken apart (what a generator's
    `yield Stop(module, imported)` and its consumer's `for importer, importees in walk(..)` / `stop.module` become once the
    generator is substituted):

        a, b = Stop(x, y)          ->  a, b = (x, y)
        s = Stop(x, y) .. s.module ->  s__module = x; s__imported = y .. s__module     (every read of s is a field read)"""
    fn = view.node
    set_parents(fn)
    taken = {n.id for n in ast.walk(fn) if isinstance(n, ast.Name)}

    def fields_of(call: ast.AST) -> tuple[list[str], bool, list[ast.expr]] | None:
        if not (isinstance(call, ast.Call) and not any(isinstance(a, ast.Starred) for a in call.args) and all(k.arg for k in call.keywords)):
            return None
        src = getattr(call, "_src", None)
        mod = src[0].module if src is not None else view.module
        got = _record_fields(repo, mod, call.func)
        if got is None:
            return None
        names, iterable = got
        vals: dict[str, ast.expr] = dict(zip(names, call.args))
        for k in call.keywords:
            vals[k.arg] = k.value
        if len(call.args) > len(names) or set(vals) != set(names):
            return None  # defaults in play: not taken apart
        return names, iterable, [vals[n] for n in names]

    for blk in list(_blocks(fn)):
        i = 0
        while i < len(blk):
            st = blk[i]
            i += 1
            if not (isinstance(st, ast.Assign) and len(st.targets) == 1):
                continue
            got = fields_of(st.value)
            if got is None:
                continue
            names, iterable, vals = got
            tgt = st.targets[0]
            if isinstance(tgt, (ast.Tuple, ast.List)) and iterable and len(tgt.elts) == len(vals) and not any(isinstance(t, ast.Starred) for t in tgt.elts):
                st.value = ast.copy_location(ast.Tuple(elts=vals, ctx=ast.Load()), st.value)
                continue
            if not isinstance(tgt, ast.Name):
                continue
            s_ = tgt.id
            if sum(1 for n in ast.walk(fn) if isinstance(n, ast.Name) and n.id == s_ and isinstance(n.ctx, (ast.Store, ast.Del))) != 1:
                continue
            reads = [n for n in ast.walk(fn) if isinstance(n, ast.Name) and n.id == s_ and isinstance(n.ctx, ast.Load)]
            proj: list[tuple[ast.AST, int]] = []
            ok = True
            for r in reads:
                par = parent(r)
                if isinstance(par, ast.Attribute) and par.value is r and par.attr in names and isinstance(par.ctx, ast.Load):
                    proj.append((par, names.index(par.attr)))
                elif iterable and isinstance(par, ast.Subscript) and par.value is r and isinstance(par.slice, ast.Constant) and isinstance(par.slice.value, int) and -len(names) <= par.slice.value < len(names) and isinstance(par.ctx, ast.Load):
                    proj.append((par, par.slice.value % len(names)))
                else:
                    ok = False
                    break
            if not ok or not proj:
                continue
            locs = []
            for n_ in names:
                new = f"{s_}__{n_}"
                while new in taken:
                    new += "_"
                taken.add(new)
                locs.append(new)
            for node_, k in proj:
                par = parent(node_)
                ref = ast.copy_location(ast.Name(id=locs[k], ctx=ast.Load()), node_)
                for fld, val in ast.iter_fields(par):
                    if val is node_:
                        setattr(par, fld, ref)
                    elif isinstance(val, list):
                        for j, x in enumerate(val):
                            if x is node_:
                                val[j] = ref
            new_stmts = [ast.copy_location(ast.Assign(targets=[ast.Name(id=l_, ctx=ast.Store())], value=v_), st) for l_, v_ in zip(locs, vals)]
            blk[i - 1:i] = new_stmts
            i += len(new_stmts) - 1
            set_parents(fn)


def _fold_constants(fn: ast.AST) -> None:
    # only when a literal flag is in play: `while True:` worklists and the like stay as written
    if not any(isinstance(x, (ast.If, ast.IfExp)) and _bool_const(x.test) is not None or (isinstance(x, ast.BoolOp) and any(_bool_const(v_) is not None for v_ in x.values)) for x in ast.walk(fn)):
        return
    folder = _FoldBools()

    def block(stmts: list[ast.stmt]) -> list[ast.stmt]:
        out: list[ast.stmt] = []
        for st in stmts:
            got = folder.visit(st)
            if got is None:
                continue
            out += got if isinstance(got, list) else [got]
        return out

    fn.body = block(fn.body) or [ast.Pass()]
    for n in ast.walk(fn):
        for fld in ("body", "orelse", "finalbody"):
            blk = getattr(n, fld, None)
            if isinstance(blk, list) and not blk and fld == "body" and isinstance(n, (ast.For, ast.While, ast.If, ast.With, ast.Try, ast.ExceptHandler)):
                n.body = [ast.Pass()]


def _fold_inplace_differences(fn: ast.AST) -> None:
    """`X = P` directly followed by `X -= E` / `X.difference_update(E)` (X bound nowhere else): read as `X = P - E`.  Which elements X
    holds is all the search model asks; that the statement also changes the object P names (a helper that trims the caller's set in
    place) is a purity question of another property."""
    stores: dict[str, int] = {}
    for n in ast.walk(fn):
        if isinstance(n, ast.Name) and isinstance(n.ctx, (ast.Store, ast.Del)):
            stores[n.id] = stores.get(n.id, 0) + 1
    for blk in _blocks(fn):
        i = 0
        while i + 1 < len(blk):
            a, b = blk[i], blk[i + 1]
            i += 1
            tgt = a.targets[0] if isinstance(a, ast.Assign) and len(a.targets) == 1 else a.target if isinstance(a, ast.AnnAssign) and a.value is not None else None
            if not (isinstance(tgt, ast.Name) and isinstance(a.value, ast.Name) and stores.get(tgt.id) == 2 - (0 if isinstance(b, ast.AugAssign) else 1)):
                continue
            removed = None
            if isinstance(b, ast.AugAssign) and isinstance(b.op, ast.Sub) and isinstance(b.target, ast.Name) and b.target.id == tgt.id:
                removed = b.value
            elif isinstance(b, ast.Expr) and isinstance(b.value, ast.Call) and isinstance(b.value.func, ast.Attribute) and b.value.func.attr == "difference_update" and isinstance(b.value.func.value, ast.Name) and b.value.func.value.id == tgt.id and len(b.value.args) == 1 and not b.value.keywords:
                removed = b.value.args[0]
            if removed is None:
                continue
            a.value = ast.copy_location(ast.BinOp(left=a.value, op=ast.Sub(), right=removed), a.value)
            blk.remove(b)
            i -= 1


def _propagate_copies(fn: ast.AST, params: set[str]) -> None:
    """`x = y` (two local names) where x is bound only here, every read of x comes later inside the block the statement is in, and
    y is never bound after the statement: x is y wherever it is read - the reads are renamed and the statement dropped.  (What a
    consumer's `for x in gen(..)` leaves behind once the generator's `yield y` is substituted while the generator goes on
    using y.)"""
    for _ in range(30):
        set_parents(fn)
        names = _ordered_names(fn)
        pos = {id(n): i for i, n in enumerate(names)}
        done = False
        for blk in _blocks(fn):
            for st in blk:
                if not (isinstance(st, ast.Assign) and len(st.targets) == 1 and isinstance(st.targets[0], ast.Name) and isinstance(st.value, ast.Name)):
                    continue
                x, y = st.targets[0].id, st.value.id
                if x == y or x in params:
                    continue
                if sum(1 for n in names if n.id == x and isinstance(n.ctx, (ast.Store, ast.Del))) != 1:
                    continue
                if any(isinstance(a, (ast.ExceptHandler)) and a.name in (x, y) for a in ast.walk(fn)) or any(isinstance(a, (ast.Global, ast.Nonlocal)) for a in ast.walk(fn)):
                    continue
                here = pos[id(st.value)]

                def shadowed(n: ast.Name, name: str) -> bool:
                    """the name is a parameter of an enclosing lambda: another variable"""
                    return any(isinstance(a, ast.Lambda) and any(p_.arg == name for p_ in [*a.args.posonlyargs, *a.args.args, *a.args.kwonlyargs]) for a in ancestors(n))

                reads = [n for n in names if n.id == x and isinstance(n.ctx, ast.Load) and not shadowed(n, x)]
                if not reads or any(pos[id(n)] < here for n in reads):
                    continue
                if any(shadowed(n, y) for n in reads):
                    continue  # a read inside a lambda with a parameter called y: renaming would capture
                if any(n.id == y and isinstance(n.ctx, (ast.Store, ast.Del)) and pos[id(n)] > here for n in names):
                    continue
                # every read sits in the block of the statement (or deeper), after it; not inside a nested function
                inside = True
                for n in reads:
                    chain = [n, *ancestors(n)]
                    if any(isinstance(a, (ast.FunctionDef, ast.AsyncFunctionDef, ast.Lambda)) and a is not fn for a in chain):
                        inside = False
                        break
                    if not any(any(c is b for b in blk) for c in chain):
                        inside = False
                        break
                if not inside:
                    continue
                for n in reads:
                    n.id = y
                blk.remove(st)
                if not blk:
                    blk.append(ast.copy_location(ast.Pass(), st))
                done = True
                break
            if done:
                break
        if not done:
            return


def _negated(e: ast.expr) -> ast.expr:
    if isinstance(e, ast.UnaryOp) and isinstance(e.op, ast.Not):
        return e.operand
    if isinstance(e, ast.Compare) and len(e.ops) == 1 and isinstance(e.ops[0], (ast.In, ast.NotIn, ast.Is, ast.IsNot, ast.Eq, ast.NotEq)):
        flip = {ast.In: ast.NotIn, ast.NotIn: ast.In, ast.Is: ast.IsNot, ast.IsNot: ast.Is, ast.Eq: ast.NotEq, ast.NotEq: ast.Eq}[type(e.ops[0])]
        new = ast.copy_location(ast.Compare(left=e.left, ops=[flip()], comparators=e.comparators), e)
    else:
        new = ast.copy_location(ast.UnaryOp(op=ast.Not(), operand=e), e)
    if hasattr(e, "_src"):
        new._src = e._src  # type: ignore[attr-defined]
    return new


def _conjuncts(t: ast.expr) -> list[ast.expr]:
    if isinstance(t, ast.BoolOp) and isinstance(t.op, ast.And):
        return [c for v in t.values for c in _conjuncts(v)]
    if isinstance(t, ast.UnaryOp) and isinstance(t.op, ast.Not) and isinstance(t.operand, ast.BoolOp) and isinstance(t.operand.op, ast.Or):
        return [c for v in t.operand.values for c in _conjuncts(_negated(v))]
    return [t]


def _disjuncts(t: ast.expr) -> list[ast.expr]:
    if isinstance(t, ast.BoolOp) and isinstance(t.op, ast.Or):
        return [c for v in t.values for c in _disjuncts(v)]
    if isinstance(t, ast.UnaryOp) and isinstance(t.op, ast.Not) and isinstance(t.operand, ast.BoolOp) and isinstance(t.operand.op, ast.And):
        return [c for v in t.operand.values for c in _disjuncts(_negated(v))]
    return [t]


def _split_conditions(stmts: list[ast.stmt]) -> list[ast.stmt]:
    """`if a and b: S` -> `if a: if b: S`;  `if a or b: <exit>` -> `if a: <exit>` `if b: <exit>` (same evaluation order, same effect).

    The path conditions of core/cfg.py drop a condition as a whole as soon as one name in it is mutated; after the split a
    mutation of one set (`visited.add(n)`) no longer hides what is known about another (`n not in excluded`)."""
    from core.cfg import always_exits

    out: list[ast.stmt] = []
    for st in stmts:
        for fld in ("body", "orelse", "finalbody"):
            blk = getattr(st, fld, None)
            if isinstance(blk, list) and blk and isinstance(blk[0], ast.stmt):
                setattr(st, fld, _split_conditions(blk))
        if isinstance(st, ast.Try):
            for h in st.handlers:
                h.body = _split_conditions(h.body)
        if isinstance(st, ast.If) and not st.orelse:
            conj = _conjuncts(st.test)
            if len(conj) > 1:
                inner: list[ast.stmt] = st.body
                for c in reversed(conj):
                    node = ast.copy_location(ast.If(test=c, body=inner, orelse=[]), st)
                    if hasattr(st, "_src"):
                        node._src = st._src  # type: ignore[attr-defined]
                    inner = [node]
                out.append(inner[0])
                continue
            disj = _disjuncts(st.test)
            if len(disj) > 1 and always_exits(st.body) and all(isinstance(x, (ast.Continue, ast.Break, ast.Return, ast.Raise, ast.Pass)) for x in st.body):
                for k, d in enumerate(disj):
                    node = ast.copy_location(ast.If(test=d, body=st.body if k == 0 else _clone(st.body), orelse=[]), st)
                    if hasattr(st, "_src"):
                        node._src = st._src  # type: ignore[attr-defined]
                    out.append(node)
                continue
        out.append(st)
    return out


def _split_tuple_assigns(stmts: list[ast.stmt]) -> list[ast.stmt]:
    """`a, b = (x, y)` -> `a = x` `b = y` when no target occurs on the right (what `a, b = helper(..)` becomes once the helper's
    `return x, y` is substituted): the parts can then be followed one by one."""
    out: list[ast.stmt] = []
    for st in stmts:
        for fld in ("body", "orelse", "finalbody"):
            blk = getattr(st, fld, None)
            if isinstance(blk, list) and blk and isinstance(blk[0], ast.stmt):
                setattr(st, fld, _split_tuple_assigns(blk))
        if isinstance(st, ast.Try):
            for h in st.handlers:
                h.body = _split_tuple_assigns(h.body)
        if isinstance(st, ast.Assign) and len(st.targets) == 1 and isinstance(st.targets[0], (ast.Tuple, ast.List)) and isinstance(st.value, (ast.Tuple, ast.List)):
            tg, vs = st.targets[0].elts, st.value.elts
            names = {t.id for t in tg if isinstance(t, ast.Name)}
            used = {n.id for v_ in vs for n in ast.walk(v_) if isinstance(n, ast.Name)}
            if len(tg) == len(vs) and all(isinstance(t, ast.Name) for t in tg) and not any(isinstance(v_, ast.Starred) for v_ in vs) and not (names & used) and len(names) == len(tg):
                for t, v_ in zip(tg, vs):
                    node = ast.copy_location(ast.Assign(targets=[t], value=v_), st)
                    if hasattr(st, "_src"):
                        node._src = st._src  # type: ignore[attr-defined]
                    out.append(node)
                continue
            # `_, b = (x, y)`: a repeated throw-away target
            if len(tg) == len(vs) and all(isinstance(t, ast.Name) for t in tg) and not any(isinstance(v_, ast.Starred) for v_ in vs) and not (names & used) and all(t.id == "_" for t in tg if [u.id for u in tg].count(t.id) > 1):
                for t, v_ in zip(tg, vs):
                    out.append(ast.copy_location(ast.Assign(targets=[t], value=v_), st))
                continue
        out.append(st)
    return out


def _project_tuples(fn: ast.AST) -> None:
    """`t = (x, y)` bound once and only ever read as `t[0]` / `t[1]`: the subscripts are replaced by x / y (`helper(..)[0]` after the
    helper's `return x, y` was substituted)."""
    single = _single_assignments(fn)
    for name, val in single.items():
        if not (isinstance(val, ast.Tuple) and val.elts and all(isinstance(x, ast.Name) for x in val.elts)):
            continue
        loads = [n for n in ast.walk(fn) if isinstance(n, ast.Name) and n.id == name and isinstance(n.ctx, ast.Load)]
        subs = [n for n in ast.walk(fn) if isinstance(n, ast.Subscript) and isinstance(n.value, ast.Name) and n.value.id == name and isinstance(n.slice, ast.Constant) and isinstance(n.slice.value, int) and -len(val.elts) <= n.slice.value < len(val.elts)]
        if not subs or len(subs) != len(loads):
            continue
        # the parts must not be rebound between the tuple and its uses: they are locals filled before (single binding)
        if not all(x.id in single or sum(1 for n in ast.walk(fn) if isinstance(n, ast.Name) and n.id == x.id and isinstance(n.ctx, ast.Store)) <= 1 for x in val.elts):
            continue
        for par in ast.walk(fn):
            for fld, v_ in ast.iter_fields(par):
                if isinstance(v_, ast.AST) and any(v_ is s_ for s_ in subs):
                    setattr(par, fld, ast.copy_location(ast.Name(id=val.elts[v_.slice.value].id, ctx=ast.Load()), v_))
                elif isinstance(v_, list):
                    for i, x in enumerate(v_):
                        if isinstance(x, ast.AST) and any(x is s_ for s_ in subs):
                            v_[i] = ast.copy_location(ast.Name(id=val.elts[x.slice.value].id, ctx=ast.Load()), x)


def _is_none_test(t: ast.expr) -> str | None:
    """x for `x is None`."""
    if isinstance(t, ast.Compare) and len(t.ops) == 1 and isinstance(t.ops[0], ast.Is) and isinstance(t.left, ast.Name) and isinstance(t.comparators[0], ast.Constant) and t.comparators[0].value is None:
        return t.left.id
    return None


def _thread_none_exits(stmts: list[ast.stmt]) -> list[ast.stmt]:
    """`if c: x = None else: ..; x = e` directly followed by `if x is None: <exit>`: the branch that sets None takes the exit itself
    (the shape a substituted `x = helper(..)` leaves when the helper returns None for "nothing to do")."""
    for st in stmts:
        for fld in ("body", "orelse", "finalbody"):
            blk = getattr(st, fld, None)
            if isinstance(blk, list) and blk and isinstance(blk[0], ast.stmt):
                setattr(st, fld, _thread_none_exits(blk))
        if isinstance(st, ast.Try):
            for h in st.handlers:
                h.body = _thread_none_exits(h.body)
    out = list(stmts)
    i = 0
    while i + 1 < len(out):
        a, b = out[i], out[i + 1]
        x = _is_none_test(b.test) if isinstance(b, ast.If) and not b.orelse else None
        pure_exit = x is not None and all(isinstance(e, (ast.Continue, ast.Break)) or (isinstance(e, ast.Return) and (e.value is None or isinstance(e.value, ast.Constant))) for e in b.body)
        if isinstance(a, ast.If) and a.orelse and pure_exit:
            for fld in ("body", "orelse"):
                blk = getattr(a, fld)
                last = blk[-1] if blk else None
                if isinstance(last, ast.Assign) and len(last.targets) == 1 and isinstance(last.targets[0], ast.Name) and last.targets[0].id == x and isinstance(last.value, ast.Constant) and last.value.value is None:
                    setattr(a, fld, blk[:-1] + _clone(b.body))
        i += 1
    return out


def _positionalise(fn: ast.AST, repo: Repo) -> None:
    """Keyword arguments of the vocabulary calls (graph accessors, hierarchy test, public search functions) become positional, so
    that `graph.direct_successor_nodes(node=n)` and `get_all_submodules_of(graph=g, module=m)` read like the positional form."""
    sigs: dict[str, list[str]] = {}
    for ci in repo.classes.values():
        if ci.name == "AbstractGraph":
            for name in (SUCC, PRED, HIER):
                m = ci.methods.get(name)
                if m is not None:
                    sigs[name] = m.param_names[1:]
    mod = repo.modules.get(SEARCHES)
    pub = {n: f.param_names for n, f in mod.functions.items() if not n.startswith("_")} if mod is not None else {}
    for c in ast.walk(fn):
        if not (isinstance(c, ast.Call) and c.keywords and all(k.arg for k in c.keywords) and not any(isinstance(a, ast.Starred) for a in c.args)):
            continue
        names = sigs.get(c.func.attr) if isinstance(c.func, ast.Attribute) else pub.get(c.func.id) if isinstance(c.func, ast.Name) else None
        if not names:
            continue
        given = {k.arg: k.value for k in c.keywords}
        rest = names[len(c.args):]
        if set(given) != set(rest[: len(given)]):
            continue
        c.args = list(c.args) + [given[n] for n in rest[: len(given)]]
        c.keywords = []


def _helper_of(repo: Repo, view: FuncInfo, call: ast.Call) -> FuncInfo | None:
    """The module-level helper a call invokes, if the view may look into it."""
    if not isinstance(call.func, ast.Name):
        return None
    try:
        cs, how = types_of(repo).callees(view, call, byname_fallback=False)
    except Exception:  # noqa: BLE001
        return None
    cs = [c for c in cs if not c.is_abstract]
    if len(cs) != 1 or how != "repo" or isinstance(cs[0].node, ast.Lambda) or not _allow(view, cs[0]):
        return None
    a = cs[0].node.args
    if a.vararg or a.kwarg:
        return None
    return cs[0]


def _is_generator(f: FuncInfo) -> bool:
    return any(isinstance(n, (ast.Yield, ast.YieldFrom)) for n in own_nodes(f.node))


def _header_exprs(st: ast.stmt) -> list[tuple[str, ast.AST]]:
    if isinstance(st, (ast.Expr, ast.Return)) and st.value is not None:
        return [("value", st.value)]
    if isinstance(st, (ast.Assign, ast.AugAssign)):
        return [("value", st.value)]
    if isinstance(st, ast.AnnAssign) and st.value is not None:
        return [("value", st.value)]
    if isinstance(st, (ast.For, ast.AsyncFor)):
        return [("iter", st.iter)]
    return []


def _hoist_helper_calls(repo: Repo, view: FuncInfo) -> bool:
    """`x.extend(helper(a))` / `for v in helper(a):` / `return list(helper(a))` -> `t = helper(a)` in front of the statement, so that
    the statement-level inliner can substitute the helper's body (it only handles calls that are a whole statement value)."""
    changed = False
    taken = {n.id for n in ast.walk(view.node) if isinstance(n, ast.Name)}
    counter = [0]

    def fresh(stem: str = "") -> str:
        # named after the helper whose result it holds, so that reports can be read against the source
        if stem and f"result_of_{stem}" not in taken:
            taken.add(f"result_of_{stem}")
            return f"result_of_{stem}"
        while True:
            counter[0] += 1
            name = f"result{counter[0]}_of_{stem}" if stem else f"hoisted{counter[0]}"
            if name not in taken:
                taken.add(name)
                return name

    def candidate(st: ast.stmt):
        for fld, root in _header_exprs(st):
            todo = [(root, None, None)]
            while todo:
                n, par, where_ = todo.pop(0)
                if isinstance(n, (ast.Lambda, *_COMPS, ast.DictComp, ast.IfExp, ast.BoolOp)):
                    continue
                if isinstance(n, ast.Call) and n is not root or (isinstance(n, ast.Call) and fld == "iter"):
                    f = _helper_of(repo, view, n)
                    if f is not None and not _is_generator(f):
                        return fld, n, par, where_
                for name, val in ast.iter_fields(n):
                    if isinstance(val, ast.AST):
                        todo.append((val, n, (name, None)))
                    elif isinstance(val, list):
                        for i, x in enumerate(val):
                            if isinstance(x, ast.AST):
                                todo.append((x, n, (name, i)))
        return None

    def block(stmts: list[ast.stmt]) -> list[ast.stmt]:
        nonlocal changed
        out: list[ast.stmt] = []
        for st in stmts:
            for fld in ("body", "orelse", "finalbody"):
                blk = getattr(st, fld, None)
                if isinstance(blk, list) and blk and isinstance(blk[0], ast.stmt):
                    setattr(st, fld, block(blk))
            if isinstance(st, ast.Try):
                for h in st.handlers:
                    h.body = block(h.body)
            for _ in range(8):
                got = candidate(st)
                if got is None:
                    break
                fld, call, par, where_ = got
                tmp = fresh(call.func.id.strip("_") if isinstance(call.func, ast.Name) else "")
                assign = ast.copy_location(ast.Assign(targets=[ast.Name(id=tmp, ctx=ast.Store())], value=call), st)
                ref = ast.copy_location(ast.Name(id=tmp, ctx=ast.Load()), call)
                if par is None:
                    setattr(st, fld, ref)
                elif where_[1] is None:
                    setattr(par, where_[0], ref)
                else:
                    getattr(par, where_[0])[where_[1]] = ref
                out.append(assign)
                changed = True
            out.append(st)
        return out

    view.node.body = block(view.node.body)
    return changed


def _local_objects(repo: Repo, view: FuncInfo) -> dict:
    """x -> ClassInfo for locals bound exactly once, by `x = C(..)` with C a helper class (a walk object, a record with methods)."""
    fn = view.node
    stores: dict[str, int] = {}
    for n in ast.walk(fn):
        if isinstance(n, ast.Name) and isinstance(n.ctx, (ast.Store, ast.Del)):
            stores[n.id] = stores.get(n.id, 0) + 1
    out: dict = {}
    for n in ast.walk(fn):
        tgt = val = None
        if isinstance(n, ast.Assign) and len(n.targets) == 1 and isinstance(n.targets[0], ast.Name):
            tgt, val = n.targets[0].id, n.value
        elif isinstance(n, ast.AnnAssign) and isinstance(n.target, ast.Name) and n.value is not None:
            tgt, val = n.target.id, n.value
        if tgt is None or stores.get(tgt) != 1 or tgt in view.param_names or not isinstance(val, ast.Call):
            continue
        ci = _class_of_call(repo, view, val)
        if ci is not None and _helper_class(ci):
            out[tgt] = ci
    known = view.__dict__.get("objects") or {}
    for k, v_ in known.items():
        out.setdefault(k, v_)
    return out


def _method_of(repo: Repo, ci, name: str) -> FuncInfo | None:
    """The method a call on an instance of `ci` runs (own or inherited from another helper class)."""
    try:
        m = repo.lookup_method(ci, name)
    except Exception:  # noqa: BLE001
        m = ci.methods.get(name)
    if m is not None and m.cls is not None and not _helper_class(m.cls):
        return None
    return m


def _class_of_call(repo: Repo, view: FuncInfo, call: ast.Call):
    if not isinstance(call.func, (ast.Name, ast.Attribute)):
        return None
    src = getattr(call, "_src", None)
    mod = src[0].module if src is not None else view.module
    fq = repo.resolve_name(mod, call.func)
    ci = repo.classes.get(fq) if fq else None
    if ci is None and isinstance(call.func, ast.Name):
        ci = mod.classes.get(call.func.id) or _unique_class(repo, call.func.id)
    return ci


def _iterator_stack_to_worklist(node: ast.AST) -> bool:
    """A stack of iterators used as worklist,

        W = [iter([root])]                         W = [root]
        while W:                                   while W:
            for n in W[-1]:                            n = W.pop()
                if c(n): break              ->         if not c(n): continue
            else:                                      BODY .. W.extend(children)
                W.pop(); continue
            BODY .. W.append(reversed(children))

    hands out the same nodes with the same test `c`, in another order - which the model of a search does not talk about."""
    changed = False
    for loop in [n for n in ast.walk(node) if isinstance(n, ast.While)]:
        if not (isinstance(loop.test, ast.Name) and loop.body and isinstance(loop.body[0], ast.For)):
            continue
        w = loop.test.id
        f0 = loop.body[0]
        it = f0.iter
        if not (isinstance(f0.target, ast.Name) and isinstance(it, ast.Subscript) and isinstance(it.value, ast.Name) and it.value.id == w and isinstance(it.slice, ast.UnaryOp) and isinstance(it.slice.op, ast.USub) and isinstance(it.slice.operand, ast.Constant) and it.slice.operand.value == 1):
            continue
        if not (len(f0.body) == 1 and isinstance(f0.body[0], ast.If) and not f0.body[0].orelse and len(f0.body[0].body) == 1 and isinstance(f0.body[0].body[0], ast.Break)):
            continue
        oe = f0.orelse
        if not (len(oe) == 2 and isinstance(oe[0], ast.Expr) and isinstance(oe[0].value, ast.Call) and isinstance(oe[0].value.func, ast.Attribute) and oe[0].value.func.attr == "pop" and isinstance(oe[0].value.func.value, ast.Name) and oe[0].value.func.value.id == w and not oe[0].value.args and isinstance(oe[1], ast.Continue)):
            continue
        # the initial stack: [iter(X)] / [X]
        inits = [n for n in ast.walk(node) if isinstance(n, ast.Assign) and len(n.targets) == 1 and isinstance(n.targets[0], ast.Name) and n.targets[0].id == w]
        if len(inits) != 1 or not (isinstance(inits[0].value, ast.List) and len(inits[0].value.elts) == 1):
            continue
        first = inits[0].value.elts[0]
        if isinstance(first, ast.Call) and isinstance(first.func, ast.Name) and first.func.id in ("iter", "reversed") and len(first.args) == 1:
            first = first.args[0]
        pushes = [c for c in ast.walk(loop) if isinstance(c, ast.Call) and isinstance(c.func, ast.Attribute) and isinstance(c.func.value, ast.Name) and c.func.value.id == w and c.func.attr == "append" and len(c.args) == 1]
        others = [c for c in ast.walk(node) if isinstance(c, ast.Call) and isinstance(c.func, ast.Attribute) and isinstance(c.func.value, ast.Name) and c.func.value.id == w and c.func.attr not in ("append", "pop")]
        if others:
            continue
        inits[0].value = first if isinstance(first, (ast.List, ast.Tuple)) else ast.copy_location(ast.Call(func=ast.Name(id="list", ctx=ast.Load()), args=[first], keywords=[]), first)
        for c in pushes:
            c.func.attr = "extend"
        pop = ast.copy_location(ast.Assign(targets=[ast.Name(id=f0.target.id, ctx=ast.Store())], value=ast.Call(func=ast.Attribute(value=ast.Name(id=w, ctx=ast.Load()), attr="pop", ctx=ast.Load()), args=[], keywords=[])), f0)
        skip = ast.copy_location(ast.If(test=ast.copy_location(ast.UnaryOp(op=ast.Not(), operand=f0.body[0].test), f0), body=[ast.copy_location(ast.Continue(), f0)], orelse=[]), f0)
        loop.body[0:1] = [pop, skip]
        changed = True
    if changed:
        ast.fix_missing_locations(node)
    return changed


def _desugared_generator(f: FuncInfo) -> FuncInfo:
    g = _desugared_generator0(f)
    if isinstance(g.node, ast.Lambda):
        return g
    cached = g.__dict__.get("_unstacked")
    if cached is not None:
        return cached
    node = _clone_src(g.node, g)
    if not _iterator_stack_to_worklist(node):
        g.__dict__["_unstacked"] = g
        return g
    set_parents(node)
    h = FuncInfo(name=g.name, qualname=g.qualname, node=node, module=g.module, cls=g.cls, decorators=list(g.decorators), outer=g.outer)
    g.__dict__["_unstacked"] = h
    h.__dict__["_unstacked"] = h
    return h


def _desugared_generator0(f: FuncInfo) -> FuncInfo:
    """The generator with every `yield from X` statement written as the loop it stands for: `for v in XS: if c: yield e` for a
    generator expression / comprehension X, `for t in X: yield t` otherwise (X may be another generator helper, substituted in turn)."""
    if isinstance(f.node, ast.Lambda) or not any(isinstance(n, ast.YieldFrom) for n in own_nodes(f.node)):
        return f
    cached = f.__dict__.get("_desugared")
    if cached is not None:
        return cached
    node = _clone_src(f.node, f)
    taken = {n.id for n in ast.walk(node) if isinstance(n, ast.Name)}

    def block(stmts: list[ast.stmt]) -> list[ast.stmt]:
        out: list[ast.stmt] = []
        for st in stmts:
            if isinstance(st, (ast.FunctionDef, ast.AsyncFunctionDef, ast.ClassDef)):
                out.append(st)
                continue
            for fld in ("body", "orelse", "finalbody"):
                blk = getattr(st, fld, None)
                if isinstance(blk, list) and blk and isinstance(blk[0], ast.stmt):
                    setattr(st, fld, block(blk))
            if isinstance(st, ast.Expr) and isinstance(st.value, ast.YieldFrom):
                x = st.value.value
                src = x.args[0] if isinstance(x, ast.Call) and isinstance(x.func, ast.Name) and x.func.id in ("iter", "list", "tuple") and len(x.args) == 1 else x
                if isinstance(src, (ast.GeneratorExp, ast.ListComp, ast.SetComp)) and not any(g.is_async for g in src.generators):
                    body: list[ast.stmt] = [ast.copy_location(ast.Expr(value=ast.copy_location(ast.Yield(value=src.elt), st)), st)]
                    for g in reversed(src.generators):
                        for c in reversed(g.ifs):
                            body = [ast.copy_location(ast.If(test=c, body=body, orelse=[]), st)]
                        tgt = g.target
                        for n in ast.walk(tgt):
                            if isinstance(n, (ast.Name, ast.Tuple, ast.List)):
                                n.ctx = ast.Store()
                        body = [ast.copy_location(ast.For(target=tgt, iter=g.iter, body=body, orelse=[]), st)]
                    out += body
                else:
                    tmp = "yielded"
                    while tmp in taken:
                        tmp += "_"
                    taken.add(tmp)
                    loop = ast.For(target=ast.Name(id=tmp, ctx=ast.Store()), iter=x, body=[ast.copy_location(ast.Expr(value=ast.copy_location(ast.Yield(value=ast.Name(id=tmp, ctx=ast.Load())), st)), st)], orelse=[])
                    out.append(ast.copy_location(loop, st))
                continue
            out.append(st)
        return out

    node.body = block(node.body)
    if any(isinstance(n, ast.YieldFrom) for n in own_nodes(node)):
        f.__dict__["_desugared"] = f  # `x = yield from ..`: the value is used; left as it is
        return f
    ast.fix_missing_locations(node)
    set_parents(node)
    g = FuncInfo(name=f.name, qualname=f.qualname, node=node, module=f.module, cls=f.cls, decorators=list(f.decorators), outer=f.outer)
    f.__dict__["_desugared"] = g
    return g


def _next_as_generator(ci) -> FuncInfo | None:
    """The iterator protocol written by hand - `__iter__` returns self, `__next__` is `while <state>: .. return e` followed by
    `raise StopIteration` - as the generator it is equivalent to when `__next__` keeps no local state between calls: every
    `return e` ends an iteration of the while loop, so the next call re-enters the loop exactly where `yield e` would resume it."""
    cached = ci.__dict__.get("_next_generator", 0)
    if cached != 0:
        return cached
    ci.__dict__["_next_generator"] = None
    it_, nx = ci.methods.get("__iter__"), ci.methods.get("__next__")
    if it_ is None or nx is None or isinstance(nx.node, ast.Lambda):
        return None
    body_it = [s_ for s_ in it_.node.body if not (isinstance(s_, ast.Expr) and isinstance(s_.value, ast.Constant))]
    self_it = it_.param_names[0] if it_.param_names else None
    if not (len(body_it) == 1 and isinstance(body_it[0], ast.Return) and isinstance(body_it[0].value, ast.Name) and body_it[0].value.id == self_it):
        return None
    body = [s_ for s_ in nx.node.body if not (isinstance(s_, ast.Expr) and isinstance(s_.value, ast.Constant))]
    if not (len(body) == 2 and isinstance(body[0], ast.While) and not body[0].orelse and isinstance(body[1], ast.Raise) and body[1].exc is not None and norm(body[1].exc).split("(")[0] == "StopIteration"):
        return None
    if len(nx.param_names) != 1 or nx.node.args.vararg or nx.node.args.kwarg:
        return None
    loop = body[0]
    # returns with a value, each the last statement executed in an iteration of the loop (not inside an inner loop); nothing else leaves
    ok = True

    def check(stmts: list[ast.stmt], tail: bool, inner: bool) -> None:
        nonlocal ok
        for i, st in enumerate(stmts):
            last = tail and i == len(stmts) - 1
            if isinstance(st, ast.Return):
                if st.value is None or inner or not last:
                    ok = False
            elif isinstance(st, ast.If):
                check(st.body, last, inner)
                check(st.orelse, last, inner)
            elif isinstance(st, (ast.For, ast.While)):
                check(st.body, False, True)
                if st.orelse:
                    ok = False
            elif isinstance(st, (ast.Break, ast.Raise)) and not inner:
                ok = False
            elif isinstance(st, (ast.Try, ast.With, ast.FunctionDef, ast.AsyncFunctionDef, ast.ClassDef, ast.Global, ast.Nonlocal)):
                ok = False
            elif any(isinstance(n, (ast.Yield, ast.YieldFrom)) for n in ast.walk(st)):
                ok = False

    check(loop.body, True, False)
    if not ok or not any(isinstance(n, ast.Return) for n in ast.walk(loop)):
        return None
    node = _clone(nx.node)

    class R(ast.NodeTransformer):
        def visit_Return(self, n: ast.Return):  # noqa: N802
            return ast.copy_location(ast.Expr(value=ast.copy_location(ast.Yield(value=n.value), n)), n)

        def visit_FunctionDef(self, n):  # noqa: N802
            if n is node:
                self.generic_visit(n)
            return n

        def visit_Lambda(self, n):  # noqa: N802
            return n

    node = R().visit(node)
    node.body = [s_ for s_ in node.body if not isinstance(s_, ast.Raise)]
    ast.fix_missing_locations(node)
    set_parents(node)
    gen = FuncInfo(name=nx.name, qualname=nx.qualname, node=node, module=nx.module, cls=nx.cls, decorators=list(nx.decorators), outer=nx.outer)
    ci.__dict__["_next_generator"] = gen
    return gen


def _generator_target(repo: Repo, view: FuncInfo, it: ast.AST, objects: dict):
    """(generator FuncInfo, call whose arguments bind its parameters) for an iterated expression: `gen(..)` of a module-level generator
    helper, a local walk object `x` whose class has a generator `__iter__`, `iter(x)`, or a generator method `x.edges(..)`."""
    if isinstance(it, ast.Call) and isinstance(it.func, ast.Name) and it.func.id == "iter" and len(it.args) == 1 and not it.keywords:
        it = it.args[0]
    if isinstance(it, ast.Name) and it.id in objects:
        f = _method_of(repo, objects[it.id], "__iter__")
        if f is not None and not _is_generator(f):
            f = _next_as_generator(objects[it.id])
        if f is not None and _is_generator(f) and not (f.node.args.vararg or f.node.args.kwarg):
            return _desugared_generator(f), ast.copy_location(ast.Call(func=ast.Attribute(value=it, attr="__iter__", ctx=ast.Load()), args=[ast.copy_location(ast.Name(id=it.id, ctx=ast.Load()), it)], keywords=[]), it)
        return None
    if isinstance(it, ast.Call) and isinstance(it.func, ast.Attribute) and isinstance(it.func.value, ast.Name) and it.func.value.id in objects:
        f = _method_of(repo, objects[it.func.value.id], it.func.attr)
        if f is not None and _is_generator(f) and not f.is_staticmethod and not f.is_classmethod and not (f.node.args.vararg or f.node.args.kwarg):
            recv = ast.copy_location(ast.Name(id=it.func.value.id, ctx=ast.Load()), it)
            return _desugared_generator(f), ast.copy_location(ast.Call(func=it.func, args=[recv, *it.args], keywords=list(it.keywords)), it)
        return None
    if isinstance(it, ast.Call):
        f = _helper_of(repo, view, it)
        if f is not None and _is_generator(f):
            return _desugared_generator(f), it
    return None


def _inline_object_methods(repo: Repo, view: FuncInfo) -> bool:
    """Calls of plain methods on a local helper object: `x.m(a)` as a statement -> the method's body with `self` = x;
    `x.m(a)` inside an expression, where the method is a single `return <expr>` -> that expression; `x = C(a, b)` -> the body of
    `C.__init__` with `self` = x (the attributes stay `x.attr`; _scalarise_objects turns them into locals at the end)."""
    objects = _local_objects(repo, view)
    view.__dict__["objects"] = objects
    if not objects:
        return False
    changed = False
    taken = {n.id for n in ast.walk(view.node) if isinstance(n, ast.Name)}

    def plain(f: FuncInfo | None) -> bool:
        if f is None or isinstance(f.node, ast.Lambda) or _is_generator(f) or f.is_staticmethod or f.is_classmethod or f.is_property:
            return False
        a = f.node.args
        if a.vararg or a.kwarg or not (a.posonlyargs or a.args):
            return False
        return not any(isinstance(n, (ast.FunctionDef, ast.AsyncFunctionDef, ast.ClassDef, ast.Global, ast.Nonlocal, ast.Try, ast.With, ast.Await)) for n in own_nodes(f.node))

    def bind(f: FuncInfo, recv: str, call: ast.Call) -> dict[str, ast.expr] | None:
        a = f.node.args
        pos = [p_.arg for p_ in [*a.posonlyargs, *a.args]]
        if any(isinstance(x, ast.Starred) for x in call.args) or any(k.arg is None for k in call.keywords) or len(call.args) > len(pos) - 1:
            return None
        b: dict[str, ast.expr] = {pos[0]: ast.Name(id=recv, ctx=ast.Load())}
        for p_, x in zip(pos[1:], call.args):
            b[p_] = x
        for k in call.keywords:
            b[k.arg] = k.value
        for p_, d in zip(pos[len(pos) - len(a.defaults):], a.defaults):
            b.setdefault(p_, _clone_src(d, f))
        for p_, d in zip(a.kwonlyargs, a.kw_defaults):
            if d is not None:
                b.setdefault(p_.arg, _clone_src(d, f))
        names = f.param_names
        if set(b) != set(names):
            return None
        return b

    def expand_stmt(f: FuncInfo, recv: str, call: ast.Call, at: ast.stmt) -> list[ast.stmt] | None:
        """body of a method called for its effect (returns nothing, or the value is dropped by the caller)"""
        b = bind(f, recv, call)
        if b is None:
            return None
        body_src = [s_ for s_ in f.node.body if not (isinstance(s_, ast.Expr) and isinstance(s_.value, ast.Constant))]
        # `return` only as the last statement, and without a value worth keeping
        rets = [n for n in own_nodes(f.node) if isinstance(n, ast.Return)]
        if any(r is not f.node.body[-1] for r in rets) or any(r.value is not None and not isinstance(r.value, ast.Constant) for r in rets):
            return None
        body = [_clone_src(s_, f) for s_ in body_src if not isinstance(s_, ast.Return)]
        stored = {n.id for s_ in body for n in ast.walk(s_) if isinstance(n, ast.Name) and isinstance(n.ctx, ast.Store)}
        prefix: list[ast.stmt] = []
        ren: dict[str, str] = {}
        for p_ in f.param_names:
            val = b[p_]
            if isinstance(val, ast.Name) and p_ not in stored:
                ren[p_] = val.id
            else:
                new = p_ if p_ not in taken else f"{p_}__{f.name.strip('_')}"
                while new in taken and new != p_:
                    new += "_"
                taken.add(new)
                ren[p_] = new
                prefix.append(ast.copy_location(ast.Assign(targets=[ast.Name(id=new, ctx=ast.Store())], value=val), at))
        for l_ in sorted(stored - set(f.param_names)):
            if l_ in taken:
                new = f"{l_}__{f.name.strip('_')}"
                while new in taken:
                    new += "_"
                taken.add(new)
                ren[l_] = new
            else:
                taken.add(l_)
        for s_ in body:
            for n in ast.walk(s_):
                if isinstance(n, ast.Name) and n.id in ren:
                    n.id = ren[n.id]
        return prefix + body

    class ExprMethods(ast.NodeTransformer):
        """`x.m(a)` where m is `return <expr>`: the expression, arguments substituted (only simple arguments, evaluated once)."""

        def visit_Lambda(self, n):  # noqa: N802
            return n

        def visit_Call(self, n: ast.Call):  # noqa: N802
            nonlocal changed
            self.generic_visit(n)
            if not (isinstance(n.func, ast.Attribute) and isinstance(n.func.value, ast.Name) and n.func.value.id in objects):
                return n
            f = _method_of(repo, objects[n.func.value.id], n.func.attr)
            if not plain(f):
                return n
            body = [s_ for s_ in f.node.body if not (isinstance(s_, ast.Expr) and isinstance(s_.value, ast.Constant))]
            if len(body) != 1 or not isinstance(body[0], ast.Return) or body[0].value is None:
                return n
            b = bind(f, n.func.value.id, n)
            if b is None or not all(isinstance(x, (ast.Name, ast.Constant)) or (isinstance(x, ast.Attribute) and isinstance(x.value, ast.Name)) for x in b.values()):
                return n
            expr = _clone_src(body[0].value, f)

            class Sub(ast.NodeTransformer):
                def visit_Name(self, m_: ast.Name):  # noqa: N802
                    if m_.id in b and isinstance(m_.ctx, ast.Load):
                        return _clone(b[m_.id])
                    return m_

            changed = True
            view.__dict__.setdefault("gen_inlined", []).append(f.fq)
            return Sub().visit(expr)

    def block(stmts: list[ast.stmt]) -> list[ast.stmt]:
        nonlocal changed
        out: list[ast.stmt] = []
        for st in stmts:
            for fld in ("body", "orelse", "finalbody"):
                blk = getattr(st, fld, None)
                if isinstance(blk, list) and blk and isinstance(blk[0], ast.stmt):
                    setattr(st, fld, block(blk))
            if isinstance(st, ast.Try):
                for h in st.handlers:
                    h.body = block(h.body)
            # x.m(a) as a statement
            if isinstance(st, ast.Expr) and isinstance(st.value, ast.Call) and isinstance(st.value.func, ast.Attribute) and isinstance(st.value.func.value, ast.Name) and st.value.func.value.id in objects:
                f = _method_of(repo, objects[st.value.func.value.id], st.value.func.attr)
                if plain(f):
                    got = expand_stmt(f, st.value.func.value.id, st.value, st)
                    if got is not None:
                        out += got or [ast.copy_location(ast.Pass(), st)]
                        changed = True
                        view.__dict__.setdefault("gen_inlined", []).append(f.fq)
                        continue
            # x = C(a, b)
            tgt = st.targets[0] if isinstance(st, ast.Assign) and len(st.targets) == 1 else getattr(st, "target", None) if isinstance(st, ast.AnnAssign) else None
            if isinstance(tgt, ast.Name) and tgt.id in objects and isinstance(getattr(st, "value", None), ast.Call) and _class_of_call(repo, view, st.value) is objects[tgt.id]:
                ci = objects[tgt.id]
                init = _method_of(repo, ci, "__init__")
                got = None
                if init is not None and plain(init):
                    got = expand_stmt(init, tgt.id, st.value, st)
                elif init is None:
                    got = _record_constructor(repo, view, ci, tgt.id, st.value, st)
                if got is not None:
                    out += got or [ast.copy_location(ast.Pass(), st)]
                    changed = True
                    if init is not None:
                        view.__dict__.setdefault("gen_inlined", []).append(init.fq)
                    continue
            out.append(st)
        return out

    class Properties(ast.NodeTransformer):
        """`x.prop` where prop is a property written as one `return <expr>`: the expression with `self` = x."""

        def visit_Lambda(self, n):  # noqa: N802
            return n

        def visit_Attribute(self, n: ast.Attribute):  # noqa: N802
            nonlocal changed
            self.generic_visit(n)
            if not (isinstance(n.value, ast.Name) and n.value.id in objects and isinstance(n.ctx, ast.Load)):
                return n
            f = _method_of(repo, objects[n.value.id], n.attr)
            if f is None or not f.is_property or isinstance(f.node, ast.Lambda):
                return n
            body = [s_ for s_ in f.node.body if not (isinstance(s_, ast.Expr) and isinstance(s_.value, ast.Constant))]
            if len(body) != 1 or not isinstance(body[0], ast.Return) or body[0].value is None or len(f.param_names) != 1:
                return n
            expr = _clone_src(body[0].value, f)
            me = f.param_names[0]
            for m_ in ast.walk(expr):
                if isinstance(m_, ast.Name) and m_.id == me:
                    m_.id = n.value.id
            changed = True
            view.__dict__.setdefault("gen_inlined", []).append(f.fq)
            return ast.copy_location(expr, n)

    view.node.body = block(view.node.body)
    tr = ExprMethods()
    view.node.body = [tr.visit(s_) for s_ in view.node.body]
    pr = Properties()
    view.node.body = [pr.visit(s_) for s_ in view.node.body]
    return changed


def _expand_starred_literals(fn: ast.AST) -> bool:
    """`f(*edge)` where `edge = [a, b]` is bound once to a literal of plain names: `f(a, b)`."""
    single = _single_assignments(fn)
    changed = False
    for c in ast.walk(fn):
        if not isinstance(c, ast.Call) or not any(isinstance(a, ast.Starred) for a in c.args):
            continue
        new_args: list[ast.expr] = []
        ok = True
        for a in c.args:
            if isinstance(a, ast.Starred):
                v = single.get(a.value.id) if isinstance(a.value, ast.Name) else None
                if isinstance(v, (ast.List, ast.Tuple)) and v.elts and all(isinstance(x, ast.Name) for x in v.elts):
                    new_args += [ast.copy_location(ast.Name(id=x.id, ctx=ast.Load()), a) for x in v.elts]
                else:
                    ok = False
                    break
            else:
                new_args.append(a)
        if ok:
            c.args = new_args
            changed = True
    return changed


def _is_enum_member(repo: Repo, e: ast.AST) -> str | None:
    """`Cls.MEMBER` text for a member of an Enum class of the library."""
    if isinstance(e, ast.Attribute) and isinstance(e.value, ast.Name):
        ci = _unique_class(repo, e.value.id)
        if ci is not None and any(norm(b).split(".")[-1] in ("Enum", "IntEnum", "StrEnum", "Flag") for b in ci.base_exprs) and e.attr in ci.class_attrs:
            return f"{ci.name}.{e.attr}"
    return None


class _FoldVerdicts(ast.NodeTransformer):
    """`Edge.FOLLOW is Edge.FOLLOW` -> True, `Edge.FOLLOW is Edge.REPORT` -> False (members of one Enum are distinct objects)."""

    def __init__(self, repo: Repo) -> None:
        self.repo = repo

    def visit_Compare(self, n: ast.Compare):  # noqa: N802
        self.generic_visit(n)
        if len(n.ops) == 1 and isinstance(n.ops[0], (ast.Is, ast.IsNot, ast.Eq, ast.NotEq)):
            a, b = _is_enum_member(self.repo, n.left), _is_enum_member(self.repo, n.comparators[0])
            if a is not None and b is not None and a.split(".")[0] == b.split(".")[0]:
                same = a == b
                return ast.copy_location(ast.Constant(value=same if isinstance(n.ops[0], (ast.Is, ast.Eq)) else not same), n)
        return n


def _inline_local_callables(view: FuncInfo, repo: Repo | None = None) -> bool:
    """Callables that live inside the function itself - the callback protocol (`_walk(graph, start, on_import=record)` once `_walk`
    is substituted leaves `record(node, child)` behind):

      * a nested `def g(a, b): ..` bound once: `g(x, y)` as a statement -> its body; `v = g(x, y)` with one trailing `return e` -> body, `v = e`
      * `g = lambda a, b: e` bound once: `g(x, y)` -> e
      * `g = obj.method` (a bound method of a local, e.g. `submodules.add`) bound once: `g(x)` -> `obj.method(x)`

    A definition none of whose uses is left is dropped."""
    fn = view.node
    set_parents(fn)
    changed = False
    taken = {n.id for n in ast.walk(fn) if isinstance(n, ast.Name)}
    stores: dict[str, int] = {}
    for n in ast.walk(fn):
        if isinstance(n, ast.Name) and isinstance(n.ctx, (ast.Store, ast.Del)):
            stores[n.id] = stores.get(n.id, 0) + 1
        elif isinstance(n, (ast.FunctionDef, ast.AsyncFunctionDef, ast.ClassDef)) and n is not fn:
            stores[n.name] = stores.get(n.name, 0) + 1
    params = set(view.param_names)
    defs: dict[str, ast.AST] = {}
    for n in ast.walk(fn):
        if isinstance(n, ast.FunctionDef) and n is not fn and stores.get(n.name) == 1 and n.name not in params and not n.decorator_list:
            a = n.args
            if a.vararg or a.kwarg or a.kwonlyargs or any(isinstance(x, (ast.Yield, ast.YieldFrom, ast.Await, ast.Global, ast.FunctionDef, ast.AsyncFunctionDef, ast.ClassDef)) for s_ in n.body for x in ast.walk(s_)):
                continue
            if any(isinstance(c, ast.Call) and isinstance(c.func, ast.Name) and c.func.id == n.name for c in ast.walk(n)):
                continue  # recursive
            defs[n.name] = n
        elif isinstance(n, (ast.Assign, ast.AnnAssign)) and n.value is not None:
            tgt = n.targets[0] if isinstance(n, ast.Assign) and len(n.targets) == 1 else getattr(n, "target", None)
            if not (isinstance(tgt, ast.Name) and stores.get(tgt.id) == 1 and tgt.id not in params):
                continue
            if isinstance(n.value, ast.Lambda) and not (n.value.args.vararg or n.value.args.kwarg or n.value.args.kwonlyargs):
                defs[tgt.id] = n.value
            elif isinstance(n.value, ast.Attribute) and isinstance(n.value.value, ast.Name) and n.value.attr in (_GROW | _SHRINK | {"__contains__", SUCC, PRED, HIER}) and stores.get(n.value.value.id, 0) <= 1:
                defs[tgt.id] = n.value  # a bound method of a local collection / an accessor of the graph (`neighbours_of = graph.direct_successor_nodes`)
    # local generator functions (`def visit(node): .. yield child`): consumed by `X.extend(visit(n))` or `for v in visit(n):`
    gens: dict[str, ast.FunctionDef] = {}
    for n in ast.walk(fn):
        if isinstance(n, ast.FunctionDef) and n is not fn and stores.get(n.name) == 1 and n.name not in params and not n.decorator_list:
            a = n.args
            inner = [x for s_ in n.body for x in ast.walk(s_)]
            if a.vararg or a.kwarg or a.kwonlyargs or a.defaults or not any(isinstance(x, ast.Yield) for x in inner):
                continue
            if any(isinstance(x, (ast.YieldFrom, ast.Await, ast.Global, ast.FunctionDef, ast.AsyncFunctionDef, ast.ClassDef, ast.Return, ast.Try, ast.With)) for x in inner):
                continue
            if any(isinstance(x, ast.Yield) and (x.value is None or not isinstance(parent(x), ast.Expr)) for x in inner):
                continue
            if any(isinstance(c, ast.Call) and isinstance(c.func, ast.Name) and c.func.id == n.name for c in inner):
                continue
            gens[n.name] = n
    if gens:
        def expand_gen(g: ast.FunctionDef, call: ast.Call, target: ast.expr, body: list[ast.stmt], at: ast.stmt) -> list[ast.stmt] | None:
            pos_ = [p_.arg for p_ in [*g.args.posonlyargs, *g.args.args]]
            if any(isinstance(x, ast.Starred) for x in call.args) or call.keywords or len(call.args) != len(pos_):
                return None
            if any(isinstance(x, (ast.Break, ast.Continue)) for b in body for x in ast.walk(b)):
                return None
            src_body = [_clone(s_) for s_ in g.body if not (isinstance(s_, ast.Expr) and isinstance(s_.value, ast.Constant)) and not isinstance(s_, ast.Nonlocal)]
            stored = {n_.id for s_ in src_body for n_ in ast.walk(s_) if isinstance(n_, ast.Name) and isinstance(n_.ctx, ast.Store)} - {nm for s_ in g.body if isinstance(s_, ast.Nonlocal) for nm in s_.names}
            prefix: list[ast.stmt] = []
            ren: dict[str, str] = {}
            for p_, val in zip(pos_, call.args):
                if isinstance(val, ast.Name) and p_ not in stored:
                    ren[p_] = val.id
                else:
                    new_ = p_ if p_ not in taken else f"{p_}__{g.name.strip('_')}"
                    while new_ in taken and new_ != p_:
                        new_ += "_"
                    taken.add(new_)
                    ren[p_] = new_
                    prefix.append(ast.copy_location(ast.Assign(targets=[ast.Name(id=new_, ctx=ast.Store())], value=val), at))
            for l_ in sorted(stored - set(pos_)):
                if l_ in taken:
                    new_ = f"{l_}__{g.name.strip('_')}"
                    while new_ in taken:
                        new_ += "_"
                    taken.add(new_)
                    ren[l_] = new_
                else:
                    taken.add(l_)

            def subst_(stmts: list[ast.stmt]) -> list[ast.stmt]:
                out_: list[ast.stmt] = []
                for x in stmts:
                    if isinstance(x, ast.Expr) and isinstance(x.value, ast.Yield):
                        out_.append(ast.copy_location(ast.Assign(targets=[_clone(target)], value=x.value.value), x))
                        out_ += _clone(body)
                        continue
                    for fld in ("body", "orelse"):
                        blk = getattr(x, fld, None)
                        if isinstance(blk, list) and blk and isinstance(blk[0], ast.stmt):
                            setattr(x, fld, subst_(blk) or [ast.copy_location(ast.Pass(), x)])
                    out_.append(x)
                return out_

            new_body = subst_(src_body)
            lam_safe = set(ren)
            for s_ in new_body:
                for n_ in ast.walk(s_):
                    if isinstance(n_, ast.Name) and n_.id in lam_safe and not any(isinstance(a_, ast.Lambda) and any(q.arg == n_.id for q in a_.args.args) for a_ in []):
                        n_.id = ren[n_.id]
            return prefix + new_body

        def gen_block(stmts: list[ast.stmt]) -> list[ast.stmt]:
            nonlocal changed
            out_: list[ast.stmt] = []
            for st in stmts:
                if isinstance(st, (ast.FunctionDef, ast.AsyncFunctionDef, ast.ClassDef)):
                    out_.append(st)
                    continue
                for fld in ("body", "orelse", "finalbody"):
                    blk = getattr(st, fld, None)
                    if isinstance(blk, list) and blk and isinstance(blk[0], ast.stmt):
                        setattr(st, fld, gen_block(blk) or [ast.copy_location(ast.Pass(), st)])
                got_ = None
                if isinstance(st, ast.Expr) and isinstance(st.value, ast.Call) and isinstance(st.value.func, ast.Attribute) and st.value.func.attr in ("extend", "update") and isinstance(st.value.func.value, ast.Name) and len(st.value.args) == 1 and isinstance(st.value.args[0], ast.Call) and isinstance(st.value.args[0].func, ast.Name) and st.value.args[0].func.id in gens:
                    tmp = "yielded"
                    while tmp in taken:
                        tmp += "_"
                    taken.add(tmp)
                    add_ = ast.copy_location(ast.Expr(value=ast.Call(func=ast.Attribute(value=_clone(st.value.func.value), attr="append" if st.value.func.attr == "extend" else "add", ctx=ast.Load()), args=[ast.Name(id=tmp, ctx=ast.Load())], keywords=[])), st)
                    got_ = expand_gen(gens[st.value.args[0].func.id], st.value.args[0], ast.Name(id=tmp, ctx=ast.Store()), [add_], st)
                elif isinstance(st, ast.For) and not st.orelse and isinstance(st.iter, ast.Call) and isinstance(st.iter.func, ast.Name) and st.iter.func.id in gens:
                    got_ = expand_gen(gens[st.iter.func.id], st.iter, st.target, st.body, st)
                if got_ is not None:
                    out_ += got_
                    changed = True
                    continue
                out_.append(st)
            return out_

        fn.body = gen_block(fn.body)
        ast.fix_missing_locations(fn)
        set_parents(fn)
        for name, g in gens.items():
            if not any(isinstance(n, ast.Name) and n.id == name and isinstance(n.ctx, ast.Load) for n in ast.walk(fn)):
                for blk in _blocks(fn):
                    if any(x is g for x in blk):
                        blk.remove(g)
                        if not blk:
                            blk.append(ast.copy_location(ast.Pass(), g))
                        changed = True
                        break
    if not defs:
        return changed

    def bind(a: ast.arguments, call: ast.Call) -> dict[str, ast.expr] | None:
        pos = [p_.arg for p_ in [*a.posonlyargs, *a.args]]
        if any(isinstance(x, ast.Starred) for x in call.args) or any(k.arg is None for k in call.keywords) or len(call.args) > len(pos):
            return None
        b: dict[str, ast.expr] = dict(zip(pos, call.args))
        for k in call.keywords:
            if k.arg not in pos:
                return None
            b[k.arg] = k.value
        for p_, d in zip(pos[len(pos) - len(a.defaults):], a.defaults):
            if isinstance(d, ast.Constant):
                b.setdefault(p_, d)
        return b if set(b) == set(pos) else None

    def body_of(g: ast.FunctionDef, call: ast.Call, at: ast.stmt, want_value: bool):
        b = bind(g.args, call)
        if b is None:
            return None
        src = [s_ for s_ in g.body if not (isinstance(s_, ast.Expr) and isinstance(s_.value, ast.Constant)) and not isinstance(s_, (ast.Nonlocal, ast.Pass))]
        rets = [x for s_ in src for x in ast.walk(s_) if isinstance(x, ast.Return)]
        tail = src[-1] if src and isinstance(src[-1], ast.Return) else None
        if any(r is not tail for r in rets):
            return None
        if want_value and (tail is None or tail.value is None):
            return None
        if not want_value and tail is not None and tail.value is not None and not isinstance(tail.value, (ast.Constant, ast.Name)):
            return None
        body = [_clone(s_) for s_ in src if s_ is not tail]
        value = _clone(tail.value) if (tail is not None and tail.value is not None) else None
        nonlocals = {nm for s_ in g.body if isinstance(s_, ast.Nonlocal) for nm in s_.names}
        pos = list(b)
        stored = {n.id for s_ in body for n in ast.walk(s_) if isinstance(n, ast.Name) and isinstance(n.ctx, ast.Store)} - nonlocals
        prefix: list[ast.stmt] = []
        ren: dict[str, str] = {}
        for p_ in pos:
            val = b[p_]
            if isinstance(val, ast.Name) and p_ not in stored:
                ren[p_] = val.id
            else:
                new = p_ if p_ not in taken else f"{p_}__{g.name.strip('_')}"
                while new in taken and new != p_:
                    new += "_"
                taken.add(new)
                ren[p_] = new
                prefix.append(ast.copy_location(ast.Assign(targets=[ast.Name(id=new, ctx=ast.Store())], value=val), at))
        for l_ in sorted(stored - set(pos)):
            if l_ in taken:
                new = f"{l_}__{g.name.strip('_')}"
                while new in taken:
                    new += "_"
                taken.add(new)
                ren[l_] = new
            else:
                taken.add(l_)

        class Ren(ast.NodeTransformer):
            def visit_Name(self, m_: ast.Name):  # noqa: N802
                if m_.id in ren:
                    m_.id = ren[m_.id]
                return m_

            def visit_Lambda(self, m_: ast.Lambda):  # noqa: N802
                own = {p_.arg for p_ in [*m_.args.posonlyargs, *m_.args.args, *m_.args.kwonlyargs]}
                if own & set(ren):
                    return m_  # the lambda's own parameters shadow
                self.generic_visit(m_)
                return m_

        r = Ren()
        body = [r.visit(s_) for s_ in body]
        if value is not None:
            value = r.visit(value)
        return prefix + body, value

    simple = (ast.Name, ast.Constant)

    class Exprs(ast.NodeTransformer):
        def visit_Lambda(self, n):  # noqa: N802
            return n

        def visit_FunctionDef(self, n):  # noqa: N802
            if n is fn:
                self.generic_visit(n)
            return n

        def visit_Call(self, n: ast.Call):  # noqa: N802
            nonlocal changed
            self.generic_visit(n)
            if not (isinstance(n.func, ast.Name) and n.func.id in defs):
                return n
            d = defs[n.func.id]
            if isinstance(d, ast.Attribute):
                changed = True
                n.func = ast.copy_location(_clone(d), n.func)
                return n
            if isinstance(d, ast.Lambda):
                b = bind(d.args, n)
                if b is None or not all(isinstance(x, simple) or (isinstance(x, ast.Attribute) and isinstance(x.value, ast.Name)) for x in b.values()):
                    return n
                expr = _clone(d.body)

                class Sub(ast.NodeTransformer):
                    def visit_Name(self, m_: ast.Name):  # noqa: N802
                        if m_.id in b and isinstance(m_.ctx, ast.Load):
                            return _clone(b[m_.id])
                        return m_

                changed = True
                return Sub().visit(expr)
            return n

    def verdict_split(g: ast.FunctionDef, st: ast.Assign, rest: list[ast.stmt]) -> list[ast.stmt] | None:
        """`v = judge(a, b)` where the local function answers with one of several constants (`return Edge.FOLLOW` ..) on different
        paths, followed by statements that branch on v: the function's decision tree with, at every answer, `v = <answer>` and what
        follows in the block - the tests on v decided there (`Edge.FOLLOW is Edge.FOLLOW`)."""
        from core.inline_stmt import single_exit

        if repo is None or not isinstance(st.targets[0], ast.Name) or len(rest) > 6:
            return None
        v_ = st.targets[0].id
        call = st.value
        rets = [x for s_ in g.body for x in ast.walk(s_) if isinstance(x, ast.Return)]
        if len(rets) < 2 or any(r.value is None or _is_enum_member(repo, r.value) is None and not isinstance(r.value, ast.Constant) for r in rets):
            return None
        if any(isinstance(x, (ast.For, ast.While, ast.Try, ast.With)) for s_ in g.body for x in ast.walk(s_)):
            return None
        b = bind(g.args, call)
        if b is None or not all(isinstance(x, (ast.Name, ast.Constant)) or (isinstance(x, ast.Call) and not any(isinstance(y, ast.Call) for a_ in x.args for y in ast.walk(a_))) for x in b.values()):
            return None
        body = [_clone(s_) for s_ in g.body if not (isinstance(s_, ast.Expr) and isinstance(s_.value, ast.Constant)) and not isinstance(s_, ast.Nonlocal)]
        if any(isinstance(n_, ast.Name) and isinstance(n_.ctx, ast.Store) for s_ in body for n_ in ast.walk(s_)):
            return None  # a pure decision: no locals

        class Sub(ast.NodeTransformer):
            def visit_Name(self, m_: ast.Name):  # noqa: N802
                if m_.id in b and isinstance(m_.ctx, ast.Load):
                    return _clone(b[m_.id])
                return m_

            def visit_Lambda(self, m_):  # noqa: N802
                return m_

        body = [Sub().visit(s_) for s_ in body]
        fold = _FoldVerdicts(repo)
        bools = _FoldBools()

        def on_return(ret: ast.Return) -> list[ast.stmt]:
            answer = ret.value

            class Ans(ast.NodeTransformer):
                def visit_Name(self, m_: ast.Name):  # noqa: N802
                    if m_.id == v_ and isinstance(m_.ctx, ast.Load):
                        return _clone(answer)
                    return m_

            cont: list[ast.stmt] = []
            for r_ in _clone(rest):
                r2 = bools.visit(fold.visit(Ans().visit(r_)))
                if r2 is None:
                    continue
                cont += r2 if isinstance(r2, list) else [r2]
            return [ast.copy_location(ast.Assign(targets=[ast.Name(id=v_, ctx=ast.Store())], value=answer), ret), *cont]

        out_, terminated = single_exit(body, on_return)
        if not terminated:
            return None
        return out_

    def block(stmts: list[ast.stmt]) -> list[ast.stmt]:
        nonlocal changed
        out: list[ast.stmt] = []
        for idx, st in enumerate(stmts):
            if isinstance(st, (ast.FunctionDef, ast.AsyncFunctionDef, ast.ClassDef)):
                out.append(st)
                continue
            for fld in ("body", "orelse", "finalbody"):
                blk = getattr(st, fld, None)
                if isinstance(blk, list) and blk and isinstance(blk[0], ast.stmt):
                    setattr(st, fld, block(blk) or [ast.copy_location(ast.Pass(), st)])
            if isinstance(st, ast.Try):
                for h in st.handlers:
                    h.body = block(h.body) or [ast.copy_location(ast.Pass(), st)]
            if isinstance(st, ast.Assign) and len(st.targets) == 1 and isinstance(st.value, ast.Call) and isinstance(st.value.func, ast.Name) and isinstance(defs.get(st.value.func.id), ast.FunctionDef):
                rest_ = list(stmts[idx + 1:])
                got_v = verdict_split(defs[st.value.func.id], st, rest_)
                if got_v is not None:
                    out += got_v
                    changed = True
                    return out  # what followed in the block now sits behind every answer
            # `X.extend(g(a))` with a plain local function: `tmp = g(a)` first
            if isinstance(st, ast.Expr) and isinstance(st.value, ast.Call) and isinstance(st.value.func, ast.Attribute) and len(st.value.args) == 1 and isinstance(st.value.args[0], ast.Call) and isinstance(st.value.args[0].func, ast.Name) and isinstance(defs.get(st.value.args[0].func.id), ast.FunctionDef):
                tmp_ = f"result_of_{st.value.args[0].func.id.strip('_')}"
                while tmp_ in taken:
                    tmp_ += "_"
                taken.add(tmp_)
                pre = ast.copy_location(ast.Assign(targets=[ast.Name(id=tmp_, ctx=ast.Store())], value=st.value.args[0]), st)
                st.value.args[0] = ast.copy_location(ast.Name(id=tmp_, ctx=ast.Load()), st)
                got0 = body_of(defs[pre.value.func.id], pre.value, pre, want_value=True)
                if got0 is not None:
                    stmts0, value0 = got0
                    pre.value = value0
                    out += stmts0 + [pre, st]
                    changed = True
                    continue
                st.value.args[0] = pre.value
            call = st.value if isinstance(st, (ast.Expr, ast.Assign, ast.AnnAssign)) and isinstance(getattr(st, "value", None), ast.Call) else None
            if call is not None and isinstance(call.func, ast.Name) and isinstance(defs.get(call.func.id), ast.FunctionDef):
                got = body_of(defs[call.func.id], call, st, want_value=not isinstance(st, ast.Expr))
                if got is not None:
                    stmts_, value = got
                    out += stmts_
                    if not isinstance(st, ast.Expr):
                        st.value = value
                        out.append(st)
                    changed = True
                    continue
            out.append(st)
        return out

    fn.body = block(fn.body)
    tr = Exprs()
    fn.body = [tr.visit(s_) for s_ in fn.body]
    # statements that are now a bare constant / name (`None` left by `lambda ..: None`)
    def prune(stmts: list[ast.stmt]) -> list[ast.stmt]:
        out: list[ast.stmt] = []
        for st in stmts:
            for fld in ("body", "orelse", "finalbody"):
                blk = getattr(st, fld, None)
                if isinstance(blk, list) and blk and isinstance(blk[0], ast.stmt) and not isinstance(st, (ast.FunctionDef, ast.AsyncFunctionDef, ast.ClassDef)):
                    setattr(st, fld, prune(blk) or ([ast.copy_location(ast.Pass(), st)] if fld == "body" else []))
            if isinstance(st, ast.Expr) and isinstance(st.value, (ast.Constant, ast.Name)) and not (isinstance(st.value, ast.Constant) and isinstance(st.value.value, str)):
                continue
            out.append(st)
        return out

    fn.body = prune(fn.body)
    # definitions nobody refers to any more
    set_parents(fn)
    for name, d in defs.items():
        if any(isinstance(n, ast.Name) and n.id == name and isinstance(n.ctx, ast.Load) for n in ast.walk(fn)):
            continue
        holder = d if isinstance(d, ast.FunctionDef) else stmt_of(d)
        for blk in _blocks(fn):
            if any(x is holder for x in blk):
                blk.remove(holder)
                if not blk:
                    blk.append(ast.copy_location(ast.Pass(), holder))
                changed = True
                break
    return changed


def _record_constructor(repo: Repo, view: FuncInfo, ci, recv: str, call: ast.Call, at: ast.stmt) -> list[ast.stmt] | None:
    """`x = C(a, b)` for a dataclass / NamedTuple without `__init__`: `x.f1 = a; x.f2 = b` (defaults: constants and `field(default_factory=F)`)."""
    src = getattr(call, "_src", None)
    mod = src[0].module if src is not None else view.module
    got = _record_fields(repo, mod, call.func)
    if got is None:
        return None
    names, _iterable = got
    if any(isinstance(a, ast.Starred) for a in call.args) or any(k.arg is None for k in call.keywords) or len(call.args) > len(names):
        return None
    vals: dict[str, ast.expr] = dict(zip(names, call.args))
    for k in call.keywords:
        vals[k.arg] = k.value
    for n_ in names:
        if n_ in vals:
            continue
        d = ci.class_attrs.get(n_)
        if d is None:
            return None
        if isinstance(d, ast.Constant):
            vals[n_] = d
        elif isinstance(d, ast.Call) and norm(d.func).split(".")[-1] == "field" and len(d.keywords) == 1 and d.keywords[0].arg == "default_factory" and not d.args:
            vals[n_] = ast.Call(func=d.keywords[0].value, args=[], keywords=[])
        elif isinstance(d, ast.Call) and norm(d.func).split(".")[-1] == "field" and len(d.keywords) == 1 and d.keywords[0].arg == "default" and not d.args:
            vals[n_] = d.keywords[0].value
        else:
            return None
    if set(vals) != set(names):
        return None
    return [ast.copy_location(ast.Assign(targets=[ast.Attribute(value=ast.Name(id=recv, ctx=ast.Load()), attr=n_, ctx=ast.Store())], value=vals[n_]), at) for n_ in names]


def _scalarise_objects(view: FuncInfo) -> None:
    """A local helper object that was taken apart completely (constructor, methods and iteration substituted) is only read and
    written attribute by attribute: `x.attr` becomes the local `x__attr`."""
    fn = view.node
    objects = view.__dict__.get("objects") or {}
    if not objects:
        return
    set_parents(fn)
    taken = {n.id for n in ast.walk(fn) if isinstance(n, ast.Name)}
    for x in objects:
        uses = [n for n in ast.walk(fn) if isinstance(n, ast.Name) and n.id == x]
        if not uses or not all(isinstance(parent(n), ast.Attribute) and parent(n).value is n and isinstance(n.ctx, ast.Load) for n in uses):
            continue  # the object is still constructed / passed on as a whole somewhere
        names: dict[str, str] = {}
        for n in uses:
            att = parent(n)
            if att.attr not in names:
                new = f"{x}__{att.attr.strip('_')}"
                while new in taken:
                    new += "_"
                taken.add(new)
                names[att.attr] = new
            ref = ast.copy_location(ast.Name(id=names[att.attr], ctx=att.ctx), att)
            if hasattr(att, "_src"):
                ref._src = att._src  # type: ignore[attr-defined]
            par = parent(att)
            for fld, val in ast.iter_fields(par):
                if val is att:
                    setattr(par, fld, ref)
                elif isinstance(val, list):
                    for j, y in enumerate(val):
                        if y is att:
                            val[j] = ref
            if isinstance(par, ast.AnnAssign) and par.target is ref:
                par.simple = 1
        set_parents(fn)


def _inline_generator_loops(repo: Repo, view: FuncInfo) -> bool:
    """`for v in gen(args): BODY` where `gen` is a small generator helper whose `yield e` statements end their loop iteration:
    the helper's loops with `v = e; BODY` in place of each yield.  The generator may also be a method of a local helper object
    (`for t in walk:` with a generator `__iter__`, `for t in walk.edges():`)."""
    changed = False
    taken = {n.id for n in ast.walk(view.node) if isinstance(n, ast.Name)}
    objects = _local_objects(repo, view)
    view.__dict__["objects"] = objects

    def tail_yields(f: FuncInfo) -> tuple[bool, bool]:
        """(the helper has a shape that can be substituted, every yield ends its loop iteration)"""
        ok = True
        all_tail = True

        def blockv(stmts: list[ast.stmt], tail: bool) -> None:
            nonlocal ok, all_tail
            for i, st in enumerate(stmts):
                last = tail and i == len(stmts) - 1
                if isinstance(st, ast.Expr) and isinstance(st.value, ast.Yield):
                    if st.value.value is None:
                        ok = False
                    if not last:
                        all_tail = False
                elif isinstance(st, ast.If):
                    blockv(st.body, last)
                    blockv(st.orelse, last)
                elif isinstance(st, (ast.For, ast.While)):
                    blockv(st.body, True)
                    if st.orelse:
                        ok = False
                elif any(isinstance(n, (ast.Yield, ast.YieldFrom)) for n in ast.walk(st)):
                    ok = False
                if isinstance(st, ast.Return) and st.value is not None:
                    ok = False

        # yields outside any loop of the helper are only in tail position of the helper itself
        blockv([s_ for s_ in f.node.body], True)
        # a `return` anywhere but as the helper's last statement would have to leave the substituted code
        rets = [n for n in own_nodes(f.node) if isinstance(n, ast.Return)]
        if any(r is not f.node.body[-1] for r in rets):
            ok = False
        return ok and not any(isinstance(n, (ast.FunctionDef, ast.AsyncFunctionDef, ast.ClassDef, ast.Global, ast.Nonlocal, ast.Try, ast.With)) for n in own_nodes(f.node)), all_tail

    def expand(st: ast.For, f: FuncInfo) -> list[ast.stmt] | None:
        call = st.iter
        if st.orelse or call.keywords and any(k.arg is None for k in call.keywords) or any(isinstance(a, ast.Starred) for a in call.args):
            return None
        # break / continue of the loop itself cannot be expressed once the loop is the helper's
        def escapes(stmts: list[ast.stmt]) -> bool:
            for x in stmts:
                if isinstance(x, ast.Break):
                    return True
                if isinstance(x, (ast.For, ast.While, ast.FunctionDef, ast.AsyncFunctionDef)):
                    continue
                for fld in ("body", "orelse", "finalbody"):
                    if escapes(getattr(x, fld, []) or []):
                        return True
                if isinstance(x, ast.Try) and any(escapes(h.body) for h in x.handlers):
                    return True
            return False

        def continues(stmts: list[ast.stmt]) -> bool:
            for x in stmts:
                if isinstance(x, ast.Continue):
                    return True
                if isinstance(x, (ast.For, ast.While, ast.FunctionDef, ast.AsyncFunctionDef)):
                    continue
                for fld in ("body", "orelse", "finalbody"):
                    if continues(getattr(x, fld, []) or []):
                        return True
                if isinstance(x, ast.Try) and any(continues(h.body) for h in x.handlers):
                    return True
            return False

        def yield_outside_loops(stmts: list[ast.stmt]) -> bool:
            for x in stmts:
                if isinstance(x, ast.Expr) and isinstance(x.value, ast.Yield):
                    return True
                if isinstance(x, ast.If) and (yield_outside_loops(x.body) or yield_outside_loops(x.orelse)):
                    return True
            return False

        shape_ok, all_tail = tail_yields(f)
        # `continue` in the consumer means "next yielded element" = resume the helper after the yield: only the same as a
        # `continue` of the helper's loop when the yield ends that loop's iteration
        if escapes(st.body) or not shape_ok or (continues(st.body) and (not all_tail or yield_outside_loops(f.node.body))):
            return None
        a = f.node.args
        pos = [p_.arg for p_ in [*a.posonlyargs, *a.args]]
        bind: dict[str, ast.expr] = dict(zip(pos, call.args))
        for k in call.keywords:
            bind[k.arg] = k.value
        for p_, d in zip(pos[len(pos) - len(a.defaults):], a.defaults):
            bind.setdefault(p_, d)
        if any(p_ not in bind for p_ in f.param_names):
            return None
        body = [_clone_src(s_, f) for s_ in f.node.body if not (isinstance(s_, ast.Expr) and isinstance(s_.value, ast.Constant))]
        stored = {n.id for s_ in body for n in ast.walk(s_) if isinstance(n, ast.Name) and isinstance(n.ctx, ast.Store)}
        prefix: list[ast.stmt] = []
        ren: dict[str, str] = {}
        for p_ in f.param_names:
            val = bind[p_]
            if isinstance(val, ast.Name) and p_ not in stored:
                ren[p_] = val.id
            else:
                new = p_ if p_ not in taken else f"{p_}__{f.name.strip('_')}"
                taken.add(new)
                ren[p_] = new
                prefix.append(ast.copy_location(ast.Assign(targets=[ast.Name(id=new, ctx=ast.Store())], value=val), st))
        for l_ in sorted(stored - set(f.param_names)):
            if l_ in taken:
                new = f"{l_}__{f.name.strip('_')}"
                taken.add(new)
                ren[l_] = new
            else:
                taken.add(l_)
        for s_ in body:
            for n in ast.walk(s_):
                if isinstance(n, ast.Name) and n.id in ren:
                    n.id = ren[n.id]

        def subst(stmts: list[ast.stmt]) -> list[ast.stmt]:
            out: list[ast.stmt] = []
            for x in stmts:
                if isinstance(x, ast.Expr) and isinstance(x.value, ast.Yield):
                    out.append(ast.copy_location(ast.Assign(targets=[_clone(st.target)], value=x.value.value), x))
                    out += _clone(st.body)
                    continue
                if isinstance(x, ast.Return):
                    continue  # bare return in tail position
                for fld in ("body", "orelse"):
                    blk = getattr(x, fld, None)
                    if isinstance(blk, list) and blk and isinstance(blk[0], ast.stmt):
                        setattr(x, fld, subst(blk) or [ast.copy_location(ast.Pass(), x)])
                out.append(x)
            return out

        return prefix + subst(body)

    def block(stmts: list[ast.stmt]) -> list[ast.stmt]:
        nonlocal changed
        out: list[ast.stmt] = []
        for st in stmts:
            for fld in ("body", "orelse", "finalbody"):
                blk = getattr(st, fld, None)
                if isinstance(blk, list) and blk and isinstance(blk[0], ast.stmt):
                    setattr(st, fld, block(blk))
            if isinstance(st, ast.Try):
                for h in st.handlers:
                    h.body = block(h.body)
            if isinstance(st, ast.For):
                tgt_ = _generator_target(repo, view, st.iter, objects)
                if tgt_ is not None:
                    f, call_ = tgt_
                    orig_iter = st.iter
                    st.iter = call_
                    got = expand(st, f)
                    if got is not None:
                        out += got
                        changed = True
                        view.__dict__.setdefault("gen_inlined", []).append(f.fq)
                        continue
                    st.iter = orig_iter
            out.append(st)
        return out

    view.node.body = block(view.node.body)
    return changed


def _recursion_to_worklists(repo: Repo, view: FuncInfo) -> bool:
    """`walk(g, start, acc)` as a statement, where `walk` is a module-level helper that calls itself only as a statement, hands every
    parameter but one (the node) on unchanged and returns nothing:

        def walk(g, node, acc):              pending = [start]
            if node in acc: return           while pending:
            acc.add(node)             ->         node = pending.pop()
            for c in g.succ(node):               if node in acc: continue
                if ..: walk(g, c, acc)           acc.add(node)
                                                 for c in g.succ(node):
                                                     if ..: pending.append(c)

    The nodes are then examined in another order (a stack instead of the call stack), but the same nodes are examined, each
    with the same tests on its neighbours - which is all the model of a search talks about."""
    changed = False
    taken = {n.id for n in ast.walk(view.node) if isinstance(n, ast.Name)}

    def shape(f: FuncInfo) -> int | None:
        """index of the one parameter that varies in the self-calls, if the helper has the accumulator-passing form"""
        if isinstance(f.node, ast.Lambda) or _is_generator(f) or f.node.args.vararg or f.node.args.kwarg or f.node.args.kwonlyargs:
            return None
        params = f.param_names
        calls = _self_calls(f)
        if not calls:
            return None
        varying: set[int] = set()
        for c in calls:
            if not isinstance(parent(c), ast.Expr) or any(isinstance(a, ast.Starred) for a in c.args) or any(k.arg is None for k in c.keywords):
                return None
            bound: dict[str, ast.expr] = dict(zip(params, c.args))
            for k in c.keywords:
                bound[k.arg] = k.value
            if set(bound) != set(params):
                return None
            for i, p_ in enumerate(params):
                if not (isinstance(bound[p_], ast.Name) and bound[p_].id == p_):
                    varying.add(i)
        if len(varying) != 1:
            return None
        k = next(iter(varying))
        # the unchanged parameters are never rebound, the node parameter is not rebound either
        for n in own_nodes(f.node):
            if isinstance(n, ast.Name) and isinstance(n.ctx, (ast.Store, ast.Del)) and n.id in params:
                return None
            if isinstance(n, ast.Return) and n.value is not None and not (isinstance(n.value, ast.Constant) and n.value.value is None):
                return None
            if isinstance(n, (ast.FunctionDef, ast.AsyncFunctionDef, ast.ClassDef, ast.Global, ast.Nonlocal, ast.Try, ast.With)):
                return None

        # `return` only where `continue` of the new loop means the same: not inside a loop of the helper
        def returns_in_loops(stmts: list[ast.stmt], in_loop: bool) -> bool:
            for st in stmts:
                if isinstance(st, ast.Return) and in_loop:
                    return True
                for fld in ("body", "orelse"):
                    blk = getattr(st, fld, None)
                    if isinstance(blk, list) and blk and isinstance(blk[0], ast.stmt) and returns_in_loops(blk, in_loop or isinstance(st, (ast.For, ast.While))):
                        return True
            return False

        if returns_in_loops(f.node.body, False):
            return None
        return k

    def expand(st: ast.Expr, f: FuncInfo, k: int) -> list[ast.stmt] | None:
        call = st.value
        if any(isinstance(a, ast.Starred) for a in call.args) or any(kw.arg is None for kw in call.keywords):
            return None
        params = f.param_names
        bind: dict[str, ast.expr] = dict(zip(params, call.args))
        for kw in call.keywords:
            bind[kw.arg] = kw.value
        a = f.node.args
        pos = [p_.arg for p_ in [*a.posonlyargs, *a.args]]
        for p_, d in zip(pos[len(pos) - len(a.defaults):], a.defaults):
            bind.setdefault(p_, d)
        if any(p_ not in bind for p_ in params):
            return None
        body = [_clone_src(s_, f) for s_ in f.node.body if not (isinstance(s_, ast.Expr) and isinstance(s_.value, ast.Constant))]
        stored = {n.id for s_ in body for n in ast.walk(s_) if isinstance(n, ast.Name) and isinstance(n.ctx, ast.Store)}
        prefix: list[ast.stmt] = []
        ren: dict[str, str] = {}
        for i, p_ in enumerate(params):
            if i == k:
                new = p_ if p_ not in taken else f"{p_}__{f.name.strip('_')}"
                taken.add(new)
                ren[p_] = new
                continue
            val = bind[p_]
            if isinstance(val, ast.Name):
                ren[p_] = val.id
            else:
                new = p_ if p_ not in taken else f"{p_}__{f.name.strip('_')}"
                taken.add(new)
                ren[p_] = new
                prefix.append(ast.copy_location(ast.Assign(targets=[ast.Name(id=new, ctx=ast.Store())], value=val), st))
        for l_ in sorted(stored - set(params)):
            if l_ in taken:
                new = f"{l_}__{f.name.strip('_')}"
                taken.add(new)
                ren[l_] = new
            else:
                taken.add(l_)
        wl = f"pending_calls_of_{f.name.strip('_')}"  # reports then read `pending_calls_of_walk.append(child)` for the recursive call
        while wl in taken:
            wl += "_"
        taken.add(wl)

        def subst(stmts: list[ast.stmt]) -> list[ast.stmt]:
            out: list[ast.stmt] = []
            for x in stmts:
                if isinstance(x, ast.Return):
                    out.append(ast.copy_location(ast.Continue(), x))
                    continue
                if isinstance(x, ast.Expr) and isinstance(x.value, ast.Call) and isinstance(x.value.func, ast.Name) and x.value.func.id == f.name:
                    c = x.value
                    b2: dict[str, ast.expr] = dict(zip(params, c.args))
                    for kw in c.keywords:
                        b2[kw.arg] = kw.value
                    push = ast.Expr(value=ast.Call(func=ast.Attribute(value=ast.Name(id=wl, ctx=ast.Load()), attr="append", ctx=ast.Load()), args=[b2[params[k]]], keywords=[]))
                    out.append(ast.copy_location(push, x))
                    if hasattr(x, "_src"):
                        push._src = x._src  # type: ignore[attr-defined]
                    continue
                for fld in ("body", "orelse"):
                    blk = getattr(x, fld, None)
                    if isinstance(blk, list) and blk and isinstance(blk[0], ast.stmt):
                        setattr(x, fld, subst(blk) or [ast.copy_location(ast.Pass(), x)])
                out.append(x)
            return out

        body = subst(body)
        for s_ in body:
            for n in ast.walk(s_):
                if isinstance(n, ast.Name) and n.id in ren:
                    n.id = ren[n.id]
        init = ast.copy_location(ast.Assign(targets=[ast.Name(id=wl, ctx=ast.Store())], value=ast.List(elts=[bind[params[k]]], ctx=ast.Load())), st)
        pop = ast.copy_location(ast.Assign(targets=[ast.Name(id=ren[params[k]], ctx=ast.Store())], value=ast.Call(func=ast.Attribute(value=ast.Name(id=wl, ctx=ast.Load()), attr="pop", ctx=ast.Load()), args=[], keywords=[])), st)
        loop = ast.copy_location(ast.While(test=ast.Name(id=wl, ctx=ast.Load()), body=[pop, *body], orelse=[]), st)
        return prefix + [init, loop]

    def block(stmts: list[ast.stmt]) -> list[ast.stmt]:
        nonlocal changed
        out: list[ast.stmt] = []
        for st in stmts:
            for fld in ("body", "orelse", "finalbody"):
                blk = getattr(st, fld, None)
                if isinstance(blk, list) and blk and isinstance(blk[0], ast.stmt):
                    setattr(st, fld, block(blk))
            if isinstance(st, ast.Try):
                for h in st.handlers:
                    h.body = block(h.body)
            if isinstance(st, ast.Expr) and isinstance(st.value, ast.Call) and isinstance(st.value.func, ast.Name):
                f = None
                try:
                    cs, how = types_of(repo).callees(view, st.value, byname_fallback=False)
                    cs = [c for c in cs if not c.is_abstract]
                    if len(cs) == 1 and how == "repo" and cs[0].cls is None and cs[0].outer is None and not isinstance(cs[0].node, ast.Lambda):
                        f = cs[0]
                except Exception:  # noqa: BLE001
                    f = None
                k = shape(f) if f is not None and _self_recursive(f) else None
                if k is not None:
                    got = expand(st, f, k)
                    if got is not None:
                        out += got
                        changed = True
                        view.__dict__.setdefault("gen_inlined", []).append(f.fq)
                        continue
            out.append(st)
        return out

    view.node.body = block(view.node.body)
    return changed


def _generator_comprehensions_to_loops(repo: Repo, view: FuncInfo) -> bool:
    """`return {e for x in gen(..) if c}` / `v = [e for x in gen(..)]` over a repo generator helper -> `acc = set()`,
    `for x in gen(..): if c: acc.add(e)`, `return acc`: the statement loop can then take the helper's body."""
    changed = False
    taken = {n.id for n in ast.walk(view.node) if isinstance(n, ast.Name)}
    counter = [0]
    objects = _local_objects(repo, view)
    view.__dict__["objects"] = objects

    def fresh() -> str:
        while True:
            counter[0] += 1
            name = f"collected{counter[0]}"
            if name not in taken:
                taken.add(name)
                return name

    def over_generator(e: ast.AST):
        """(kind, generators, element, wrapper) when `e` collects what a repo generator helper yields: a comprehension whose first
        generator iterates the helper, `set(<genexp>)`, or the helper's result handed to a collection constructor (`set(gen(..))`)."""
        kind = wrapper = None
        comp = e
        if isinstance(e, ast.Call) and isinstance(e.func, ast.Name) and e.func.id in ("set", "list", "frozenset", "tuple", "sorted") and len(e.args) == 1 and not e.keywords:
            kind = "set" if e.func.id in ("set", "frozenset") else "list"
            wrapper = e.func.id if e.func.id in ("frozenset", "tuple", "sorted") else None
            comp = e.args[0]
            if isinstance(comp, (ast.Call, ast.Name)):
                if _generator_target(repo, view, comp, objects) is None:
                    return None
                x = fresh()
                gen = ast.comprehension(target=ast.Name(id=x, ctx=ast.Store()), iter=comp, ifs=[], is_async=0)
                return kind, [gen], ast.Name(id=x, ctx=ast.Load()), wrapper
            if not isinstance(comp, (ast.GeneratorExp, ast.ListComp, ast.SetComp)):
                return None
        elif isinstance(e, ast.SetComp):
            kind = "set"
        elif isinstance(e, (ast.ListComp, ast.GeneratorExp)):
            kind = "list"
        if kind is None or not comp.generators or any(g_.is_async for g_ in comp.generators):
            return None
        if _generator_target(repo, view, comp.generators[0].iter, objects) is None:
            return None
        return kind, list(comp.generators), comp.elt, wrapper

    def loops(gens: list, add: ast.stmt, at: ast.stmt) -> ast.stmt:
        # `[e for a in G if c for b in I if d]` is `for a in G: if c: for b in I: if d: acc.append(e)` (same evaluation order)
        body: list[ast.stmt] = [add]
        loop = None
        for g_ in reversed(gens):
            for c in reversed(g_.ifs):
                body = [ast.copy_location(ast.If(test=c, body=body, orelse=[]), at)]
            loop = ast.copy_location(ast.For(target=g_.target, iter=g_.iter, body=body, orelse=[]), at)
            for n in ast.walk(loop.target):
                if isinstance(n, (ast.Name, ast.Tuple, ast.List)):
                    n.ctx = ast.Store()
            body = [loop]
        return loop

    def adder(recv: ast.expr, method: str, elt: ast.expr, at: ast.stmt) -> ast.stmt:
        return ast.copy_location(ast.Expr(value=ast.Call(func=ast.Attribute(value=recv, attr=method, ctx=ast.Load()), args=[elt], keywords=[])), at)

    def rewrite(st: ast.stmt) -> list[ast.stmt] | None:
        # `X.extend(<comprehension over gen(..)>)` / `X.update(..)` / `X += [..]` / `X |= {..}`: the elements are added one by one
        if isinstance(st, ast.Expr) and isinstance(st.value, ast.Call) and isinstance(st.value.func, ast.Attribute) and st.value.func.attr in ("extend", "update") and isinstance(st.value.func.value, ast.Name) and len(st.value.args) == 1 and not st.value.keywords:
            got = over_generator(st.value.args[0])
            if got is not None and got[3] is None:
                return [loops(got[1], adder(_clone(st.value.func.value), "append" if st.value.func.attr == "extend" else "add", got[2], st), st)]
            return None
        if isinstance(st, ast.AugAssign) and isinstance(st.op, (ast.Add, ast.BitOr)) and isinstance(st.target, ast.Name):
            got = over_generator(st.value)
            if got is not None and got[3] is None:
                recv = ast.copy_location(ast.Name(id=st.target.id, ctx=ast.Load()), st.target)
                return [loops(got[1], adder(recv, "append" if isinstance(st.op, ast.Add) else "add", got[2], st), st)]
            return None
        if not (isinstance(st, (ast.Return, ast.Assign, ast.AnnAssign)) and getattr(st, "value", None) is not None):
            return None
        val = st.value
        got = over_generator(val)
        if got is None:
            return None
        kind, gens, elt, wrapper = got
        acc = fresh()
        init = ast.copy_location(ast.Assign(targets=[ast.Name(id=acc, ctx=ast.Store())], value=ast.Call(func=ast.Name(id=kind, ctx=ast.Load()), args=[], keywords=[])), st)
        loop = loops(gens, adder(ast.Name(id=acc, ctx=ast.Load()), "add" if kind == "set" else "append", elt, st), st)
        ref: ast.expr = ast.copy_location(ast.Name(id=acc, ctx=ast.Load()), val)
        if wrapper is not None:
            ref = ast.copy_location(ast.Call(func=ast.Name(id=wrapper, ctx=ast.Load()), args=[ref], keywords=[]), val)
        st.value = ref
        return [init, loop, st]

    def block(stmts: list[ast.stmt]) -> list[ast.stmt]:
        nonlocal changed
        out: list[ast.stmt] = []
        for st in stmts:
            for fld in ("body", "orelse", "finalbody"):
                blk = getattr(st, fld, None)
                if isinstance(blk, list) and blk and isinstance(blk[0], ast.stmt):
                    setattr(st, fld, block(blk))
            if isinstance(st, ast.Try):
                for h in st.handlers:
                    h.body = block(h.body)
            got = rewrite(st)
            if got is not None:
                out += got
                changed = True
            else:
                out.append(st)
        return out

    view.node.body = block(view.node.body)
    return changed


def _clone_src(e, ctx: FuncInfo):
    """Copy of a helper's statement for substitution into a view: every node remembers where it came from."""
    if isinstance(e, list):
        return [_clone_src(x, ctx) for x in e]
    if not isinstance(e, ast.AST):
        return e
    new = type(e)()
    for f in e._fields:
        if hasattr(e, f):
            setattr(new, f, _clone_src(getattr(e, f), ctx))
    for a in ("lineno", "col_offset", "end_lineno", "end_col_offset"):
        if hasattr(e, a):
            setattr(new, a, getattr(e, a))
    new._src = getattr(e, "_src", (ctx, e))  # type: ignore[attr-defined]
    return new


def _unqualified(repo: Repo, fi: FuncInfo) -> FuncInfo:
    """`utils.helper(x)` through an imported repo *module* -> `helper(x)` on a copy of the function, each new name remembering the
    module it lives in (core/types.py treats a repo module object as a library reference, so the inliner would not look into
    helpers called that way)."""
    if isinstance(fi.node, ast.Lambda):
        return fi
    node = _clone(fi.node)
    hit = False
    for c in ast.walk(node):
        if isinstance(c, ast.Call) and isinstance(c.func, ast.Attribute) and isinstance(c.func.value, (ast.Name, ast.Attribute)):
            base = repo.resolve_name(fi.module, c.func.value)
            om = repo.modules.get(base) if base else None
            f = om.functions.get(c.func.attr) if om is not None else None
            if f is not None and f.cls is None:
                name = ast.copy_location(ast.Name(id=c.func.attr, ctx=ast.Load()), c.func)
                name._src = (f, ast.Name(id=c.func.attr, ctx=ast.Load()))  # type: ignore[attr-defined]
                c.func = name
                hit = True
    if not hit:
        return fi
    ast.fix_missing_locations(node)
    set_parents(node)
    pre = FuncInfo(name=fi.name, qualname=fi.qualname + "~unq", node=node, module=fi.module, cls=fi.cls, decorators=list(fi.decorators), outer=fi.outer)
    node._func = pre  # type: ignore[attr-defined]
    return pre


_GROW = {"add", "update", "append", "extend", "insert", "appendleft", "extendleft"}
_SHRINK = {"remove", "discard", "clear", "pop", "popleft", "difference_update", "intersection_update", "symmetric_difference_update", "sort", "reverse"}


def _set_algebra(e: ast.AST) -> bool:
    """`A - B`, `A | B`, `A & B`, `A.difference(B)`, .. over plain names (copies stripped)."""
    e = strip(e)
    if isinstance(e, ast.Name):
        return True
    if isinstance(e, ast.BinOp) and isinstance(e.op, (ast.BitOr, ast.Sub, ast.BitAnd)):
        return _set_algebra(e.left) and _set_algebra(e.right)
    if isinstance(e, ast.Call) and isinstance(e.func, ast.Attribute) and e.func.attr in ("union", "difference", "intersection") and e.args and not e.keywords:
        return _set_algebra(e.func.value) and all(_set_algebra(a) for a in e.args)
    return False


def _superset_copies(fn: ast.AST, params: set[str]) -> dict[str, tuple[ast.AST, int]]:
    """V -> (X, position of V's binding) for locals `V = set(X)` / `X.copy()` / `list(X)` (a *copy* of the node set X) or
    `V = A - B` (set algebra over node sets), bound once by a top-level statement, that afterwards only grow (`V.add(..)`,
    `V.update(..)`, `V |= ..`) while the operands are not changed any more: V >= X holds wherever V is read."""
    mut = _mutation_positions(fn)
    pos = mut["@pos"]
    out: dict[str, tuple[str, int]] = {}
    # bound once by a plain assignment (a growing `V |= ..` is not a rebinding)
    stores: dict[str, int] = {}
    vals: dict[str, ast.expr] = {}
    for n in ast.walk(fn):
        if isinstance(n, ast.Name) and isinstance(n.ctx, (ast.Store, ast.Del)) and not isinstance(parent(n), ast.AugAssign):
            stores[n.id] = stores.get(n.id, 0) + 1
        if isinstance(n, ast.Assign) and len(n.targets) == 1 and isinstance(n.targets[0], ast.Name):
            vals[n.targets[0].id] = n.value
        elif isinstance(n, ast.AnnAssign) and isinstance(n.target, ast.Name) and n.value is not None:
            vals[n.target.id] = n.value
    for v_name, val in vals.items():
        if v_name in params or stores.get(v_name) != 1:
            continue
        x = strip(val)
        if isinstance(x, ast.Name):
            if x is val or x.id == v_name:
                continue  # an alias, not a copy
        elif not (isinstance(x, (ast.BinOp, ast.Call)) and _set_algebra(x)):
            continue
        st = stmt_of(val)
        if st is None or parent(st) is not fn:
            continue
        here = pos.get(id(val), -1)
        operands = {n.id for n in ast.walk(x) if isinstance(n, ast.Name)}
        if v_name in operands or any(p_ > here for o_ in operands for p_ in mut.get(o_, [])):
            continue
        ok = True
        for n in ast.walk(fn):
            if isinstance(n, ast.Call) and isinstance(n.func, ast.Attribute) and isinstance(n.func.value, ast.Name) and n.func.value.id == v_name and n.func.attr in _SHRINK:
                ok = False
            elif isinstance(n, ast.AugAssign) and isinstance(n.target, ast.Name) and n.target.id == v_name and not isinstance(n.op, (ast.BitOr, ast.Add)):
                ok = False
        if ok:
            out[v_name] = (x, here)
    return out


def _remaining_sets_to_visited(fn: ast.AST, params: set[str]) -> None:
    """`U = A - B` (set algebra / a copy, bound once at top level) that afterwards only *shrinks* by single nodes (`U.remove(x)`,
    `U.discard(x)`) is the set of nodes still to be handled: U = (A - B) minus what was taken out.  Rewritten with an explicit
    set of handled nodes, so that the usual visited-set reading applies:

        U = A - B                       U = A - B; U__done = set()
        if n not in U: continue    ->   if n not in (A - B) or n in U__done: continue
        U.remove(n)                     U__done.add(n)"""
    set_parents(fn)
    mut = _mutation_positions(fn)
    pos = mut["@pos"]
    stores: dict[str, int] = {}
    vals: dict[str, ast.expr] = {}
    for n in ast.walk(fn):
        if isinstance(n, ast.Name) and isinstance(n.ctx, (ast.Store, ast.Del)):
            stores[n.id] = stores.get(n.id, 0) + 1
        if isinstance(n, ast.Assign) and len(n.targets) == 1 and isinstance(n.targets[0], ast.Name):
            vals[n.targets[0].id] = n.value
        elif isinstance(n, ast.AnnAssign) and isinstance(n.target, ast.Name) and n.value is not None:
            vals[n.target.id] = n.value
    taken = {n.id for n in ast.walk(fn) if isinstance(n, ast.Name)}
    for u, val in vals.items():
        if u in params or stores.get(u) != 1:
            continue
        x = strip(val)
        if isinstance(x, ast.Name):
            if x is val or x.id == u:
                continue
        elif not (isinstance(x, (ast.BinOp, ast.Call)) and _set_algebra(x)):
            continue
        st = stmt_of(val)
        if st is None or parent(st) is not fn:
            continue
        here = pos.get(id(val), -1)
        operands = {n.id for n in ast.walk(x) if isinstance(n, ast.Name)}
        if u in operands or any(p_ > here for o_ in operands for p_ in mut.get(o_, [])):
            continue
        shrinks: list[ast.Call] = []
        ok = True
        for n in ast.walk(fn):
            if isinstance(n, ast.Call) and isinstance(n.func, ast.Attribute) and isinstance(n.func.value, ast.Name) and n.func.value.id == u:
                if n.func.attr in ("remove", "discard") and len(n.args) == 1 and not n.keywords and isinstance(parent(n), ast.Expr):
                    shrinks.append(n)
                elif n.func.attr in (_GROW | _SHRINK):
                    ok = False
            elif isinstance(n, ast.AugAssign) and isinstance(n.target, ast.Name) and n.target.id == u:
                ok = False
        if not ok or not shrinks:
            continue
        # every other use of U is a membership test after its binding
        tests: list[ast.Compare] = []
        for n in ast.walk(fn):
            if isinstance(n, ast.Name) and n.id == u and isinstance(n.ctx, ast.Load):
                par = parent(n)
                if isinstance(par, ast.Attribute) and isinstance(parent(par), ast.Call) and any(parent(par) is c for c in shrinks):
                    continue
                if isinstance(par, ast.Compare) and len(par.ops) == 1 and isinstance(par.ops[0], (ast.In, ast.NotIn)) and par.comparators[0] is n and pos.get(id(par), -1) > here:
                    tests.append(par)
                    continue
                ok = False
        if not ok or not tests:
            continue
        done = f"{u}__done"
        while done in taken:
            done += "_"
        taken.add(done)
        for c in shrinks:
            c.func.value = ast.copy_location(ast.Name(id=done, ctx=ast.Load()), c.func.value)
            c.func.attr = "add"
        for t in tests:
            is_in = isinstance(t.ops[0], ast.In)
            base = ast.copy_location(ast.Compare(left=_clone(t.left), ops=[ast.In() if is_in else ast.NotIn()], comparators=[ast.copy_location(_clone(x), t)]), t)
            handled = ast.copy_location(ast.Compare(left=_clone(t.left), ops=[ast.NotIn() if is_in else ast.In()], comparators=[ast.copy_location(ast.Name(id=done, ctx=ast.Load()), t)]), t)
            new = ast.copy_location(ast.BoolOp(op=ast.And() if is_in else ast.Or(), values=[base, handled]), t)
            for n_ in (base, handled, new):
                if hasattr(t, "_src"):
                    n_._src = t._src  # type: ignore[attr-defined]
            par = parent(t)
            for fld, v_ in ast.iter_fields(par):
                if v_ is t:
                    setattr(par, fld, new)
                elif isinstance(v_, list):
                    for i, y in enumerate(v_):
                        if y is t:
                            v_[i] = new
        init = ast.copy_location(ast.Assign(targets=[ast.Name(id=done, ctx=ast.Store())], value=ast.Call(func=ast.Name(id="set", ctx=ast.Load()), args=[], keywords=[])), st)
        fn.body.insert(next(i for i, b in enumerate(fn.body) if b is st) + 1, init)
        ast.fix_missing_locations(fn)
        set_parents(fn)


def _expand_superset_tests(fn: ast.AST, params: set[str]) -> None:
    """With V >= X (see _superset_copies) `e in V` is `e in V or e in X` and `e not in V` is `e not in V and e not in X`: written out,
    so that what a test of the merged set (`closed = set(excluded)`, then every expanded node is added) says about the set it was
    seeded from survives the later growth of V (path conditions on V are dropped once V is mutated, those on X are not)."""
    set_parents(fn)
    sup = _superset_copies(fn, params)
    if not sup:
        return
    pos = {id(n): i for i, n in enumerate(_preorder(fn))}
    for par in list(ast.walk(fn)):
        for fld, val in list(ast.iter_fields(par)):
            items = val if isinstance(val, list) else [val]
            for i, x in enumerate(items):
                if not (isinstance(x, ast.Compare) and len(x.ops) == 1 and isinstance(x.ops[0], (ast.In, ast.NotIn)) and isinstance(x.comparators[0], ast.Name) and x.comparators[0].id in sup):
                    continue
                base, here = sup[x.comparators[0].id]
                if pos.get(id(x), -1) <= here:
                    continue
                other = ast.copy_location(ast.Compare(left=_clone(x.left), ops=[type(x.ops[0])()], comparators=[ast.copy_location(_clone(base), x)]), x)
                new = ast.copy_location(ast.BoolOp(op=ast.Or() if isinstance(x.ops[0], ast.In) else ast.And(), values=[x, other]), x)
                for n_ in (other, new):
                    if hasattr(x, "_src"):
                        n_._src = x._src  # type: ignore[attr-defined]
                if isinstance(val, list):
                    val[i] = new
                else:
                    setattr(par, fld, new)


def search_view(repo: Repo, fi: FuncInfo) -> FuncInfo:
    cache = repo.__dict__.setdefault("_search_views", {})
    if fi.fq in cache:
        return cache[fi.fq]
    v0 = Inliner(repo, types_of(repo), _allow).view(_unqualified(repo, fi))
    inlined = list(getattr(v0, "inlined", []))
    objects_seen: dict = {}
    for _ in range(4):
        # helper calls the inliner could not reach (nested in an expression, generator helpers in a for header): make them
        # reachable and substitute once more
        v0.__dict__["objects"] = objects_seen
        changed = _hoist_helper_calls(repo, v0)
        changed = _inline_object_methods(repo, v0) or changed
        _fold_constants(v0.node)  # a literal flag handed to a substituted helper decides its conditional expressions now
        changed = _expand_starred_literals(v0.node) or changed
        changed = _inline_local_callables(v0, repo) or changed
        changed = _recursion_to_worklists(repo, v0) or changed
        changed = _generator_comprehensions_to_loops(repo, v0) or changed
        changed = _inline_generator_loops(repo, v0) or changed
        inlined += v0.__dict__.get("gen_inlined", [])
        objects_seen = dict(v0.__dict__.get("objects") or {})
        if not changed:
            break
        ast.fix_missing_locations(v0.node)
        set_parents(v0.node)
        v1 = Inliner(repo, types_of(repo), _allow).view(v0)
        inlined += list(getattr(v1, "inlined", []))
        v0 = v1
    node = v0.node
    v0.__dict__["objects"] = objects_seen
    _scalarise_objects(v0)
    _fold_constants(node)
    _unpack_records(repo, v0)
    _positionalise(node, repo)
    node.body = _split_tuple_assigns(node.body)
    _project_tuples(node)
    node.body = _thread_none_exits(node.body)
    _fold_inplace_differences(node)
    _eliminate_aliases(node, set(fi.param_names))
    _propagate_copies(node, set(fi.param_names))
    _remaining_sets_to_visited(node, set(fi.param_names))
    _expand_superset_tests(node, set(fi.param_names))
    node.body = _split_conditions(node.body)
    ast.fix_missing_locations(node)
    set_parents(node)
    v = ViewInfo(name=fi.name, qualname=fi.qualname, node=node, module=fi.module, cls=fi.cls, decorators=list(fi.decorators), outer=fi.outer)
    v.shown = fi.qualname  # type: ignore[attr-defined]
    v.origin = getattr(v0, "origin", {})  # type: ignore[attr-defined]
    v.inlined = inlined  # type: ignore[attr-defined]
    v.base = fi  # type: ignore[attr-defined]
    node._func = v  # type: ignore[attr-defined]
    cache[fi.fq] = v
    return v


# --------------------------------------------------------------------------- small syntactic helpers


def strip(e: ast.AST) -> ast.AST:
    """Removes order / container conversions that do not change which nodes are meant: list(x), sorted(x), reversed(x), [*x], x.copy(), x[:]."""
    while True:
        if isinstance(e, ast.Call) and isinstance(e.func, ast.Name) and e.func.id in _WRAPPERS and len(e.args) == 1 and not isinstance(e.args[0], ast.Starred):
            e = e.args[0]
        elif isinstance(e, (ast.List, ast.Tuple, ast.Set)) and len(e.elts) == 1 and isinstance(e.elts[0], ast.Starred):
            e = e.elts[0].value
        elif isinstance(e, ast.Call) and isinstance(e.func, ast.Attribute) and e.func.attr == "copy" and not e.args:
            e = e.func.value
        elif isinstance(e, ast.Subscript) and isinstance(e.slice, ast.Slice) and e.slice.lower is None and e.slice.upper is None:
            e = e.value
        elif isinstance(e, ast.NamedExpr):
            e = e.value
        else:
            return e


def _chain(node: ast.AST) -> list[ast.AST]:
    return [node, *ancestors(node)]


def _inside_body(node: ast.AST, loop: ast.AST) -> bool:
    """`node` is executed as part of an iteration of the statement loop `loop` (in its body, not in its header)."""
    ch = _chain(node)
    for i, a in enumerate(ch):
        if a is loop:
            return i > 0 and any(ch[i - 1] is s for s in loop.body)
    return False


def _inside_gen(node: ast.AST, comp: ast.AST, j: int) -> bool:
    """`node` is evaluated once per element of generator j of the comprehension (element, later generators, filters from j on)."""
    ch = _chain(node)
    for i, a in enumerate(ch):
        if a is comp:
            if i == 0:
                return False
            c = ch[i - 1]
            if isinstance(c, ast.comprehension):
                k = next(k for k, g in enumerate(comp.generators) if g is c)
                if k > j:
                    return True
                return k == j and i > 1 and any(ch[i - 2] is f for f in c.ifs)
            return True  # elt / key / value
    return False


def _comp_conditions(node: ast.AST) -> list:
    """Filters of a comprehension that hold where `node` is evaluated *inside a generator clause* (core/cfg.expr_conditions only
    covers the element): in the iterable of generator k the filters of the generators before k, in a filter of generator k
    additionally the earlier filters of k."""
    out: list = []
    ch = _chain(node)
    for i, a in enumerate(ch):
        if isinstance(a, ast.stmt):
            break
        if isinstance(a, ast.comprehension) and i + 1 < len(ch) and isinstance(ch[i + 1], (*_COMPS, ast.DictComp)):
            comp = ch[i + 1]
            k = next(k for k, g in enumerate(comp.generators) if g is a)
            for g in comp.generators[:k]:
                out += [(c, True) for c in g.ifs]
            if i > 0:
                for c in a.ifs:
                    if c is ch[i - 1]:
                        break
                    out.append((c, True))
    return out


def all_conds(v: FuncInfo, node: ast.AST) -> list:
    return list(conds(v, node)) + _comp_conditions(node)


def _single_assignments(fn: ast.AST) -> dict[str, ast.expr]:
    """name -> value for locals bound exactly once, by a plain or annotated assignment."""
    counts: dict[str, int] = {}
    vals: dict[str, ast.expr] = {}
    for n in ast.walk(fn):
        if isinstance(n, ast.Name) and isinstance(n.ctx, (ast.Store, ast.Del)):
            counts[n.id] = counts.get(n.id, 0) + 1
        if isinstance(n, ast.Assign) and len(n.targets) == 1 and isinstance(n.targets[0], ast.Name):
            vals[n.targets[0].id] = n.value
        elif isinstance(n, ast.AnnAssign) and isinstance(n.target, ast.Name) and n.value is not None:
            vals[n.target.id] = n.value
        elif isinstance(n, ast.AugAssign) and isinstance(n.target, ast.Name):
            counts[n.target.id] = counts.get(n.target.id, 0) + 1
    return {k: v for k, v in vals.items() if counts.get(k) == 1}


class _Ren(ast.NodeTransformer):
    def __init__(self, old: str, new: str) -> None:
        self.old, self.new = old, new

    def visit_Name(self, n: ast.Name):  # noqa: N802
        if n.id == self.old:
            return ast.copy_location(ast.Name(id=self.new, ctx=n.ctx), n)
        return n


def _clone(e):
    """Copy of a sub-tree of a view (keeps the `_src` back references, not the parent links)."""
    if isinstance(e, list):
        return [_clone(x) for x in e]
    if not isinstance(e, ast.AST):
        return e
    new = type(e)()
    for f in e._fields:
        if hasattr(e, f):
            setattr(new, f, _clone(getattr(e, f)))
    for a in ("lineno", "col_offset", "end_lineno", "end_col_offset"):
        if hasattr(e, a):
            setattr(new, a, getattr(e, a))
    if hasattr(e, "_src"):
        new._src = e._src  # type: ignore[attr-defined]
    return new


def _renamed(e: ast.expr, old: str, new: str) -> ast.expr:
    if old == new:
        return e
    return _Ren(old, new).visit(_clone(e))


def _hier_params(repo: Repo) -> list[str]:
    for ci in repo.classes.values():
        if ci.name == "AbstractGraph":
            m = ci.methods.get(HIER)
            if m is not None:
                return m.param_names[1:]
    return []


def make_subst(repo: Repo, v: FuncInfo):
    """Substitution for guard formulas of a view: single-assignment boolean locals stand for their definition, private boolean
    helpers for their body, and a hierarchy test written with keyword arguments for the positional one."""
    single = _single_assignments(v.node)
    params = set(v.param_names)
    helper = bool_inliner(repo).subst(v, 0, None)
    hp = _hier_params(repo)

    mutated_at = _mutation_positions(v.node)

    unions = _union_built(v.node, params)

    def eq_atom(left: str, e: ast.AST) -> Formula | None:
        try:
            return to_formula(ast.Compare(left=ast.parse(left, mode="eval").body, ops=[ast.Eq()], comparators=[e]), subst)
        except SyntaxError:
            return None

    def snapshot(left: str, name: str, at: int) -> Formula | None:
        """`left in name` as it was at position `at`, when `name` is changed afterwards only one node at a time (`name.add(e)`,
        `name.remove(e)` / `discard(e)`):  what is in the final set and was not put in later was there already; what was taken out
        later may have been there (a free atom)."""
        later = [pos for pos in mutated_at.get(name, []) if pos > at]
        if not later:
            return atom(f"{left} in {name}")
        adds: list[Formula] = []
        for n in ast.walk(v.node):
            if mutated_at["@pos"].get(id(n), -1) not in later:
                continue
            if isinstance(n, ast.Call) and isinstance(n.func, ast.Attribute) and isinstance(n.func.value, ast.Name) and n.func.value.id == name and len(n.args) == 1 and not n.keywords:
                if n.func.attr == "add":
                    eq = eq_atom(left, n.args[0])
                    if eq is None:
                        return None
                    adds.append(f_and([conds_formula(all_conds(v, n), subst), eq]))
                    continue
                if n.func.attr in ("remove", "discard"):
                    continue
            return None  # changed wholesale afterwards: the earlier content is unknown
        return f_or([f_and([atom(f"{left} in {name}"), f_not(f_or(adds))]), atom(f"{left} in {name}@{at}")])

    def member(left: str, se: ast.AST, depth: int = 0, top: bool = True, at: int | None = None) -> Formula | None:
        """Formula of `left in <set expression>` for set algebra over node sets (`A | B`, `A - B`, `A & B`, .union / .difference /
        .intersection, `{*A, *B}`), also through a local bound once to such an expression whose operands are complete by then.
        None when the expression is a plain set (the membership stays an atom)."""
        se = strip(se)
        if isinstance(se, ast.Name) and se.id in single and se.id not in params and _is_empty_collection(single[se.id]) and len(mutated_at.get(se.id, [])) <= 1:
            return FALSE_F  # bound once to an empty collection and never filled (`barred = frozenset()`): nothing is in it
        if isinstance(se, ast.Name) and se.id in unions and depth < 4:
            # `U = set(A)` .. `U.update(B)` .. `U |= C` (all before U is read): U is A | B | C
            parts_ = [member(left, x, depth + 1, False) for x in unions[se.id]]
            if parts_ and all(p_ is not None for p_ in parts_):
                return f_or(parts_)
        if isinstance(se, ast.Name):
            if se.id in single and se.id not in params and depth < 4:
                val = strip(single[se.id])
                if isinstance(val, (ast.BinOp, ast.Set)) or (isinstance(val, ast.Call) and isinstance(val.func, ast.Attribute) and val.func.attr in ("union", "difference", "intersection")):
                    here = mutated_at["@pos"].get(id(single[se.id]), -1)
                    operands = {x.id for x in ast.walk(val) if isinstance(x, ast.Name)}
                    later = _later_adds(v.node, se.id)  # `V = A - B` .. `if flag: V.add(e)`: V is (A - B) plus e under flag
                    if later is not None:
                        # operands that are still changed afterwards are read as they were when V was computed (snapshot)
                        got = member(left, val, depth + 1, True, here)
                        if got is not None:
                            extra_ = []
                            for call_ in later:
                                eq = eq_atom(left, call_.args[0])
                                if eq is None:
                                    return None
                                extra_.append(f_and([conds_formula(all_conds(v, call_), subst), eq]))
                            return f_or([got, *extra_]) if extra_ else got
            if top:
                return None
            return snapshot(left, se.id, at) if at is not None else atom(f"{left} in {se.id}")
        parts: list[tuple[str, ast.AST]] = []
        if isinstance(se, ast.BinOp) and isinstance(se.op, (ast.BitOr, ast.Sub, ast.BitAnd)):
            op = {ast.BitOr: "or", ast.Sub: "sub", ast.BitAnd: "and"}[type(se.op)]
            parts = [("first", se.left), (op, se.right)]
        elif isinstance(se, ast.Call) and isinstance(se.func, ast.Attribute) and se.func.attr in ("union", "difference", "intersection") and se.args and not se.keywords and not any(isinstance(a, ast.Starred) for a in se.args):
            op = {"union": "or", "difference": "sub", "intersection": "and"}[se.func.attr]
            parts = [("first", se.func.value), *[(op, a) for a in se.args]]
        elif isinstance(se, ast.Set) and se.elts and all(isinstance(x, ast.Starred) for x in se.elts):
            parts = [("first" if i == 0 else "or", x.value) for i, x in enumerate(se.elts)]
        else:
            return None
        f: Formula | None = None
        for op, x in parts:
            g = member(left, x, depth + 1, False, at)
            if g is None:
                return None
            f = g if op == "first" else f_or([f, g]) if op == "or" else f_and([f, f_not(g)]) if op == "sub" else f_and([f, g])
        return f

    def subst(e: ast.expr):
        if isinstance(e, ast.Compare) and len(e.ops) == 1 and isinstance(e.ops[0], (ast.In, ast.NotIn)):
            f = member(norm(e.left), e.comparators[0])
            if f is not None:
                return f if isinstance(e.ops[0], ast.In) else f_not(f)
        if isinstance(e, ast.Name) and e.id in single and e.id not in params:
            val = single[e.id]
            if isinstance(val, (ast.Call, ast.Compare, ast.BoolOp, ast.UnaryOp)) and not _is_collection_expr(val):
                return to_formula(val, subst)
            if isinstance(val, ast.Attribute) and val.attr == PARENT_FLAG:
                return to_formula(val, subst)  # is_parent = f.identifier_is_parent_module
        if isinstance(e, ast.Call) and isinstance(e.func, ast.Attribute) and e.func.attr == HIER and e.keywords and len(hp) == 2:
            args: dict[str, ast.expr] = dict(zip(hp, e.args))
            for k in e.keywords:
                if k.arg:
                    args[k.arg] = k.value
            if all(p in args for p in hp):
                return atom(f"bool({norm(e.func)}({norm(args[hp[0]])}, {norm(args[hp[1]])}))")
        return helper(e)

    return subst


def _later_adds(fn: ast.AST, name: str) -> list[ast.Call] | None:
    """The `name.add(e)` calls that grow a local set after its binding; None when it is changed in any other way."""
    out: list[ast.Call] = []
    for n in ast.walk(fn):
        if isinstance(n, ast.Call) and isinstance(n.func, ast.Attribute) and isinstance(n.func.value, ast.Name) and n.func.value.id == name:
            if n.func.attr == "add" and len(n.args) == 1 and not n.keywords:
                if any(isinstance(a, (ast.For, ast.AsyncFor, ast.While, *_COMPS)) for a in ancestors(n)):
                    return None  # filled in a loop (a visited set): not a fixed set with a few extra nodes
                out.append(n)
            elif n.func.attr in (_GROW | _SHRINK):
                return None
        elif isinstance(n, ast.AugAssign) and isinstance(n.target, ast.Name) and n.target.id == name:
            return None
    return out


def _union_built(fn: ast.AST, params: set[str]) -> dict[str, list[ast.AST]]:
    """U -> [A, B, C] for locals built as a union of node sets by top-level statements before their first use:
    `U = set(A)` / `U = set()` / `U = A | B`, then `U.update(B)` / `U |= C`, nothing else ever changes U, and the operands are
    not changed after they were put in."""
    single = _single_assignments(fn)
    mut = _mutation_positions(fn)
    pos = mut["@pos"]
    out: dict[str, list[ast.AST]] = {}
    for u, val in single.items():
        if u in params:
            continue
        st = stmt_of(val) if parent(val) is not None else None
        if st is None or parent(st) is not fn:
            continue
        init = strip(val)
        if _is_empty_collection(val):
            comps: list[ast.AST] = []
        elif isinstance(init, ast.Name) and init is not val and init.id != u:
            comps = [init]  # a copy
        else:
            continue
        grown: list[tuple[int, ast.AST]] = []
        ok = True
        for n in ast.walk(fn):
            if isinstance(n, ast.Call) and isinstance(n.func, ast.Attribute) and isinstance(n.func.value, ast.Name) and n.func.value.id == u:
                if n.func.attr == "update" and n.args and not n.keywords and isinstance(parent(n), ast.Expr) and parent(parent(n)) is fn and not any(isinstance(a, ast.Starred) for a in n.args):
                    grown += [(pos[id(n)], a) for a in n.args]
                elif n.func.attr in (_GROW | _SHRINK):
                    ok = False
            elif isinstance(n, ast.AugAssign) and isinstance(n.target, ast.Name) and n.target.id == u:
                if isinstance(n.op, ast.BitOr) and parent(n) is fn:
                    grown.append((pos[id(n)], n.value))
                else:
                    ok = False
        if not ok or not grown:
            continue
        last = max(p_ for p_, _ in grown)
        reads = [pos[id(n)] for n in ast.walk(fn) if isinstance(n, ast.Name) and n.id == u and isinstance(n.ctx, ast.Load) and not (isinstance(parent(n), ast.Attribute) and parent(n).attr == "update")]
        if any(r <= last for r in reads):
            continue
        first = pos.get(id(val), -1)
        puts = [(first, c) for c in comps] + sorted(grown, key=lambda t: t[0])
        # an operand may be completed before it is put in, never afterwards
        if any(mp > put for put, c in puts for x in ast.walk(c) if isinstance(x, ast.Name) for mp in mut.get(x.id, [])):
            continue
        comps = [c for _, c in puts]
        out[u] = comps
    return out


def _mutation_positions(fn: ast.AST) -> dict:
    """name -> positions (pre-order index) of statements mutating / rebinding it; "@pos": id(node) -> position."""
    pos: dict[int, int] = {}
    out: dict = {"@pos": pos}
    for i, n in enumerate(_preorder(fn)):
        pos[id(n)] = i
    for n in _preorder(fn):
        name = None
        if isinstance(n, ast.Call) and isinstance(n.func, ast.Attribute) and isinstance(n.func.value, ast.Name) and n.func.attr in ("add", "update", "remove", "discard", "clear", "pop", "difference_update", "intersection_update", "symmetric_difference_update", "append", "extend", "insert"):
            name = n.func.value.id
        elif isinstance(n, ast.AugAssign) and isinstance(n.target, ast.Name):
            name = n.target.id
        elif isinstance(n, ast.Name) and isinstance(n.ctx, (ast.Store, ast.Del)):
            name = n.id
        if name is not None:
            out.setdefault(name, []).append(pos[id(n)])
    return out


def _preorder(fn: ast.AST):
    stack = [fn]
    while stack:
        n = stack.pop()
        yield n
        stack.extend(reversed(list(ast.iter_child_nodes(n))))


def _is_collection_expr(e: ast.expr) -> bool:
    """Calls that build / return collections must not be read as boolean definitions of a local."""
    if isinstance(e, ast.Call):
        if isinstance(e.func, ast.Name) and e.func.id in (_WRAPPERS | {SUBMODULES, "dict", "deque"}):
            return True
        if isinstance(e.func, ast.Attribute) and e.func.attr in (SUCC, PRED, "pop", "popleft", "copy", "union", "difference", "intersection"):
            return True
    return False


# --------------------------------------------------------------------------- construction


def _expansions(fn: ast.AST) -> list[ast.Call]:
    return [c for c in ast.walk(fn) if isinstance(c, ast.Call) and isinstance(c.func, ast.Attribute) and c.func.attr in (SUCC, PRED)]


def _pop_target(loop: ast.While, x: str) -> str | None:
    """Worklist W such that the loop body binds x by `x = W.pop(..)` / `W.popleft()`."""
    for n in ast.walk(loop):
        val = None
        if isinstance(n, ast.Assign) and len(n.targets) == 1 and isinstance(n.targets[0], ast.Name) and n.targets[0].id == x:
            val = n.value
        elif isinstance(n, ast.AnnAssign) and isinstance(n.target, ast.Name) and n.target.id == x:
            val = n.value
        elif isinstance(n, ast.NamedExpr) and n.target.id == x:
            val = n.value
        if val is not None and isinstance(val, ast.Call) and isinstance(val.func, ast.Attribute) and val.func.attr in ("pop", "popleft") and isinstance(val.func.value, ast.Name):
            return val.func.value.id
    return None


def _binder(e: ast.Call):
    """The iteration that binds the expanded node: ("while", loop, W) | ("for", loop, iter) | ("comp", comp, j, iter) | None."""
    if not (e.args and isinstance(e.args[0], ast.Name)):
        return None
    x = e.args[0].id
    for a in ancestors(e):
        if isinstance(a, (ast.For, ast.AsyncFor)) and isinstance(a.target, ast.Name) and a.target.id == x and _inside_body(e, a):
            return ("for", a, a.iter)
        if isinstance(a, ast.While) and _inside_body(e, a):
            w = _pop_target(a, x)
            if w is not None:
                return ("while", a, w)
        if isinstance(a, (*_COMPS, ast.DictComp)):
            for j, g in enumerate(a.generators):
                if isinstance(g.target, ast.Name) and g.target.id == x and _inside_gen(e, a, j):
                    return ("comp", a, j, g.iter)
    return None


def _iter_elements(e: ast.expr, single: dict[str, ast.expr]) -> list[tuple[ast.AST, ast.AST | None]]:
    """Elements an iterable expression contributes: [(element expression, comprehension it is the element of | None)]."""
    e = strip(e)
    if isinstance(e, _COMPS):
        return [(e.elt, e)]
    if isinstance(e, (ast.List, ast.Tuple, ast.Set)):
        out: list[tuple[ast.AST, ast.AST | None]] = []
        for x in e.elts:
            if isinstance(x, ast.Starred):
                out += _iter_elements(x.value, single)
            else:
                out.append((x, None))
        return out
    if isinstance(e, ast.Name) and e.id in single and isinstance(strip(single[e.id]), _COMPS):
        c = strip(single[e.id])
        return [(c.elt, c)]
    if isinstance(e, ast.Name) and e.id in single and isinstance(single[e.id], ast.Tuple) and not single[e.id].elts:
        return []  # `nothing = ()` .. `W.extend(nothing)`: no element (an empty tuple stays empty)
    if isinstance(e, ast.BinOp) and isinstance(e.op, (ast.Add, ast.BitOr)):
        return _iter_elements(e.left, single) + _iter_elements(e.right, single)
    if isinstance(e, ast.IfExp):
        # either branch (the guards of the elements carry the test)
        return _iter_elements(e.body, single) + _iter_elements(e.orelse, single)
    return [(e, None)]


@dataclass
class _Site:
    receiver: str
    node: ast.AST  # Call | AugAssign | Assign | AnnAssign | Return
    elements: list[tuple[ast.AST, ast.AST | None]]
    method: str
    key: ast.AST | None = None


def _receiver_of(e: ast.AST) -> tuple[str, ast.AST | None]:
    """(collection variable, key) of the receiver of a mutation: `R`, `self.r`, `R[k]`, `R.setdefault(k, [])`."""
    d = dotted(e)
    if d:
        return d, None
    if isinstance(e, ast.Subscript) and isinstance(e.value, ast.Name) and not isinstance(e.slice, ast.Slice):
        return e.value.id, e.slice
    if isinstance(e, ast.Call) and isinstance(e.func, ast.Attribute) and e.func.attr == "setdefault" and isinstance(e.func.value, ast.Name) and len(e.args) == 2 and _is_empty_collection(e.args[1]):
        return e.func.value.id, e.args[0]
    return "", None


def _mutation_sites(fn: ast.AST, single: dict[str, ast.expr], result_vars: set[str]) -> list[_Site]:
    out: list[_Site] = []
    for n in ast.walk(fn):
        if isinstance(n, ast.Call) and isinstance(n.func, ast.Attribute) and n.func.attr in _ADDERS and _receiver_of(n.func.value)[0]:
            m = n.func.attr
            recv, key = _receiver_of(n.func.value)
            if m in ("append", "add", "appendleft") and len(n.args) == 1:
                out.append(_Site(recv, n, [(n.args[0], None)], m, key))
            elif m == "insert" and len(n.args) == 2:
                out.append(_Site(recv, n, [(n.args[1], None)], m, key))
            elif m in ("extend", "update", "extendleft") and n.args:
                els: list = []
                for a in n.args:
                    els += _iter_elements(a, single)
                out.append(_Site(recv, n, els, m, key))
        elif isinstance(n, ast.AugAssign) and isinstance(n.op, (ast.Add, ast.BitOr)) and _receiver_of(n.target)[0]:
            recv, key = _receiver_of(n.target)
            out.append(_Site(recv, n, _iter_elements(n.value, single), "+=", key))
        elif isinstance(n, (ast.Assign, ast.AnnAssign)) and n.value is not None:
            tgt = n.targets[0] if isinstance(n, ast.Assign) and len(n.targets) == 1 else getattr(n, "target", None)
            if isinstance(tgt, ast.Name):
                v = strip(n.value)
                if isinstance(v, _COMPS) and tgt.id in result_vars:
                    out.append(_Site(tgt.id, n, [(v.elt, v)], "="))
                elif isinstance(v, ast.BinOp) and isinstance(v.op, (ast.Add, ast.BitOr)) and isinstance(strip(v.left), ast.Name) and strip(v.left).id == tgt.id:
                    out.append(_Site(tgt.id, n, _iter_elements(v.right, single), "+="))
        elif isinstance(n, ast.Return) and n.value is not None:
            v = strip(n.value)
            if isinstance(v, _COMPS):
                out.append(_Site("<return>", n, [(v.elt, v)], "return"))
    return out


def _node_expr_text(e: ast.AST, single: dict[str, ast.expr]) -> str:
    """Canonical text of a node expression: locals bound once to `p.identifier` are replaced by it."""
    e = strip(e)
    seen = 0
    while isinstance(e, ast.Name) and e.id in single and seen < 5:
        v = strip(single[e.id])
        if isinstance(v, (ast.Attribute, ast.Name)) or (isinstance(v, ast.Call) and isinstance(v.func, ast.Name) and v.func.id == "get_node"):
            e = v
            seen += 1
        else:
            break
    if isinstance(e, ast.Call) and isinstance(e.func, ast.Name) and e.func.id == "get_node" and len(e.args) == 1:
        return f"{norm(e.args[0])}.{NODE_ATTR}"
    return norm(e)


def _worklist_sources(fn: ast.AST, worklist_expr: ast.AST, outer: ast.AST, single: dict[str, ast.expr], filters: list | None = None) -> tuple[list[str], list[ast.stmt]]:
    """Names of the sets / node expressions a worklist is initialised from, and the initialising statements; the conditions of a
    filtered copy (`[n for n in S if c]`) are appended to `filters` as (condition, variable)."""
    if filters is None:
        filters = []

    def sources_of(e: ast.AST, depth: int = 0) -> list[str]:
        e = strip(e)
        if isinstance(e, (ast.List, ast.Tuple, ast.Set)):
            out: list[str] = []
            for x in e.elts:
                out += sources_of(x.value, depth) if isinstance(x, ast.Starred) else [_node_expr_text(x, single)]
            return out
        if isinstance(e, ast.Call) and isinstance(e.func, ast.Name) and e.func.id == "deque" and e.args:
            return sources_of(e.args[0])
        if isinstance(e, ast.Name) and e.id in single and isinstance(strip(single[e.id]), (ast.List, ast.Tuple, ast.Set)) and depth < 3:
            return sources_of(single[e.id], depth + 1)  # `start_nodes = [node]` .. `W = list(start_nodes)`
        if isinstance(e, ast.Name) and e.id in single and depth < 3 and isinstance(strip(single[e.id]), ast.Name) and strip(single[e.id]) is not single[e.id]:
            return sources_of(single[e.id], depth + 1)  # `start = list(own)` .. `W = list(start)`: a copy of a copy
        if isinstance(e, _COMPS) and len(e.generators) == 1 and isinstance(e.elt, ast.Name) and isinstance(e.generators[0].target, ast.Name) and e.elt.id == e.generators[0].target.id and depth < 3:
            # a filtered copy `[n for n in S if c]`: starts from (part of) S; which part is recorded for the rules
            filters.extend((c, e.generators[0].target.id) for c in e.generators[0].ifs)
            return sources_of(e.generators[0].iter, depth + 1)
        return [norm(e)]

    base = strip(worklist_expr)
    if not isinstance(base, ast.Name):
        return sources_of(base), []
    inits: list[ast.stmt] = []
    srcs: list[str] = []
    for n in ast.walk(fn):
        val = None
        if isinstance(n, ast.Assign) and any(isinstance(t, ast.Name) and t.id == base.id for t in n.targets):
            val = n.value
        elif isinstance(n, ast.AnnAssign) and isinstance(n.target, ast.Name) and n.target.id == base.id and n.value is not None:
            val = n.value
        if val is None or any(a is outer for a in ancestors(n)):
            continue
        inits.append(n)
        for s in sources_of(val):
            if s not in srcs:
                srcs.append(s)
    if not inits:
        return [base.id], []  # the iterated variable is itself the set (parameter or set built elsewhere)
    return srcs, inits


def _collection_of(e: ast.AST, params: list[str], single: dict[str, ast.expr], depth: int = 0, filters: list | None = None) -> tuple[str, list[str]] | None:
    """(collection parameter, elements removed before iterating) for an iterated expression, resolving locals; the filters of a
    filtered copy (`[x for x in P if c]`) are appended to `filters` as (condition, variable)."""
    e = strip(e)
    if isinstance(e, ast.Name):
        if e.id in params:
            return e.id, []
        if e.id in single and depth < 4:
            return _collection_of(single[e.id], params, single, depth + 1, filters)
        return None
    removed = None
    inner = None
    if isinstance(e, ast.BinOp) and isinstance(e.op, ast.Sub):
        inner, removed = e.left, e.right
    elif isinstance(e, ast.Call) and isinstance(e.func, ast.Attribute) and e.func.attr == "difference" and len(e.args) == 1:
        inner, removed = e.func.value, e.args[0]
    if inner is not None:
        got = _collection_of(inner, params, single, depth + 1, filters)
        r = strip(removed)
        if got is not None and isinstance(r, (ast.Set, ast.List, ast.Tuple)) and all(isinstance(x, ast.Name) for x in r.elts):
            return got[0], got[1] + [x.id for x in r.elts]
        return None
    if isinstance(e, _COMPS) and len(e.generators) == 1 and isinstance(e.elt, ast.Name) and isinstance(e.generators[0].target, ast.Name) and e.elt.id == e.generators[0].target.id and (not e.generators[0].ifs or filters is not None):
        got = _collection_of(e.generators[0].iter, params, single, depth + 1, filters)
        if got is not None and filters is not None:
            filters += [(c, e.generators[0].target.id) for c in e.generators[0].ifs]
        return got
    return None


def _binding_loop(name: str, at: ast.AST):
    """(loop node, iterated expression) of the For / comprehension generator that binds `name` around `at`."""
    for a in ancestors(at):
        if isinstance(a, (ast.For, ast.AsyncFor)) and isinstance(a.target, ast.Name) and a.target.id == name:
            return a, a.iter
        if isinstance(a, (*_COMPS, ast.DictComp)):
            for g in a.generators:
                if isinstance(g.target, ast.Name) and g.target.id == name:
                    return a, g.iter
    return None


def _is_base_of(call: ast.AST, value: ast.AST) -> bool:
    """`value` is `call`, possibly converted (`set(..)`, `.copy()`) and with single nodes taken out (`call - {x}`, `call.difference(..)`,
    either branch of a conditional expression): still the set computed by the call, up to the documented adjustments."""
    v = strip(value)
    if v is call:
        return True
    if isinstance(v, ast.BinOp) and isinstance(v.op, ast.Sub):
        return _is_base_of(call, v.left)
    if isinstance(v, ast.Call) and isinstance(v.func, ast.Attribute) and v.func.attr == "difference":
        return _is_base_of(call, v.func.value)
    if isinstance(v, ast.IfExp):
        return _is_base_of(call, v.body) or _is_base_of(call, v.orelse)
    # `call | E` / `call.union(E)`: the set computed by the call with more put in (what is put in is judged as [exempt set])
    if isinstance(v, ast.BinOp) and isinstance(v.op, ast.BitOr):
        return _is_base_of(call, v.left) or _is_base_of(call, v.right)
    if isinstance(v, ast.Call) and isinstance(v.func, ast.Attribute) and v.func.attr == "union":
        return _is_base_of(call, v.func.value)
    return False


def _addends(value: ast.AST, base: ast.AST) -> list[ast.AST]:
    """[E..] for `B | E`, `E | B`, `B.union(E, ..)` around the base expression B (nested and wrapped forms included)."""
    v = strip(value)
    if v is base:
        return []
    if isinstance(v, ast.BinOp) and isinstance(v.op, ast.BitOr):
        if _is_base_of(base, v.left):
            return _addends(v.left, base) + [v.right]
        if _is_base_of(base, v.right):
            return [v.left] + _addends(v.right, base)
    if isinstance(v, ast.Call) and isinstance(v.func, ast.Attribute) and v.func.attr == "union" and _is_base_of(base, v.func.value):
        return _addends(v.func.value, base) + list(v.args)
    if isinstance(v, ast.BinOp) and isinstance(v.op, ast.Sub):
        return _addends(v.left, base)
    if isinstance(v, ast.Call) and isinstance(v.func, ast.Attribute) and v.func.attr == "difference":
        return _addends(v.func.value, base)
    return []


def _receiving_var(call: ast.AST) -> tuple[str | None, bool]:
    """(variable that receives the value of `call`, it is assigned exactly that value)."""
    st = stmt_of(call)
    if isinstance(st, ast.Assign) and len(st.targets) == 1 and isinstance(st.targets[0], ast.Name):
        if _is_base_of(call, st.value):
            return st.targets[0].id, True
        # x = x | f(..) / x = x.union(f(..)) accumulate
        return st.targets[0].id, False
    if isinstance(st, ast.AnnAssign) and isinstance(st.target, ast.Name) and st.value is not None:
        return st.target.id, _is_base_of(call, st.value)
    if isinstance(st, ast.AugAssign) and isinstance(st.target, ast.Name):
        return st.target.id, False
    if isinstance(st, ast.Expr) and isinstance(st.value, ast.Call) and isinstance(st.value.func, ast.Attribute) and isinstance(st.value.func.value, ast.Name):
        return st.value.func.value.id, False
    return None, False


def _accumulating_loop(loop: ast.AST) -> ast.AST | None:
    """The `X.update(t)` / `X |= t` statement of a loop `for t in <sets>: X |= t` whose body does nothing else."""
    if not (isinstance(loop, ast.For) and isinstance(loop.target, ast.Name) and len(loop.body) == 1 and not loop.orelse):
        return None
    st = loop.body[0]
    t = loop.target.id
    if isinstance(st, ast.AugAssign) and isinstance(st.op, ast.BitOr) and isinstance(st.target, ast.Name) and isinstance(st.value, ast.Name) and st.value.id == t:
        return st
    if isinstance(st, ast.Expr) and isinstance(st.value, ast.Call) and isinstance(st.value.func, ast.Attribute) and st.value.func.attr == "update" and isinstance(st.value.func.value, ast.Name) and len(st.value.args) == 1 and isinstance(st.value.args[0], ast.Name) and st.value.args[0].id == t:
        return st
    return None


def _flattened_into(fn: ast.AST, name: str) -> tuple[str | None, list[ast.stmt]]:
    """The node set a collection of node sets `name` is united into: `X = set().union(*name)`, `X.update(*name)`, `X |= set().union(*name)`,
    `X = set(chain.from_iterable(name))`, `X = {n for t in name for n in t}`, `X = reduce(<union>, name, set())`. None unless every use
    of `name` is such a flattening into one and the same variable."""
    targets: set[str | None] = set()
    stmts: list[ast.stmt] = []
    for n in ast.walk(fn):
        if not (isinstance(n, ast.Name) and n.id == name and isinstance(n.ctx, ast.Load)):
            continue
        par = parent(n)
        flat = None
        if isinstance(par, ast.Starred):
            call = parent(par)
            if isinstance(call, ast.Call) and isinstance(call.func, ast.Attribute) and call.func.attr in ("union", "update") and any(a is par for a in call.args):
                flat = call
            elif isinstance(call, ast.Call) and dotted(call.func).split(".")[-1] == "chain":
                flat = call
        elif isinstance(par, ast.Call) and any(a is n for a in par.args):
            fname = dotted(par.func).split(".")[-1]
            if fname == "from_iterable" or (fname == "reduce" and len(par.args) >= 2 and par.args[1] is n):
                flat = par
        elif isinstance(par, ast.Attribute) and par.attr == "values" and isinstance(parent(par), ast.Call) and not parent(par).args and isinstance(parent(parent(par)), (ast.For, ast.comprehension)) and parent(parent(par)).iter is parent(par):
            # `for t in trees.values(): X |= t`
            flat = _accumulating_loop(parent(parent(par)))
        elif isinstance(par, ast.For) and par.iter is n:
            flat = _accumulating_loop(par)
        elif isinstance(par, ast.comprehension) and par.iter is n and isinstance(par.target, ast.Name):
            comp = parent(par)
            if isinstance(comp, _COMPS) and len(comp.generators) == 2 and comp.generators[0] is par:
                g2 = comp.generators[1]
                if isinstance(g2.iter, ast.Name) and g2.iter.id == par.target.id and isinstance(g2.target, ast.Name) and isinstance(comp.elt, ast.Name) and comp.elt.id == g2.target.id and not par.ifs and not g2.ifs:
                    flat = comp
        if flat is None:
            return None, []
        st = stmt_of(flat)
        stmts.append(st)
        tgt = None
        if isinstance(st, ast.Assign) and len(st.targets) == 1 and isinstance(st.targets[0], ast.Name):
            tgt = st.targets[0].id
        elif isinstance(st, (ast.AnnAssign, ast.AugAssign)) and isinstance(st.target, ast.Name):
            tgt = st.target.id
        elif isinstance(st, ast.Expr) and isinstance(st.value, ast.Call) and isinstance(st.value.func, ast.Attribute) and isinstance(st.value.func.value, ast.Name) and st.value.func.attr == "update":
            tgt = st.value.func.value.id
        targets.add(tgt)
    if len(targets) == 1:
        return next(iter(targets)), stmts
    return None, []


def _subtree_sites(m: SearchModel, single: dict[str, ast.expr]) -> list[SubtreeSite]:
    fn = m.fi.node
    params = m.fi.param_names
    out: list[SubtreeSite] = []
    for c in ast.walk(fn):
        if not (isinstance(c, ast.Call) and isinstance(c.func, ast.Name) and c.func.id == SUBMODULES and len(c.args) + len(c.keywords) == 2):
            continue
        arg_e = c.args[1] if len(c.args) == 2 else next((k.value for k in c.keywords if k.arg not in (None, "graph")), None)
        arg = dotted(arg_e) if arg_e is not None else ""
        target, assigned = _receiving_var(c)
        if target is not None and not assigned and target in single and ((isinstance(strip(single[target]), _COMPS) and strip(single[target]).elt is c) or (isinstance(single[target], ast.DictComp) and single[target].value is c)):
            # `trees = (get_all_submodules_of(graph, m) for m in P)`: a collection of sub-trees, not a node set; the node set is
            # what the collection is flattened into (`X = set().union(*trees)`, `X.update(*trees)`, `{n for t in trees for n in t}`)
            holder = target
            target, fills = _flattened_into(fn, target)
            if target is None and isinstance(single[holder], ast.DictComp):
                target = holder  # not united into one node set: a sub-tree per key (see _keyed_by_object)
        else:
            fills = []
        site = SubtreeSite(c, arg, None, None, [], target, assigned, None)
        site.fills = fills
        bl = _binding_loop(arg, c) if arg else None
        if bl is not None:
            site.loop = bl[0]
            flt: list = []
            got = _collection_of(bl[1], params, single, 0, flt)
            if got is not None:
                site.collection, site.implicit_skips = got
                site.extra = [(_renamed(c_, var, arg), True) for c_, var in flt]
        elif arg in params:
            site.param = arg
        elif arg in single:
            # a local standing for a parameter (x = dependent)
            v = strip(single[arg])
            if isinstance(v, ast.Name) and v.id in params:
                site.param = v.id
        site.guard = m.guard_of(c, site.extra)
        out.append(site)
    return out


def _parent_ids(e: ast.AST, params: list[str], single: dict[str, ast.expr], depth: int = 0) -> list[str] | None:
    """Filter parameters [p..] such that `e` evaluates to the identifiers of those of them that are parent-module filters."""
    if depth > 6:
        return None
    e = strip(e)
    if isinstance(e, ast.Name) and e.id in single:
        return _parent_ids(single[e.id], params, single, depth + 1)
    if isinstance(e, ast.Call) and isinstance(e.func, ast.Name) and e.func.id == "get_parent_nodes" and len(e.args) == 1:
        seq = _param_seq(e.args[0], params, single)
        return seq
    if isinstance(e, _COMPS) and len(e.generators) == 1 and isinstance(e.generators[0].target, ast.Name):
        g = e.generators[0]
        t = g.target.id
        inner = _parent_ids(g.iter, params, single, depth + 1)
        if inner is not None and isinstance(e.elt, ast.Name) and e.elt.id == t and all(_is_not_none_test(c, t) for c in g.ifs):
            return inner
        seq = _param_seq(g.iter, params, single)
        if seq is not None and _is_node_of(e.elt, t):
            flags = [c for c in g.ifs if not _is_not_none_test(c, f"{t}.{NODE_ATTR}")]
            if len(flags) == 1 and isinstance(flags[0], ast.Attribute) and dotted(flags[0]) == f"{t}.{PARENT_FLAG}":
                return seq
    return None


def _is_not_none_test(c: ast.expr, text: str) -> bool:
    return isinstance(c, ast.Compare) and len(c.ops) == 1 and isinstance(c.ops[0], ast.IsNot) and norm(c.left) == text and isinstance(c.comparators[0], ast.Constant) and c.comparators[0].value is None


def _is_node_of(e: ast.AST, var: str) -> bool:
    if isinstance(e, ast.Attribute) and e.attr == NODE_ATTR and dotted(e.value) == var:
        return True
    return isinstance(e, ast.Call) and isinstance(e.func, ast.Name) and e.func.id == "get_node" and len(e.args) == 1 and dotted(e.args[0]) == var


def _param_seq(e: ast.AST, params: list[str], single: dict[str, ast.expr]) -> list[str] | None:
    e = strip(e)
    if isinstance(e, ast.Name) and e.id in single:
        return _param_seq(single[e.id], params, single)
    if isinstance(e, (ast.List, ast.Tuple, ast.Set)) and e.elts and all(isinstance(x, ast.Name) and x.id in params for x in e.elts):
        return [x.id for x in e.elts]
    return None


@dataclass
class Finding:
    """A search whose source of truth is positively not the graph's edges (reported by run_search as a C01.S violation)."""

    fi: FuncInfo  # view
    node: ast.AST  # the offending test
    detail: str


_NAME_METHODS = {"startswith", "endswith", "find", "rfind", "index", "rindex", "removeprefix", "removesuffix", "split", "rsplit", "partition", "rpartition", "count"}


def _name_tests(fn: ast.AST) -> list[ast.AST]:
    """String relations on node names: prefix / suffix / substring tests, splitting, counting of separators, slicing by a
    length, regular expressions."""
    out: list[ast.AST] = []
    for n in ast.walk(fn):
        if isinstance(n, ast.Call) and isinstance(n.func, ast.Attribute) and n.func.attr in _NAME_METHODS and not (isinstance(n.func.value, ast.Constant) and n.func.attr in ("split", "count")):
            out.append(n)
        elif isinstance(n, ast.Call) and isinstance(n.func, ast.Attribute) and dotted(n.func.value) == "re":
            out.append(n)
        elif isinstance(n, ast.Compare) and any(isinstance(o, (ast.In, ast.NotIn)) for o in n.ops) and any(isinstance(x, (ast.JoinedStr, ast.Constant)) and (not isinstance(x, ast.Constant) or isinstance(x.value, str)) or (isinstance(x, ast.BinOp) and isinstance(x.op, ast.Add) and any(isinstance(y, ast.Constant) and isinstance(y.value, str) for y in ast.walk(x))) for x in [n.left, *n.comparators]):
            out.append(n)
        elif isinstance(n, ast.Subscript) and isinstance(n.slice, ast.Slice) and any(isinstance(c, ast.Call) and isinstance(c.func, ast.Name) and c.func.id == "len" for b_ in (n.slice.lower, n.slice.upper) if b_ is not None for c in ast.walk(b_)):
            out.append(n)
    # the tests that decide what is collected come first: those in conditions
    out.sort(key=lambda x: 0 if any(isinstance(a, (ast.If, ast.comprehension, ast.IfExp, ast.BoolOp)) for a in ancestors(x)) else 1)
    return out


def _names_instead_of_edges(repo: Repo, fi: FuncInfo, v: FuncInfo) -> Finding | None:
    """The public sub-module search contains no walk over the graph's edges (no neighbour expansion of nodes taken from a loop, no
    hierarchy test - also not in a helper) but decides membership by string relations on node names."""
    fn = v.node
    if any(isinstance(c, ast.Call) and isinstance(c.func, ast.Attribute) and c.func.attr == HIER for c in ast.walk(fn)):
        return None
    # a call of a repo helper the view could not look into may hide the walk
    for c in ast.walk(fn):
        if isinstance(c, ast.Call) and isinstance(c.func, ast.Name):
            try:
                cs, how = types_of(repo).callees(v, c, byname_fallback=False)
            except Exception:  # noqa: BLE001
                cs, how = [], ""
            if how == "repo" and any(f.fq != fi.fq and f.name != "get_node" and any(isinstance(x, ast.Call) and isinstance(x.func, ast.Attribute) and x.func.attr in (SUCC, PRED, HIER) for x in ast.walk(f.node)) for f in cs):
                return None
    tests = _name_tests(fn)
    if not tests:
        return None
    t = tests[0]
    return Finding(
        v,
        t,
        f"sub modules are read off names instead of hierarchy edges: `{norm(t)}` decides what {fi.name} returns, and no `{HIER}` test on the "
        f"graph's edges is involved (the source of truth of 'X and all its descendants' is the parent-child relation of the graph; whether a "
        f"name test cuts at the dotted boundary is C14.R1's question, not this rule's)",
    )


def findings(repo: Repo) -> list[Finding]:
    models(repo)
    return repo.__dict__.get("_search_findings", [])


def build(repo: Repo, fi: FuncInfo) -> SearchModel | None:
    v = search_view(repo, fi)
    fn = v.node
    exps = _expansions(fn)
    bound = [(e, _binder(e)) for e in exps]
    in_loop = [(e, b) for e, b in bound if b is not None]
    if fi.name == SUBMODULES and not in_loop:
        f = _names_instead_of_edges(repo, fi, v)
        if f is not None:
            repo.__dict__.setdefault("_search_findings", []).append(f)
            return None
    if not exps:
        return None
    same = bool(in_loop) and all(bb[1] is in_loop[0][1][1] and e.func.attr == in_loop[0][0].func.attr and norm(e.args[0]) == norm(in_loop[0][0].args[0]) and dotted(e.func.value) == dotted(in_loop[0][0].func.value) for e, bb in in_loop)
    if not same:
        raise AnalysisError(
            f"{fi.fq}: {len(in_loop)} different neighbour expansions of nodes taken from a worklist / node loop (unknown search idiom; "
            f"expansions found: {[norm(e) for e in exps]})"
        )
    ncall, b = in_loop[0]
    ncalls = [e for e, _ in in_loop]  # the same expansion may be written several times (one pass per edge kind)
    single = _single_assignments(fn)
    direction = "succ" if ncall.func.attr == SUCC else "pred"
    graph = dotted(ncall.func.value)
    popped = ncall.args[0].id
    kind = b[0]
    if kind == "while":
        outer, worklist, wl_expr = b[1], b[2], ast.Name(id=b[2], ctx=ast.Load())
        loop_stmt = outer
    else:
        outer = b[1]
        it = b[2] if kind == "for" else b[3]
        base = strip(it)
        worklist = base.id if isinstance(base, ast.Name) else norm(base)
        wl_expr = it
        loop_stmt = outer if kind == "for" else stmt_of(outer)
    gen_j = b[2] if kind == "comp" else None

    def in_outer(node: ast.AST) -> bool:
        if kind == "comp":
            return _inside_gen(node, outer, gen_j)
        return _inside_body(node, outer)

    # ---- neighbour iterations
    def resolve(e: ast.AST, depth: int = 0):
        """filters [(cond, var)] applied on the way from the expansion call to the iterated expression `e`; None if `e` is something else."""
        e = strip(e)
        if any(e is c for c in ncalls):
            return []
        if depth > 4:
            return None
        if isinstance(e, ast.Name) and e.id in single:
            return resolve(single[e.id], depth + 1)
        if isinstance(e, _COMPS) and len(e.generators) == 1 and isinstance(e.generators[0].target, ast.Name) and isinstance(e.elt, ast.Name) and e.elt.id == e.generators[0].target.id:
            inner = resolve(e.generators[0].iter, depth + 1)
            if inner is not None:
                return inner + [(c, e.generators[0].target.id) for c in e.generators[0].ifs]
        if isinstance(e, ast.Call) and not e.keywords and len(e.args) == 2 and dotted(e.func).split(".")[-1] in ("filter", "filterfalse") and isinstance(e.args[0], ast.Lambda):
            lam = e.args[0]
            if len(lam.args.args) == 1 and not (lam.args.posonlyargs or lam.args.kwonlyargs or lam.args.vararg or lam.args.kwarg):
                inner = resolve(e.args[1], depth + 1)
                if inner is not None:
                    cond = lam.body if dotted(e.func).split(".")[-1] == "filter" else _negated(lam.body)
                    return inner + [(cond, lam.args.args[0].arg)]
        return None

    iters: list[NeighbourIter] = []
    for n in ast.walk(fn):
        if isinstance(n, (ast.For, ast.AsyncFor)):
            got = resolve(n.iter)
            if got is not None:
                if not isinstance(n.target, ast.Name):
                    raise AnalysisError(f"{fi.fq}: neighbour loop `{norm(n.target)}` does not bind a single variable")
                iters.append(NeighbourIter(n, None, n.target.id, [(_renamed(c, var, n.target.id), True) for c, var in got]))
        elif isinstance(n, (*_COMPS, ast.DictComp)):
            for j, g in enumerate(n.generators):
                got = resolve(g.iter)
                if got is not None and isinstance(g.target, ast.Name):
                    iters.append(NeighbourIter(n, j, g.target.id, [(_renamed(c, var, g.target.id), True) for c, var in got]))
    if not iters:
        raise AnalysisError(f"{fi.fq}: no loop or comprehension over the neighbours `{norm(ncall)}` found")

    def niter_of(node: ast.AST) -> NeighbourIter | None:
        best = None
        for it_ in iters:
            inside = _inside_body(node, it_.node) if it_.gen is None else _inside_gen(node, it_.node, it_.gen)
            if inside and (best is None or any(a is best.node for a in ancestors(it_.node))):
                best = it_
        return best

    # prefer a statement loop as "the" neighbour loop (consumers read .neighbour_loop / .neighbour_var)
    main_iter = next((i for i in iters if i.gen is None), iters[0])

    rets = set()
    for s in own_nodes(fn):
        if isinstance(s, ast.Return) and s.value is not None:
            r = strip(s.value)
            if isinstance(r, ast.Name):
                rets.add(r.id)
    model = SearchModel(v, direction, graph, worklist, popped, None, loop_stmt, main_iter.node, main_iter.var, ncall, [], None)
    model.base = fi
    model.outer_kind = kind
    model.neighbour_iters = iters
    model.result_vars = rets
    model.other_expansions = [e for e, bb in bound if bb is None]
    model.neighbour_calls = ncalls
    model.subst = make_subst(repo, v)
    model.worklist_filters = []
    model.worklist_sources, model.worklist_inits = _worklist_sources(fn, wl_expr, outer, single, model.worklist_filters)

    # ---- hierarchy tests
    model.hier_calls = [c for c in ast.walk(fn) if isinstance(c, ast.Call) and isinstance(c.func, ast.Attribute) and c.func.attr == HIER and (in_outer(c) or niter_of(c) is not None)]
    if model.hier_calls:
        model.hier_atom = model.hier()[1]

    # ---- events
    sites = [s for s in _mutation_sites(fn, single, rets)]
    raw: list[tuple[_Site, ast.AST, ast.AST | None, NeighbourIter | None, Formula, str]] = []
    for s in sites:
        for elt, comp in s.elements:
            inner_it = niter_of(elt) or niter_of(s.node)
            inside_outer = in_outer(s.node) or in_outer(elt)
            if not inside_outer and inner_it is None:
                continue
            extra: list = []
            if comp is not None and not any(a is s.node for a in ancestors(elt)):
                # element of a comprehension bound to a local and added later: its filters hold for the element
                from core.cfg import expr_conditions

                extra += expr_conditions(elt)
                cs_ = all_conds(v, s.node) + extra
            else:
                cs_ = all_conds(v, elt)
            its = [i for i in iters if (_inside_body(elt, i.node) if i.gen is None else _inside_gen(elt, i.node, i.gen)) or (_inside_body(s.node, i.node) if i.gen is None else _inside_gen(s.node, i.node, i.gen))]
            for i in its:
                cs_ += i.extra
            g = conds_formula(cs_, model.subst)
            text = " and ".join(("" if pol else "not ") + norm(e) for e, pol in cs_) or "True"
            raw.append((s, elt, comp, inner_it, g, text))

    # ---- two-phase events: candidates collected inside the neighbour iteration into a local list and pushed / recorded by a
    #      later pass over that list (`W.extend(candidates)`, `for a, b in candidates if ..: R.append(..)`, `return [.. for a, b in
    #      candidates if ..]`): the event happens under both guards
    chained: list[tuple] = []
    consumed: set[int] = set()
    collectors: dict[str, list] = {}
    sinks = {worklist, "<return>"} | rets
    for s, elt, comp, it_, g, text in raw:
        if it_ is not None and s.receiver.isidentifier() and s.receiver not in sinks and s.receiver not in v.param_names and s.method in ("append", "add", "extend", "update", "+="):
            names = [x.id for x in elt.elts] if isinstance(elt, (ast.Tuple, ast.List)) and all(isinstance(x, ast.Name) for x in elt.elts) else [elt.id] if isinstance(elt, ast.Name) else None
            # a list that is rebound / emptied again between being filled and being consumed says nothing about what is consumed
            stores = sum(1 for n_ in ast.walk(fn) if isinstance(n_, ast.Name) and n_.id == s.receiver and isinstance(n_.ctx, (ast.Store, ast.Del)))
            shrunk = any(isinstance(n_, ast.Call) and isinstance(n_.func, ast.Attribute) and dotted(n_.func.value) == s.receiver and n_.func.attr in ("clear", "pop", "remove", "popleft", "discard", "sort", "reverse") for n_ in ast.walk(fn))
            if names and stores <= 1 and not shrunk:
                collectors.setdefault(s.receiver, []).append((names, it_, all_conds(v, elt) + it_.extra, elt))
    def collector_of(e: ast.AST) -> str | None:
        """the collector list an expression denotes, also through locals that are plain aliases of it (`imported = below`)"""
        e = strip(e)
        seen_ = 0
        while isinstance(e, ast.Name) and e.id not in collectors and e.id in single and e.id not in v.param_names and seen_ < 4:
            e = strip(single[e.id])
            seen_ += 1
        return e.id if isinstance(e, ast.Name) and e.id in collectors else None

    for s in sites:
        if s.receiver not in sinks:
            continue
        for elt, comp in s.elements:
            if niter_of(elt) is not None or niter_of(s.node) is not None:
                continue
            b_elt = strip(elt)
            if comp is None and collector_of(b_elt) is not None:
                b_elt = ast.Name(id=collector_of(b_elt), ctx=ast.Load())
                # the collected list is added as a whole
                for names, it_, ccs, c_elt in collectors[b_elt.id]:
                    cs_ = list(ccs) + all_conds(v, s.node)
                    g = conds_formula(cs_, model.subst)
                    text = " and ".join(("" if pol else "not ") + norm(e_) for e_, pol in cs_) or "True"
                    chained.append((s, c_elt, None, it_, g, text))
                    consumed.add(id(elt))
                continue
            # the loop / generator that feeds the element
            feeder = None
            for a in ancestors(elt):
                cands = [(a.target, a.iter)] if isinstance(a, (ast.For, ast.AsyncFor)) else [(g_.target, g_.iter) for g_ in a.generators] if isinstance(a, (*_COMPS, ast.DictComp)) else []
                for tgt, it_expr in cands:
                    src = collector_of(it_expr)
                    if src is not None:
                        feeder = (tgt, src)
                if feeder or isinstance(a, (ast.FunctionDef, ast.AsyncFunctionDef, ast.Lambda)):
                    break
            if feeder is None:
                continue
            tgt, lname = feeder
            tnames = [x.id for x in tgt.elts] if isinstance(tgt, (ast.Tuple, ast.List)) and all(isinstance(x, ast.Name) for x in tgt.elts) else [tgt.id] if isinstance(tgt, ast.Name) else None
            for names, it_, ccs, c_elt in collectors[lname]:
                if tnames is None or len(tnames) != len(names):
                    continue
                late = [(e_, pol) for e_, pol in all_conds(v, elt)]
                ren_elt = elt
                for old_, new_ in zip(tnames, names):
                    late = [(_renamed(e_, old_, f"{new_}\x00"), pol) for e_, pol in late]
                    ren_elt = _renamed(ren_elt, old_, f"{new_}\x00")
                for new_ in names:
                    late = [(_renamed(e_, f"{new_}\x00", new_), pol) for e_, pol in late]
                    ren_elt = _renamed(ren_elt, f"{new_}\x00", new_)
                cs_ = list(ccs) + late
                g = conds_formula(cs_, model.subst)
                text = " and ".join(("" if pol else "not ") + norm(e_) for e_, pol in cs_) or "True"
                chained.append((s, ren_elt, comp, it_, g, text))
                consumed.add(id(elt))
    raw = [r for r in raw if id(r[1]) not in consumed] + chained

    # visited sets: a set to which the current node / neighbour is added only if it is not in it yet
    nvars = {i.var for i in iters}
    visited_sets: list[str] = []
    for s, elt, comp, it_, g, text in raw:
        if s.method in ("add", "update", "+=") and isinstance(elt, ast.Name) and elt.id in ({popped} | nvars) and s.receiver != worklist:
            if implies(g, f_not(atom(f"{elt.id} in {s.receiver}"))) and f"{elt.id} in {s.receiver}" in atoms_of(g):
                if s.receiver not in visited_sets:
                    visited_sets.append(s.receiver)
    visited_sets.sort(key=lambda r: 0 if any(s.receiver == r and isinstance(elt, ast.Name) and elt.id == popped for s, elt, *_ in raw) else 1)
    model.visited_sets = visited_sets
    model.visited = visited_sets[0] if visited_sets else None

    for s, elt, comp, it_, g, text in raw:
        if s.receiver == worklist:
            k = "push"
        elif s.receiver in visited_sets:
            k = "mark"
        elif s.receiver in rets or s.receiver == "<return>":
            k = "record"
        else:
            continue
        model.events.append(Event(k, s.node, norm(elt), g, text, it_ is not None, elt, it_.var if it_ is not None else None, s.receiver, s.key))

    # ---- parameters and sets
    _classify_params(model, single)
    model.subtree_sites = _subtree_sites(model, single)
    model.node_maps = _node_maps(model)
    for st in model.subtree_sites:
        key = st.target if st.target is not None else norm(st.call)
        if st.param is not None and (st.assigned or st.target is None):
            model.submodule_sets.setdefault(key, st.param)
        elif st.collection is not None and st.target is not None and _keyed_by_object(st):
            model.subtree_maps.setdefault(st.target, st.collection)  # one sub-tree per object, not their union
        elif st.collection is not None and st.target is not None:
            model.accumulated_sets.setdefault(st.target, st.collection)
    for n in ast.walk(fn):
        tgt = val = None
        if isinstance(n, ast.Assign) and len(n.targets) == 1 and isinstance(n.targets[0], ast.Name):
            tgt, val = n.targets[0].id, n.value
        elif isinstance(n, ast.AnnAssign) and isinstance(n.target, ast.Name) and n.value is not None:
            tgt, val = n.target.id, n.value
        if tgt is not None:
            ids = _parent_ids(val, v.param_names + _object_vars(model), {k: x for k, x in single.items() if k != tgt})
            if ids is not None:
                model.parent_id_sets[tgt] = ids
    _loop_built_parent_ids(model, sites, single)
    if kind != "while":
        # `for n in reversed(list(own))`: the iterated set is itself the start set (not the expression it was computed by)
        wl_base = strip(wl_expr)
        if isinstance(wl_base, ast.Name) and (wl_base.id in model.submodule_sets or wl_base.id in model.accumulated_sets):
            model.worklist_sources = [wl_base.id]
    for n in ast.walk(fn):
        if isinstance(n, ast.Call) and isinstance(n.func, ast.Attribute) and n.func.attr in ("add", "remove", "discard") and len(n.args) == 1 and dotted(n.func.value):
            recv = dotted(n.func.value)
            if recv in model.submodule_sets or recv in model.accumulated_sets:
                model.set_ops.append(SetOp("add" if n.func.attr == "add" else "remove", recv, _node_expr_text(n.args[0], single), n, model.guard_of(n)))
        # `S -= {f.identifier for f in P if f.identifier_is_parent_module}` / `S.difference_update(..)`: one removal per element
        recv = removed = None
        if isinstance(n, ast.AugAssign) and isinstance(n.op, ast.Sub) and isinstance(n.target, ast.Name):
            recv, removed = n.target.id, [n.value]
        elif isinstance(n, ast.Call) and isinstance(n.func, ast.Attribute) and n.func.attr == "difference_update" and isinstance(n.func.value, ast.Name) and n.args and not n.keywords:
            recv, removed = n.func.value.id, list(n.args)
        elif isinstance(n, (ast.Assign, ast.AnnAssign)) and n.value is not None and isinstance(n.targets[0] if isinstance(n, ast.Assign) and len(n.targets) == 1 else getattr(n, "target", None), ast.Name):
            # `S = S - {..}` / `S = get_all_submodules_of(..) - {..}` / `S = S.difference(..)`
            removed = _subtrahends(n.value)
            recv = (n.targets[0] if isinstance(n, ast.Assign) else n.target).id if removed else None
        if recv is not None and (recv in model.submodule_sets or recv in model.accumulated_sets):
            for r_ in removed:
                if _is_empty_collection(r_):
                    continue
                r_ids = _parent_ids(r_, v.param_names, single)
                if r_ids is not None:
                    # the parent-module identifiers of a literal sequence of filter parameters
                    for p_ in r_ids:
                        model.set_ops.append(SetOp("remove", recv, f"{p_}.{NODE_ATTR}", n, f_and([model.guard_of(n), atom(f"bool({p_}.{PARENT_FLAG})")])))
                    continue
                for elt, comp in _iter_elements(r_, single):
                    if _is_empty_collection(elt):
                        continue
                    cs_ = all_conds(v, elt) + ([] if any(a is n for a in ancestors(elt)) else all_conds(v, n))
                    model.set_ops.append(SetOp("remove", recv, _node_expr_text(elt, single), n, conds_formula(cs_, model.subst)))

    # ---- role
    if fi.name == SUBMODULES:
        model.role = "submodules"
    elif model.accumulated_sets or (model.collection_params and not _starts_from_filter_nodes(model)):
        model.role = "other"
    else:
        # also the batched form: one walk from the subject's node for a whole collection of objects
        model.role = "explicit"
    _subject_object(model)
    return model


def _map_lookup(m: SearchModel, e: ast.AST) -> tuple[NodeMap, ast.AST] | None:
    """(node map D, looked-up node expression) for `D[x]` / `D.get(x)` / `D.get(x, <empty>)`."""
    e = strip(e)
    if isinstance(e, ast.Subscript) and isinstance(e.value, ast.Name) and e.value.id in m.node_maps and not isinstance(e.slice, ast.Slice):
        return m.node_maps[e.value.id], e.slice
    if isinstance(e, ast.Call) and isinstance(e.func, ast.Attribute) and e.func.attr == "get" and isinstance(e.func.value, ast.Name) and e.func.value.id in m.node_maps and e.args and not e.keywords:
        return m.node_maps[e.func.value.id], e.args[0]
    return None


def _keyed_by_object(st: SubtreeSite) -> bool:
    """The looked-up sub-tree is stored under its object: `{o: get_all_submodules_of(g, o) for o in P}` / `T[o] = get_all_submodules_of(g, o)`."""
    par = parent(st.call)
    if isinstance(par, ast.DictComp) and par.value is st.call and isinstance(par.key, ast.Name) and par.key.id == st.arg and not st.fills:
        return True
    if isinstance(par, ast.Assign) and par.value is st.call and len(par.targets) == 1 and isinstance(par.targets[0], ast.Subscript) and isinstance(par.targets[0].slice, ast.Name) and par.targets[0].slice.id == st.arg:
        return True
    return False


def _objects_loop(m: SearchModel, loop: ast.AST) -> tuple[str, str | None] | None:
    """(object variable, variable holding its sub-tree | None) for a loop over all objects of a search that answers for a collection
    of objects: `for o in P`, `for o in T` / `T.keys()`, `for o, tree in T.items()` (P the collection parameter, T a sub-tree map)."""
    if not isinstance(loop, (ast.For, ast.AsyncFor)):
        return None
    it = strip(loop.iter)
    how = None
    if isinstance(it, ast.Call) and isinstance(it.func, ast.Attribute) and it.func.attr in ("items", "keys") and not it.args and isinstance(it.func.value, ast.Name) and it.func.value.id in m.subtree_maps:
        how = it.func.attr
    elif isinstance(it, ast.Name) and (it.id in m.subtree_maps or it.id in m.collection_params):
        how = "keys"
    if how == "items" and isinstance(loop.target, ast.Tuple) and len(loop.target.elts) == 2 and all(isinstance(x, ast.Name) for x in loop.target.elts):
        return loop.target.elts[0].id, loop.target.elts[1].id
    if how == "keys" and isinstance(loop.target, ast.Name):
        return loop.target.id, None
    return None


def each_object(m: SearchModel, ev: Event) -> tuple[str, list[str], ast.AST] | None:
    """(object variable, texts of the sets that hold its sub-tree, the loop) when the event sits, inside the neighbour iteration,
    in a loop over all objects and is filed under the loop's object."""
    if not isinstance(ev.key, ast.Name):
        return None
    nv = ev.nvar or m.neighbour_var
    it = next((i for i in m.neighbour_iters if i.var == nv and i.gen is None and _inside_body(ev.call, i.node)), None)
    for a in ancestors(ev.call):
        if it is not None and a is it.node:
            break
        got = _objects_loop(m, a)
        if got is not None and got[0] == ev.key.id:
            k, tree = got
            sets = [f"{t}[{k}]" for t in m.subtree_maps] + ([tree] if tree else [])
            return k, sets, a
    return None


def _object_vars(m: SearchModel) -> list[str]:
    """Locals that hold an object of a search answering for a collection of objects: looked up in a node map (`o = D[n]`,
    `for o in D[n]`) or bound by a loop over all objects (`for o in P`, `for o, tree in T.items()`)."""
    out: list[str] = []
    for n in ast.walk(m.fi.node):
        tgt = val = None
        if isinstance(n, ast.Assign) and len(n.targets) == 1 and isinstance(n.targets[0], ast.Name):
            tgt, val = n.targets[0].id, n.value
        elif isinstance(n, (ast.For, ast.AsyncFor, ast.comprehension)) and isinstance(n.target, ast.Name):
            tgt, val = n.target.id, n.iter
        if tgt is not None and _map_lookup(m, val) is not None and tgt not in out and tgt not in m.fi.param_names:
            out.append(tgt)
        got = _objects_loop(m, n) if any(isinstance(a, (ast.For, ast.AsyncFor, ast.While)) for a in ancestors(n)) else None
        if got is not None and got[0] not in out and got[0] not in m.fi.param_names:
            out.append(got[0])
    return out


def filed_under(m: SearchModel, ev: Event) -> tuple[str | None, NodeMap | None, str]:
    """Which object a recorded pair is filed under, for a search that answers for a whole collection of objects at once:
    (variable holding the object, node map it was looked up in, how) with how =
      "lookup"  `o = D[neighbour]` / `R[D[neighbour]]`: the one object the map keeps for the node
      "loop"    `for o in D[neighbour]`: every object the map keeps for the node
      ""        not recognised"""
    if ev.key is None:
        return None, None, ""
    nv = ev.nvar or m.neighbour_var
    got = _map_lookup(m, ev.key)
    if got is not None:
        return None, got[0], "lookup" if norm(got[1]) == nv else ""
    if not isinstance(ev.key, ast.Name):
        return None, None, ""
    k = ev.key.id
    it = next((i for i in m.neighbour_iters if i.var == nv and i.gen is None and _inside_body(ev.call, i.node)), None)
    scope = it.node if it is not None else m.loop
    # a loop over the map entry that encloses the event
    for a in ancestors(ev.call):
        if a is scope:
            break
        if isinstance(a, (ast.For, ast.AsyncFor)) and isinstance(a.target, ast.Name) and a.target.id == k:
            got = _map_lookup(m, a.iter)
            return k, (got[0] if got else None), ("loop" if got and norm(got[1]) == nv else "")
    stores = [n for n in ast.walk(scope) if isinstance(n, ast.Name) and n.id == k and isinstance(n.ctx, ast.Store)]
    if len(stores) == 1 and isinstance(parent(stores[0]), ast.Assign) and len(parent(stores[0]).targets) == 1:
        st = parent(stores[0])
        got = _map_lookup(m, st.value)
        if got is not None and cfg_of(m.fi).dominates(st, stmt_of(ev.call)):
            return k, got[0], "lookup" if norm(got[1]) == nv else ""
    return k, None, ""


def _starts_from_filter_nodes(m: SearchModel) -> bool:
    """The worklist is seeded with the node(s) of single module-filter parameters (`[dependent.identifier]`), not with a node set."""
    return m.outer_kind == "while" and bool(m.worklist_sources) and all(any(s_ == f"{p}.{NODE_ATTR}" for p in m.filter_params) for s_ in m.worklist_sources)


def _mapping_annotation(ann: ast.AST) -> tuple[str, str] | None:
    """(key type, value type) as text for `Mapping[K, V]` / `dict[K, V]` / `Dict[K, V]` / `defaultdict[K, V]` (also Optional / quoted)."""
    if isinstance(ann, ast.Constant) and isinstance(ann.value, str):
        try:
            ann = ast.parse(ann.value, mode="eval").body
        except SyntaxError:
            return None
    if isinstance(ann, ast.BinOp) and isinstance(ann.op, ast.BitOr):
        return _mapping_annotation(ann.left) or _mapping_annotation(ann.right)
    if isinstance(ann, ast.Subscript) and norm(ann.value).split(".")[-1] == "Optional":
        return _mapping_annotation(ann.slice)
    if isinstance(ann, ast.Subscript) and norm(ann.value).split(".")[-1] in ("Mapping", "MutableMapping", "dict", "Dict", "defaultdict", "DefaultDict", "OrderedDict") and isinstance(ann.slice, ast.Tuple) and len(ann.slice.elts) == 2:
        return norm(ann.slice.elts[0]), norm(ann.slice.elts[1])
    return None


def _caller_built_map(m: SearchModel, param: str) -> bool | None:
    """How the callers of the search build the node -> object lookup they hand in for `param`: True = one object per node
    (`{n: o for o in objects for n in get_all_submodules_of(g, o)}`, `D[n] = o`), False = all of them (`D[n].append(o)`,
    `D.setdefault(n, []).append(o)`); None when no caller builds it in a way the model reads."""
    repo = m.fi.module.repo  # type: ignore[attr-defined]
    base = m.base or m.fi
    idx = base.param_names.index(param) if param in base.param_names else -1
    verdicts: list[bool] = []
    for mod in repo.modules.values():
        for f in mod.all_funcs:
            if isinstance(f.node, ast.Lambda):
                continue
            for c in own_nodes(f.node):
                if not (isinstance(c, ast.Call) and dotted(c.func).split(".")[-1] == base.name):
                    continue
                arg = next((k.value for k in c.keywords if k.arg == param), c.args[idx] if 0 <= idx < len(c.args) else None)
                if not isinstance(arg, (ast.Name, ast.DictComp)):
                    return None
                comp = arg
                if isinstance(arg, ast.Name):
                    vals = [n.value for n in own_nodes(f.node) if isinstance(n, ast.Assign) and len(n.targets) == 1 and isinstance(n.targets[0], ast.Name) and n.targets[0].id == arg.id] + [n.value for n in own_nodes(f.node) if isinstance(n, ast.AnnAssign) and isinstance(n.target, ast.Name) and n.target.id == arg.id and n.value is not None]
                    if len(vals) != 1:
                        return None
                    comp = vals[0]
                    writes = [n for n in own_nodes(f.node) if isinstance(n, ast.Subscript) and isinstance(n.value, ast.Name) and n.value.id == arg.id]
                    if not isinstance(comp, ast.DictComp):
                        # built by statements: `D[n] = o` (one object) vs `D[n].append(o)` / `D.setdefault(n, []).append(o)` (all of them)
                        stores = [w for w in writes if isinstance(w.ctx, ast.Store)]
                        appends = [n for n in own_nodes(f.node) if isinstance(n, ast.Call) and isinstance(n.func, ast.Attribute) and n.func.attr in ("append", "add") and _receiver_of(n.func.value)[0] == arg.id and _receiver_of(n.func.value)[1] is not None]
                        if stores and not appends and all(isinstance(parent(w), ast.Assign) and isinstance(parent(w).value, ast.Name) for w in stores):
                            verdicts.append(True)
                            continue
                        if appends and not stores:
                            verdicts.append(False)
                            continue
                        return None
                    if any(isinstance(w.ctx, (ast.Store, ast.Del)) for w in writes):
                        return None
                if not isinstance(comp, ast.DictComp) or not any(isinstance(x, ast.Call) and isinstance(x.func, ast.Name) and x.func.id == SUBMODULES for g in comp.generators for x in ast.walk(g.iter)):
                    return None
                # {node: o ..}: one object per node unless the value collects
                verdicts.append(isinstance(comp.value, ast.Name))
    if not verdicts or len(set(verdicts)) != 1:
        return None
    return verdicts[0]


def _node_maps(m: SearchModel) -> dict[str, NodeMap]:
    out: dict[str, NodeMap] = {}
    fn = m.fi.node
    for st in m.subtree_sites:
        if st.param is None and st.collection is None:
            continue
        par = parent(st.call)
        tvar = None
        body: list[ast.AST] = []
        if isinstance(par, (ast.For, ast.AsyncFor)) and par.iter is st.call and isinstance(par.target, ast.Name):
            tvar, body = par.target.id, list(par.body)
        elif isinstance(par, ast.comprehension) and par.iter is st.call and isinstance(par.target, ast.Name) and isinstance(parent(par), ast.DictComp):
            dc = parent(par)
            if isinstance(dc.key, ast.Name) and dc.key.id == par.target.id and isinstance(dc.value, ast.Name) and dc.value.id == st.arg:
                recv, _ = _receiving_var(dc)
                if recv is not None:
                    out[recv] = NodeMap(recv, st.collection, st.param, True, dc)
            continue
        if tvar is None:
            continue
        for b in body:
            for n in ast.walk(b):
                if isinstance(n, ast.Assign) and len(n.targets) == 1 and isinstance(n.targets[0], ast.Subscript) and isinstance(n.targets[0].value, ast.Name) and isinstance(n.targets[0].slice, ast.Name) and n.targets[0].slice.id == tvar and isinstance(n.value, ast.Name) and n.value.id == st.arg:
                    out[n.targets[0].value.id] = NodeMap(n.targets[0].value.id, st.collection, st.param, True, n)
                elif isinstance(n, ast.Call) and isinstance(n.func, ast.Attribute) and n.func.attr in ("append", "add") and len(n.args) == 1 and isinstance(n.args[0], ast.Name) and n.args[0].id == st.arg:
                    recv, key = _receiver_of(n.func.value)
                    if recv and isinstance(key, ast.Name) and key.id == tvar:
                        out[recv] = NodeMap(recv, st.collection, st.param, False, n)
    # a lookup built by the caller and handed in: `objects_by_node: Mapping[AbstractNode, ModuleFilter]`
    for a in m.fi.params:
        if a.arg in out or a.arg == m.graph or a.annotation is None:
            continue
        got = _mapping_annotation(a.annotation)
        if got is None or "ModuleFilter" not in got[1]:
            continue
        single = not any(t in got[1] for t in ("[", "list", "set", "tuple", "Sequence", "Iterable", "Collection"))
        built = _caller_built_map(m, a.arg)
        if built is not None:
            single = built
        out[a.arg] = NodeMap(a.arg, a.arg, None, single, a)
        out[a.arg].from_caller = built is not None  # type: ignore[attr-defined]
    # a map is only what the model says when nothing else writes to it
    for name in list(out):
        nm = out[name]
        for n in ast.walk(fn):
            writes = (isinstance(n, ast.Subscript) and isinstance(n.value, ast.Name) and n.value.id == name and isinstance(n.ctx, (ast.Store, ast.Del))) or (isinstance(n, ast.Call) and isinstance(n.func, ast.Attribute) and isinstance(n.func.value, ast.Name) and n.func.value.id == name and n.func.attr in ("update", "pop", "popitem", "clear", "setdefault", "__setitem__"))
            if writes and not any(a is nm.store or a is stmt_of(nm.store) for a in [n, *ancestors(n)]):
                out.pop(name, None)
                break
    return out


def _subtrahends(value: ast.AST) -> list[ast.AST]:
    """[E..] for `X - E`, `X.difference(E, ..)`, also nested (`X - E1 - E2`) and wrapped (`set(X - E)`)."""
    v = strip(value)
    if isinstance(v, ast.BinOp) and isinstance(v.op, ast.Sub):
        return _subtrahends(v.left) + [v.right]
    if isinstance(v, ast.Call) and isinstance(v.func, ast.Attribute) and v.func.attr == "difference" and v.args and not v.keywords:
        return _subtrahends(v.func.value) + list(v.args)
    return []


def _is_empty_collection(e: ast.AST) -> bool:
    e = strip(e)
    if isinstance(e, (ast.List, ast.Tuple)) and not e.elts:
        return True
    return isinstance(e, ast.Call) and isinstance(e.func, ast.Name) and e.func.id in ("set", "list", "frozenset", "tuple") and not e.args and not e.keywords


def _loop_built_parent_ids(m: SearchModel, sites: list, single: dict[str, ast.expr]) -> None:
    """`x = []` followed by `x.append(f.identifier)` exactly when `f.identifier_is_parent_module`, for f over a literal sequence of
    filter parameters (loop or unrolled): x holds the parent-module identifiers of those parameters."""
    from core.guards import equivalent

    fn = m.fi.node
    params = m.fi.param_names
    by_recv: dict[str, list] = {}
    for s_ in sites:
        by_recv.setdefault(s_.receiver, []).append(s_)
    shrinking = {dotted(n.func.value) for n in ast.walk(fn) if isinstance(n, ast.Call) and isinstance(n.func, ast.Attribute) and n.func.attr in ("remove", "discard", "clear", "pop", "difference_update")}
    for x, ss in by_recv.items():
        if x in m.parent_id_sets or x in shrinking or not x.isidentifier() or x in params:
            continue
        inits = [n for n in ast.walk(fn) if (isinstance(n, ast.Assign) and len(n.targets) == 1 and isinstance(n.targets[0], ast.Name) and n.targets[0].id == x) or (isinstance(n, ast.AnnAssign) and isinstance(n.target, ast.Name) and n.target.id == x and n.value is not None)]
        if len(inits) != 1 or not _is_empty_collection(inits[0].value):
            continue
        ids: list[str] = []
        ok = True
        for s_ in ss:
            for elt, comp in s_.elements:
                t = dotted(elt.value) if isinstance(elt, ast.Attribute) and elt.attr == NODE_ATTR else dotted(elt.args[0]) if isinstance(elt, ast.Call) and isinstance(elt.func, ast.Name) and elt.func.id == "get_node" and len(elt.args) == 1 else ""
                if not t:
                    ok = False
                    continue
                if t in params:
                    ps, outer_g = [t], None
                else:
                    bl = _binding_loop(t, elt)
                    ps = _param_seq(bl[1], params, single) if bl is not None else None
                    outer_g = m.guard_of(bl[0] if isinstance(bl[0], ast.stmt) else stmt_of(bl[0])) if bl is not None else None
                if not ps:
                    ok = False
                    continue
                g = m.guard_of(elt)
                flag = atom(f"bool({t}.{PARENT_FLAG})")
                not_none = f_not(atom(f"{t}.{NODE_ATTR} is None"))
                want = f_and([outer_g, flag]) if outer_g is not None else flag
                if not equivalent(g, want, not_none):
                    ok = False
                ids += [p_ for p_ in ps if p_ not in ids]
        if ok and ids:
            m.parent_id_sets[x] = ids


def _classify_params(m: SearchModel, single: dict[str, ast.expr]) -> None:
    fn = m.fi.node
    params = m.fi.param_names
    coll: list[str] = []
    filt: list[str] = []
    for n in ast.walk(fn):
        it = None
        if isinstance(n, (ast.For, ast.AsyncFor)):
            it = n.iter
        elif isinstance(n, ast.comprehension):
            it = n.iter
        if it is not None:
            got = _collection_of(it, params, single)
            if got is not None and got[0] not in coll and got[0] != m.graph:
                coll.append(got[0])
        if isinstance(n, ast.Attribute) and n.attr in (NODE_ATTR, PARENT_FLAG) and isinstance(n.value, ast.Name) and n.value.id in params and n.value.id not in filt:
            filt.append(n.value.id)
        if isinstance(n, ast.Call) and isinstance(n.func, ast.Name) and n.func.id == SUBMODULES and len(n.args) == 2 and isinstance(n.args[1], ast.Name) and n.args[1].id in params and n.args[1].id not in filt:
            filt.append(n.args[1].id)
    # annotations decide for parameters the body does not use in a telling way (only parameters that carry module filters)
    for a in m.fi.params:
        if a.arg in coll or a.arg in filt or a.arg == m.graph or a.annotation is None:
            continue
        t = norm(a.annotation)
        if "ModuleFilter" not in t:
            continue
        if "[" in t:
            coll.append(a.arg)
        else:
            filt.append(a.arg)
    m.collection_params = [p for p in params if p in coll and p not in filt]
    m.filter_params = [p for p in params if p in filt]


def _subject_object(m: SearchModel) -> None:
    if m.role == "other":
        m.subject_param = m.filter_params[0] if len(m.filter_params) == 1 else None
        m.object_param = m.collection_params[0] if len(m.collection_params) == 1 else None
    elif m.role == "explicit":
        seeds = [p for p in m.filter_params if any(s == f"{p}.{NODE_ATTR}" or s == p for s in m.worklist_sources)]
        if len(seeds) == 1:
            m.subject_param = seeds[0]
            rest = [p for p in m.filter_params if p != seeds[0]]
            m.object_param = rest[0] if len(rest) == 1 else m.collection_params[0] if not rest and len(m.collection_params) == 1 else None
    else:
        m.subject_param = m.filter_params[0] if len(m.filter_params) == 1 else None


def search_functions(repo: Repo) -> list[FuncInfo]:
    """Public module-level functions of the search module (private helpers are reached through the inline views)."""
    mod = repo.module(SEARCHES)
    return [f for f in mod.all_funcs if f.cls is None and f.outer is None and not isinstance(f.node, ast.Lambda) and not f.name.startswith("_")]


def models(repo: Repo) -> list[SearchModel]:
    cache = repo.__dict__.setdefault("_search_models", None)
    if cache is not None:
        return cache
    out = []
    covered: set[str] = set()
    repo.__dict__["_search_findings"] = []
    for fi in search_functions(repo):
        m = build(repo, fi)
        if m is not None:
            out.append(m)
            covered |= set(getattr(m.fi, "inlined", []))
    covered |= {m.base.fq for m in out}
    # a private function that walks the graph but could not be substituted into a public search is outside the model
    for f in repo.module(SEARCHES).all_funcs:
        if f.fq not in covered and f.cls is None and not isinstance(f.node, ast.Lambda) and f.outer is None and _expansions(f.node) and f.name.startswith("_"):
            raise AnalysisError(f"{f.fq}: expands graph neighbours but is not substitutable into a public search function (generator, recursion or unresolved call): search idiom not modelled")
    roles = sorted((m.role, m.direction) for m in out)
    need = [("explicit", "succ"), ("other", "pred"), ("other", "succ"), ("submodules", "succ")]
    if any(f.fi.name == SUBMODULES for f in repo.__dict__.get("_search_findings", [])):
        need.remove(("submodules", "succ"))  # not a walk at all: reported as a violation by run_search
    missing = [r for r in need if r not in roles]
    if missing:
        raise AnalysisError(f"graph searches in {SEARCHES}: found {roles}, missing {missing} (expected the explicit search, the forward and the backward 'other' search and the sub-module search)")
    repo.__dict__["_search_models"] = out
    return out


# --------------------------------------------------------------------------- queries used by the rules


def record_pair(model: SearchModel, ev: Event) -> tuple[str, str] | None:
    """(first, second) node variable of a recorded pair: the first two-element list / tuple whose elements each mention exactly
    one of the current node and the neighbour (`tuple(to_modules([a, b]))`, `(Module(identifier=a), Module(identifier=b))`)."""
    e = ev.elt if ev.elt is not None else (ev.call.args[0] if isinstance(ev.call, ast.Call) and ev.call.args else None)
    if e is None:
        return None
    nv = ev.nvar or model.neighbour_var
    want = {model.popped, nv}
    single = _single_assignments(model.fi.node)

    def expand(x: ast.AST, depth: int = 0) -> ast.AST:
        """locals bound once (`pair = (..)`, temporaries of substituted helpers) are replaced by their value"""
        if depth > 4:
            return x

        class Tr(ast.NodeTransformer):
            def visit_Name(self, n: ast.Name):  # noqa: N802
                if isinstance(n.ctx, ast.Load) and n.id in single and n.id not in want and n.id not in model.fi.param_names:
                    return expand(_clone(single[n.id]), depth + 1)
                return n

            def visit_Lambda(self, n):  # noqa: N802
                return n

        return Tr().visit(_clone(x))

    todo = [expand(e)]
    while todo:
        n = todo.pop(0)
        if isinstance(n, ast.Call) and isinstance(n.func, ast.Name) and not n.keywords and len(n.args) >= 2:
            got = _pair_through_helper(model, n, want)
            if got is not None:
                return got
        if isinstance(n, (ast.List, ast.Tuple)) and len(n.elts) == 2:
            ms = []
            for x in n.elts:
                names = {y.id for y in ast.walk(x) if isinstance(y, ast.Name) and isinstance(y.ctx, ast.Load)} & want
                ms.append(next(iter(names)) if len(names) == 1 else None)
            if ms[0] and ms[1] and ms[0] != ms[1]:
                return ms[0], ms[1]
        if isinstance(n, ast.Lambda):
            continue
        todo.extend(ast.iter_child_nodes(n))
    return None


def _pair_through_helper(model: SearchModel, call: ast.Call, want: set[str]) -> tuple[str, str] | None:
    """`helper(a, b)` where the helper returns a pair built from its parameters: the pair in terms of the arguments."""
    repo = model.fi.module.repo  # type: ignore[attr-defined]
    src = getattr(call, "_src", None)
    mod = src[0].module if src is not None else model.fi.module
    f = mod.functions.get(call.func.id)
    if f is None:
        fq = repo.resolve_name(mod, call.func)
        if fq:
            m2, _, attr = fq.rpartition(".")
            om = repo.modules.get(m2)
            f = om.functions.get(attr) if om is not None else None
    if f is None or isinstance(f.node, ast.Lambda) or len(f.param_names) < len(call.args):
        return None
    arg_of: dict[str, str] = {}
    for p_, a in zip(f.param_names, call.args):
        names = {y.id for y in ast.walk(a) if isinstance(y, ast.Name)} & want
        if len(names) == 1:
            arg_of[p_] = next(iter(names))
    if len(set(arg_of.values())) != 2:
        return None
    hv = search_view(repo, f)
    single = _single_assignments(hv.node)

    def expand(e: ast.AST, depth: int = 0) -> ast.AST:
        if depth > 3:
            return e

        class Tr(ast.NodeTransformer):
            def visit_Name(self, n: ast.Name):  # noqa: N802
                if isinstance(n.ctx, ast.Load) and n.id in single and n.id not in arg_of:
                    return expand(_clone(single[n.id]), depth + 1)
                return n

            def visit_Lambda(self, n):  # noqa: N802
                return n

        return Tr().visit(_clone(e))

    for r in own_nodes(hv.node):
        if isinstance(r, ast.Return) and r.value is not None:
            todo = [expand(r.value)]
            while todo:
                n = todo.pop(0)
                if isinstance(n, (ast.List, ast.Tuple)) and len(n.elts) == 2:
                    ms = []
                    for x in n.elts:
                        names = {y.id for y in ast.walk(x) if isinstance(y, ast.Name) and isinstance(y.ctx, ast.Load)} & set(arg_of)
                        ms.append(next(iter(names)) if len(names) == 1 else None)
                    if ms[0] and ms[1] and ms[0] != ms[1]:
                        return arg_of[ms[0]], arg_of[ms[1]]
                if isinstance(n, ast.Lambda):
                    continue
                todo.extend(ast.iter_child_nodes(n))
    return None


def opaque_set(m: SearchModel, name: str) -> bool:
    """The model cannot see how the node set `name` is made (a parameter, or the result of a call it cannot look into); a set
    built from literals, comprehensions or known constructors is transparent - and then known not to be a sub-tree set."""
    if not name.isidentifier() or name in m.fi.param_names:
        return True
    vals = []
    for n in ast.walk(m.fi.node):
        if isinstance(n, ast.Assign) and any(isinstance(t, ast.Name) and t.id == name for t in n.targets):
            vals.append(n.value)
        elif isinstance(n, ast.AnnAssign) and isinstance(n.target, ast.Name) and n.target.id == name and n.value is not None:
            vals.append(n.value)
    if not vals:
        return True
    for n in ast.walk(m.fi.node):
        # built up by statements the model did not recognise as one of its known constructions
        if isinstance(n, ast.Call) and isinstance(n.func, ast.Attribute) and dotted(n.func.value) == name and n.func.attr in ("add", "append", "update", "extend", "remove", "discard", "difference_update", "intersection_update", "clear", "pop"):
            return True
        if isinstance(n, ast.AugAssign) and dotted(n.target) == name:
            return True
    for v in vals:
        for c in ast.walk(v):
            if isinstance(c, ast.Call):
                if isinstance(c.func, ast.Name) and c.func.id in (_WRAPPERS | {SUBMODULES, "dict", "len", "map", "filter", "get_node"}):
                    continue
                if isinstance(c.func, ast.Attribute) and c.func.attr in ("copy", "union", "difference", "intersection", "keys", "values", "items"):
                    continue
                return True
    return False


# --------------------------------------------------------------------------- where the elements of a node collection come from


_PURE_BUILTINS = _WRAPPERS | {"len", "range", "enumerate", "zip", "str", "map", "filter", "min", "max", "any", "all", "isinstance", "dict", "deque", "chain", "get_node", "bool", "int", "next", "sum"}
_STR_METHODS = _NAME_METHODS | {"join", "strip", "lstrip", "rstrip", "lower", "upper", "format", "replace", "splitlines", "isidentifier", "keys", "values", "items", "get", "copy", "union", "difference", "intersection", "append", "add", "extend", "update", "insert", "pop"}


def provenance(m: SearchModel, e: ast.AST, stop: set[str] | None = None) -> set[str]:
    """Leaves the value of a node-collection expression is computed from, following the local definitions, mutations and loop
    bindings of the names it mentions: "filter:<p>" (identifier / parent flag of a module-filter parameter), "const",
    "subtree" (a get_all_submodules_of call), "graph" (any use of the graph), "param:<x>" (another parameter as a whole),
    "call:<f>" (a call the view could not look into), "derived" (a string operation - slicing, splitting, joining, formatting -
    is involved), "known:<s>" (one of the sets named in `stop`, not followed further).  A set whose leaves are only filters, constants and string operations is computed from *names alone*."""
    fn = m.fi.node
    params = set(m.fi.param_names)
    out: set[str] = set()
    seen: set[str] = set()

    defs: dict[str, list[ast.AST]] = {}
    for n in ast.walk(fn):
        if isinstance(n, ast.Assign):
            for t in n.targets:
                for x in ast.walk(t):
                    if isinstance(x, ast.Name):
                        defs.setdefault(x.id, []).append(n.value)
        elif isinstance(n, (ast.AnnAssign, ast.AugAssign)) and n.value is not None and isinstance(n.target, ast.Name):
            defs.setdefault(n.target.id, []).append(n.value)
        elif isinstance(n, ast.NamedExpr):
            defs.setdefault(n.target.id, []).append(n.value)
        elif isinstance(n, (ast.For, ast.AsyncFor, ast.comprehension)):
            for x in ast.walk(n.target):
                if isinstance(x, ast.Name):
                    defs.setdefault(x.id, []).append(n.iter)
        elif isinstance(n, ast.Call) and isinstance(n.func, ast.Attribute) and isinstance(n.func.value, ast.Name) and n.func.attr in (_GROW | {"setdefault"}):
            for a in n.args:
                defs.setdefault(n.func.value.id, []).append(a)
        elif isinstance(n, ast.withitem) and n.optional_vars is not None:
            for x in ast.walk(n.optional_vars):
                if isinstance(x, ast.Name):
                    defs.setdefault(x.id, []).append(n.context_expr)

    def visit(x: ast.AST) -> None:
        if isinstance(x, ast.Constant):
            out.add("const")
            return
        if isinstance(x, ast.Attribute) and isinstance(x.value, ast.Name) and x.value.id in params and x.attr in (NODE_ATTR, PARENT_FLAG, "identifier_is_regex"):
            out.add(f"filter:{x.value.id}")
            return
        if isinstance(x, ast.Name):
            if stop and x.id in stop:
                out.add(f"known:{x.id}")  # a set the caller knows: what it is made of is not this expression's business
            elif x.id == m.graph:
                out.add("graph")
            elif x.id in params:
                out.add(f"filter:{x.id}" if x.id in m.filter_params or x.id in m.collection_params else f"param:{x.id}")
            elif x.id in defs:
                if x.id not in seen:
                    seen.add(x.id)
                    for d in defs[x.id]:
                        visit(d)
            elif x.id not in _PURE_BUILTINS and not isinstance(x.ctx, ast.Store):
                out.add("const")  # a module-level constant
            return
        if isinstance(x, ast.Call):
            if isinstance(x.func, ast.Name) and x.func.id == SUBMODULES:
                out.add("subtree")
                return
            if isinstance(x.func, ast.Attribute) and x.func.attr in (SUCC, PRED, HIER):
                out.add("graph")
                return
            if isinstance(x.func, ast.Name):
                # a class of the library (Module(identifier=..)) only wraps its arguments; any other unknown call is opaque
                if x.func.id in defs:
                    visit(x.func)
                elif x.func.id not in _PURE_BUILTINS and not x.func.id[:1].isupper():
                    out.add(f"call:{x.func.id}")
            elif isinstance(x.func, ast.Attribute):
                if x.func.attr not in _STR_METHODS:
                    out.add(f"call:{norm(x.func)}")
                elif x.func.attr in (_NAME_METHODS | {"join", "format", "replace"}):
                    out.add("derived")
                visit(x.func.value)
            else:
                visit(x.func)
            for a in x.args:
                visit(a)
            for k in x.keywords:
                visit(k.value)
            return
        if isinstance(x, ast.Lambda):
            visit(x.body)
            return
        if isinstance(x, ast.JoinedStr) or (isinstance(x, ast.Subscript) and isinstance(x.slice, ast.Slice)) or (isinstance(x, ast.BinOp) and isinstance(x.op, (ast.Add, ast.Mod))):
            out.add("derived")
        for c in ast.iter_child_nodes(x):
            if isinstance(c, (ast.expr, ast.comprehension, ast.keyword)):
                visit(c)

    visit(e)
    return out


def names_only(prov: set[str]) -> bool:
    """Computed from the names of the module filters by string operations - and from nothing else (not the filters' own nodes
    as they are, not anything looked up in the graph)."""
    return "derived" in prov and all(x in ("const", "derived") or x.startswith("filter:") for x in prov) and any(x.startswith("filter:") for x in prov)


# --------------------------------------------------------------------------- early exits


@dataclass
class EarlyExit:
    loop_kind: str  # neighbour | outer
    loop: ast.AST
    stmt: ast.stmt  # ast.Break | ast.Return
    guard: Formula
    guard_text: str
    anchor: ast.AST  # statement naming the exit in construct keys (the enclosing `if`, else the exit itself)


def _exits_of(loop: ast.AST, skip: list[ast.AST]) -> list[ast.stmt]:
    """`break` statements that leave `loop` and `return` statements inside its body (not those inside the loops in `skip`)."""
    out: list[ast.stmt] = []

    def walk(stmts: list[ast.stmt], nested: bool) -> None:
        for st in stmts:
            if any(st is x for x in skip) or isinstance(st, (ast.FunctionDef, ast.AsyncFunctionDef, ast.ClassDef)):
                continue
            if isinstance(st, ast.Break) and not nested:
                out.append(st)
            elif isinstance(st, ast.Return):
                out.append(st)
            inner = nested or isinstance(st, (ast.For, ast.AsyncFor, ast.While))
            for fld in ("body", "orelse", "finalbody"):
                blk = getattr(st, fld, None)
                if isinstance(blk, list) and blk and isinstance(blk[0], ast.stmt):
                    # the else of a loop runs after the loop: a break there leaves the enclosing loop
                    walk(blk, inner if fld == "body" else nested)
            if isinstance(st, ast.Try):
                for h in st.handlers:
                    walk(h.body, nested)
            if isinstance(st, ast.Match):
                for c in st.cases:
                    walk(c.body, nested)

    walk(loop.body, False)
    return out


def early_exits(m: SearchModel) -> list[EarlyExit]:
    """Exits that leave the neighbour iteration or the node loop before all neighbours / all worklist nodes were examined.
    `continue`, guard clauses and `raise` are not exits in this sense; `while True: if not W: break` (the worklist is empty) is
    the loop's regular end."""
    out: list[EarlyExit] = []
    nloops = [i.node for i in m.neighbour_iters if i.gen is None]

    def mk(kind: str, loop: ast.AST, st: ast.stmt) -> EarlyExit:
        cs_ = all_conds(m.fi, st)
        par = parent(st)
        anchor = par if isinstance(par, ast.If) and len(par.body if any(x is st for x in par.body) else par.orelse) == 1 else st
        return EarlyExit(kind, loop, st, conds_formula(cs_, m.subst), " and ".join(("" if pol else "not ") + norm(e) for e, pol in cs_) or "True", anchor)

    for nl in nloops:
        out += [mk("neighbour", nl, st) for st in _exits_of(nl, [])]
    if m.outer_kind in ("while", "for") and isinstance(m.loop, (ast.While, ast.For, ast.AsyncFor)):
        for st in _exits_of(m.loop, nloops):
            ee = mk("outer", m.loop, st)
            if isinstance(st, ast.Break) and implies(ee.guard, f_not(atom(f"bool({m.worklist})"))) and f"bool({m.worklist})" in atoms_of(ee.guard):
                continue  # regular end of a `while True` worklist loop
            out.append(ee)
    return out


# --------------------------------------------------------------------------- raising lookups (C13.R6)


@dataclass
class LookupFact:
    model: SearchModel
    param: str
    ok: bool
    detail: str
    how: str  # subtree | elements | first-iteration | none


def _loop_has_escape(loop: ast.AST) -> bool:
    """break / return inside a statement loop: later elements can be skipped."""
    if not isinstance(loop, (ast.For, ast.AsyncFor, ast.While)):
        return False
    for s in loop.body:
        for n in ast.walk(s):
            if isinstance(n, (ast.Break, ast.Return)):
                return True
    return False


def _unconditional_in_stmt(node: ast.AST) -> bool:
    from core.cfg import expr_conditions

    return not expr_conditions(node)


def control_conditions(fn: ast.AST, node: ast.AST) -> list:
    """[(test, polarity)] under which `node` is *reached*: enclosing branch tests and the negations of earlier early exits of
    the enclosing blocks, each meant at the moment it was evaluated (unlike the path conditions of core/cfg.py nothing is
    dropped when a tested set is mutated later: `if n in seen: continue; seen.add(n); expand(n)` is reached under `n not in seen`)."""
    from core.cfg import always_exits, expr_conditions

    st = stmt_of(node)
    out: list = list(expr_conditions(node))
    cur: ast.AST | None = st
    while cur is not None and cur is not fn:
        par = parent(cur)
        if par is None:
            break
        for fld in ("body", "orelse", "finalbody"):
            blk = getattr(par, fld, None)
            if isinstance(blk, list) and any(x is cur for x in blk):
                for prev in blk:
                    if prev is cur:
                        break
                    if isinstance(prev, ast.If):
                        if always_exits(prev.body):
                            out.append((prev.test, False))
                        if prev.orelse and always_exits(prev.orelse):
                            out.append((prev.test, True))
                if isinstance(par, ast.If):
                    out.append((par.test, fld == "body"))
                elif isinstance(par, ast.While) and fld == "body":
                    out.append((par.test, True))
        cur = par
    return out


def first_iteration_lookup(m: SearchModel, p: str) -> tuple[bool, str]:
    """The node of filter parameter `p` is in the initial worklist and the first iteration hands it to the raising accessor:
    unconditional, non-empty initialisation `W = [.., p.identifier, ..]`; nothing but the visited test (on sets that start
    empty) and the worklist test guards the neighbour lookup; the loop is on every path to the normal exit."""
    from core.cfg import EXIT

    v = m.fi
    cfg = cfg_of(v)
    node_text = f"{p}.{NODE_ATTR}"
    if m.outer_kind == "comp":
        return False, "the node loop is a comprehension"
    if len(m.worklist_inits) != 1:
        return False, f"the worklist `{m.worklist}` is initialised {len(m.worklist_inits)} times"
    init = m.worklist_inits[0]
    val = strip(init.value)
    if isinstance(val, ast.Call) and isinstance(val.func, ast.Name) and val.func.id == "deque" and val.args:
        val = strip(val.args[0])
    single = _single_assignments(v.node)
    if isinstance(val, ast.Name) and val.id in single and val.id not in v.param_names and isinstance(strip(single[val.id]), (ast.List, ast.Tuple)) and cfg.dominates(stmt_of(single[val.id]), init) and len(_mutation_positions(v.node).get(val.id, [])) <= 1:
        val = strip(single[val.id])  # `start_nodes = [node]` .. `W = list(start_nodes)`
    if not (isinstance(val, (ast.List, ast.Tuple)) and val.elts and not any(isinstance(x, ast.Starred) for x in val.elts)):
        return False, f"the worklist starts as `{norm(init.value)}`, not as a non-empty literal list"
    if node_text not in [_node_expr_text(x, single) for x in val.elts]:
        return False, f"the node of `{p}` is not in the initial worklist `{norm(init.value)}`"
    if not cfg.dominates(init, m.loop):
        return False, "the worklist initialisation is conditional"
    # the worklist is not touched between its initialisation and the loop
    for n in ast.walk(v.node):
        if isinstance(n, ast.Call) and isinstance(n.func, ast.Attribute) and dotted(n.func.value) == m.worklist and n.func.attr in ("pop", "clear", "remove", "popleft") and not any(a is m.loop for a in ancestors(n)):
            return False, f"`{norm(n)}` empties the worklist before the loop"
    if not cfg.dominates(m.loop, EXIT):
        return False, "a path returns without entering the search loop"
    # conditions inside the loop under which the neighbour lookup is reached (as evaluated in the first iteration)
    inner = [(e, pol) for e, pol in control_conditions(v.node, m.neighbour_call) if any(a is m.loop for a in ancestors(e)) or e is getattr(m.loop, "test", None)]
    g = conds_formula(inner, m.subst)
    assume = [f_not(atom(f"{m.popped} is None"))]  # graph nodes are names, never None
    if isinstance(m.loop, ast.While):
        assume.append(atom(f"bool({m.worklist})"))  # the literal initial worklist is not empty
    for a in sorted(atoms_of(g)):
        for vs in m.visited_sets:
            if a == f"{m.popped} in {vs}":
                inits = [n for n in ast.walk(v.node) if (isinstance(n, ast.Assign) and any(isinstance(t, ast.Name) and t.id == vs for t in n.targets)) or (isinstance(n, ast.AnnAssign) and isinstance(n.target, ast.Name) and n.target.id == vs and n.value is not None)]
                empty = len(inits) == 1 and isinstance(inits[0].value, ast.Call) and isinstance(inits[0].value.func, ast.Name) and inits[0].value.func.id in ("set", "list", "frozenset") and not inits[0].value.args and not inits[0].value.keywords
                if not empty:
                    return False, f"the visited set `{vs}` does not start empty: the start node may be skipped"
                assume.append(f_not(atom(a)))
    if not implies(f_and(assume), g):
        return False, f"the neighbour lookup of the first node is guarded by `{show(g)}`"
    if not _unconditional_in_stmt(m.neighbour_call):
        return False, "the neighbour lookup sits in a short-circuit / conditional expression"
    return True, f"the node of `{p}` is expanded by the raising accessor in the first iteration"


def lookup_facts(repo: Repo) -> list[LookupFact]:
    """For every search and every module-filter parameter: does every named module reach a raising graph lookup
    (`get_all_submodules_of`, or the neighbour accessor in the first iteration) on every path to the normal exit?"""
    from core.cfg import EXIT

    out: list[LookupFact] = []
    for m in models(repo):
        v = m.fi
        cfg = cfg_of(v)
        for p in v.param_names:
            if p == m.graph or (p not in m.filter_params and p not in m.collection_params):
                continue
            if p in m.node_maps and m.node_maps[p].collection == p:
                # a node -> object lookup handed in: its keys were looked up by whoever built it
                if getattr(m.node_maps[p], "from_caller", False):
                    out.append(LookupFact(m, p, True, f"`{p}` is built by the caller from {SUBMODULES}(graph, object) for every object (raising for an unknown module)", "elements"))
                continue
            if p in m.collection_params:
                subj = m.subject_param
                good = False
                why = f"no loop looks up every element of `{p}` by {SUBMODULES}(graph, element)"
                for st in m.subtree_sites:
                    if st.collection != p or st.loop is None:
                        continue
                    loop_stmt = st.loop if isinstance(st.loop, ast.stmt) else stmt_of(st.loop)
                    if not cfg.dominates(loop_stmt, EXIT):
                        why = f"the loop over `{p}` is not on every path to the normal exit"
                        continue
                    if _loop_has_escape(st.loop):
                        why = f"the loop over `{p}` can be left before every element was looked up"
                        continue
                    if any(sk != subj for sk in st.implicit_skips):
                        why = f"elements {st.implicit_skips} of `{p}` are never looked up"
                        continue
                    # inside the loop the lookup may only be skipped for the element equal to the subject (looked up on its own)
                    g_loop = m.guard_of(loop_stmt)
                    ok_skip = implies(g_loop, st.guard)
                    if not ok_skip and subj is not None:
                        a, b = sorted([st.arg, subj])
                        ok_skip = implies(f_and([g_loop, f_not(atom(f"{a} == {b}"))]), st.guard)
                    if not ok_skip:
                        why = f"the lookup of an element of `{p}` is skipped under more than `element == {subj}`: `{show(st.guard)}`"
                        continue
                    good = True
                    break
                out.append(LookupFact(m, p, good, f"every element of `{p}` is looked up in the graph (raising for an unknown module) on every path" if good else f"an element of `{p}` can escape the raising graph lookup {SUBMODULES}(graph, element): a misspelt module name yields a verdict ({why})", "elements" if good else "none"))
                continue
            # one filter
            direct = [st for st in m.subtree_sites if st.param == p and cfg.dominates(stmt_of(st.call), EXIT) and _unconditional_in_stmt(st.call)]
            single = _single_assignments(v.node)
            early = [e for e in m.other_expansions if e.args and _node_expr_text(e.args[0], single) == f"{p}.{NODE_ATTR}" and cfg.dominates(stmt_of(e), EXIT) and _unconditional_in_stmt(e)]
            if early:
                out.append(LookupFact(m, p, True, f"the node of `{p}` is handed to the raising accessor `{norm(early[0])}` on every path", "accessor"))
                continue
            if direct and m.role != "submodules":
                out.append(LookupFact(m, p, True, f"`{p}` reaches a raising graph lookup on every path before the function returns", "subtree"))
                continue
            if m.role == "submodules" or p == m.subject_param:
                ok, why = first_iteration_lookup(m, p)
                if ok:
                    out.append(LookupFact(m, p, True, why, "first-iteration"))
                    continue
                detail = f"`{p}` may not reach the raising accessor ({why})" if m.role == "submodules" else f"a path through {v.name} returns without `{p}` having been looked up in the graph: a rule naming a module that does not exist gets a verdict instead of a lookup error ({why})"
                out.append(LookupFact(m, p, False, detail, "none"))
                continue
            out.append(LookupFact(m, p, False, f"a path through {v.name} returns without `{p}` having been looked up in the graph: a rule naming a module that does not exist gets a verdict instead of a lookup error", "none"))
    return out


def membership(var: str, setvar: str) -> Formula:
    return atom(f"{var} in {setvar}")
