"""C01.S - search discipline of the graph searches (shared by C01, C14.R3): hierarchy/import classification before use,
push / record / mark conditions, object sets.  The model of the searches is built by rules/search.py."""

from __future__ import annotations

import ast

from core.guards import atom, f_and, f_not, f_or, implies
from core.loader import AnalysisError, Repo, calls_in, own_nodes
from core.report import Result

from . import search as S
from .common import dotted, guard_formula, is_attr_call, stmt_of, where


def run_search(repo: Repo, res: Result) -> None:
    ms = S.models(repo)
    n = 0
    for m in ms:
        fi = m.fi
        H = atom(m.hier_atom) if m.hier_atom else None
        # orientation of the hierarchy test
        for hc in m.hier_calls:
            a = [dotted(x) for x in hc.args]
            want = [m.popped, m.neighbour_var] if m.direction == "succ" else [m.neighbour_var, m.popped]
            n += 1
            res.add(
                "C01.S",
                repo.key(fi, stmt_of(hc)) + " [hierarchy test orientation]",
                a == want,
                f"parent_child_relationship({', '.join(a)})" + ("" if a == want else f": expected ({', '.join(want)}) for a {'successor' if m.direction == 'succ' else 'predecessor'} expansion"),
                where(fi, hc),
                kind="structural",
            )
        for ev in m.events:
            if not ev.in_neighbour_loop:
                continue
            n += 1
            if H is None:
                res.add("C01.S", repo.key(fi, stmt_of(ev.call)), False, f"{ev.kind} of `{ev.what}` although neighbours are never classified by {S.HIER}", where(fi, ev.call), kind="dominance")
                continue
            is_h = implies(ev.guard, H)
            not_h = implies(ev.guard, f_not(H))
            if ev.kind == "record":
                ok = not_h
                detail = "recorded only on the import (non-hierarchy) branch" if ok else f"a pair is recorded under `{ev.guard_text}`, which does not exclude hierarchy edges: a package would 'import' its own sub modules"
                if ok:
                    pair = S.record_pair(m, ev)
                    want = (m.popped, m.neighbour_var) if m.direction == "succ" else (m.neighbour_var, m.popped)
                    if pair != want:
                        ok = False
                        detail = f"recorded pair is {pair}, expected (importer, importee) = {want}"
            elif ev.kind == "push":
                if m.role in ("explicit", "submodules"):
                    ok = is_h
                    detail = "worklist extended along hierarchy edges only" if ok else f"`{ev.what}` is pushed under `{ev.guard_text}`: the search follows import edges and attributes imports of imported modules to the subject"
                else:
                    ok = is_h or not_h
                    detail = "push classified by edge kind" if ok else f"`{ev.what}` is pushed before the edge kind is known (`{ev.guard_text}`)"
            else:  # mark
                pushes = [p for p in m.events if p.kind == "push" and p.what == ev.what]
                ok = ev.what == m.popped or (bool(pushes) and implies(ev.guard, f_or([p.guard for p in pushes])))
                detail = "only expanded nodes are marked visited" if ok else f"`{ev.what}` is marked visited under `{ev.guard_text}` without being pushed under the same condition: a module first seen through an import edge is never expanded"
            res.add("C01.S", repo.key(fi, stmt_of(ev.call)) + f" [{ev.kind}]", ok, detail, where(fi, ev.call), kind="dominance")
        # marks outside the neighbour loop: only the popped node
        for ev in m.events:
            if ev.kind == "mark" and not ev.in_neighbour_loop:
                n += 1
                ok = ev.what == m.popped
                res.add("C01.S", repo.key(fi, stmt_of(ev.call)) + " [mark]", ok, "popped node marked visited" if ok else f"`{ev.what}` marked visited instead of the popped node", where(fi, ev.call), kind="structural")
        if m.role == "explicit":
            # S4: object set is the object's whole subtree; both endpoints must not be 'sub modules of' parents
            rec = [e for e in m.events if e.kind == "record"]
            obj_param = fi.param_names[2]
            subj_param = fi.param_names[1]
            obj_sets = [v for v, p in m.submodule_sets.items() if p == obj_param]
            for e in rec:
                n += 1
                ok = bool(obj_sets) and implies(e.guard, atom(f"{m.neighbour_var} in {obj_sets[0]}"))
                res.add(
                    "C01.S",
                    repo.key(fi, stmt_of(e.call)) + " [object subtree]",
                    ok,
                    f"target must lie in {S.SUBMODULES}(graph, {obj_param})" if ok else f"the recorded target is not restricted to the object's subtree {S.SUBMODULES}(graph, {obj_param}) (a named module stands for itself and all its descendants)",
                    where(fi, e.call),
                    kind="dominance",
                )
                excl = None
                for s_ in own_nodes(fi.node):
                    if isinstance(s_, ast.Assign) and isinstance(s_.value, ast.Call) and dotted(s_.value.func) == "get_parent_nodes":
                        arg = s_.value.args[0] if s_.value.args else None
                        if isinstance(arg, (ast.List, ast.Tuple)) and sorted(dotted(x) for x in arg.elts) == sorted([subj_param, obj_param]):
                            excl = dotted(s_.targets[0])
                n += 1
                ok = excl is not None and implies(e.guard, f_and([f_not(atom(f"{m.popped} in {excl}")), f_not(atom(f"{m.neighbour_var} in {excl}"))]))
                res.add(
                    "C01.S",
                    repo.key(fi, stmt_of(e.call)) + " [strict descendants]",
                    ok,
                    "'sub modules of X' excludes X itself on both sides" if ok else "the parent of a 'sub modules of' filter is not excluded on both sides of the recorded import",
                    where(fi, e.call),
                    kind="dominance",
                )
        if m.role == "other":
            subj = fi.param_names[1] if m.direction == "succ" else fi.param_names[2]
            own = [v for v, p in m.submodule_sets.items() if p == subj]
            exc = list(m.accumulated_sets)
            if not own or not exc:
                raise AnalysisError(f"{fi.fq}: own-subtree / excluded sets not recognised")
            for e in [e for e in m.events if e.kind == "record"]:
                n += 1
                goal = f_and([f_not(atom(f"{m.neighbour_var} in {exc[0]}")), f_not(atom(f"{m.neighbour_var} in {own[0]}"))])
                ok = implies(e.guard, goal)
                res.add(
                    "C01.S",
                    repo.key(fi, stmt_of(e.call)) + " [something else]",
                    ok,
                    "recorded only if the other end is neither inside the subject nor an excluded object" if ok else f"an import is reported as 'something else' under `{e.guard_text}`, which does not exclude the subject's own subtree `{own[0]}` and the objects `{exc[0]}`",
                    where(fi, e.call),
                    kind="dominance",
                )
            # the subject set skips exactly itself when accumulating the excluded set, and 'sub modules of' adjustments exist
            for c in calls_in(fi.node):
                if is_attr_call(c, "update") and dotted(c.func.value) == exc[0] and c.args and isinstance(c.args[0], ast.Call) and dotted(c.args[0].func) == S.SUBMODULES:
                    n += 1
                    x = dotted(c.args[0].args[1])
                    a, b = sorted([x, subj])
                    skip_ok = implies(guard_formula(fi, c), f_not(atom(f"{a} == {b}")))
                    res.add(
                        "C01.S",
                        repo.key(fi, stmt_of(c)) + " [subject not excluded from itself]",
                        skip_ok,
                        "an object equal to the subject does not exclude the subject's own subtree" if skip_ok else "the subject's own subtree can be put into the excluded set (the alias 'anything' = 'except itself' would examine nothing)",
                        where(fi, c),
                        kind="dominance",
                    )
    res.floor("C01.S", 18, n)


